#!/usr/bin/env python3
"""Renders the definitions of spec/Layout.tla: (a) a definitions file for `gen split` (static layout
tables), (b) a small crate that reads real objects as raw words (dynamic layout).

    render_layout.py <layout.jsonl> <out_dir>"""
import json, os, sys

BODY = {"ws_d": 78, "n1": 71, "vo_a": 72, "n2": 73, "sk_b": 74, "n3": 75, "vo_c": 76, "n4": 77, "zz": 11, "aa": 12, "mm": 13, "b1": 21, "a2": 22, "only": 31, "q": 41, "p": 42, "r": 43, "o": 44, "s": 45, "tb1": 51, "ta2": 61, "ta1": 62,
        "open": 81, "close": 82, "ident": 83, "reset": 84, "b1x": 91, "b2x": 92, "b3x": 93, "b4x": 94, "b5x": 95}


def method_decl(m):
    if m.startswith("ty_"):
        # an associated type declared at this position of the trait body (not a vtable slot)
        return "        type %s;" % m.title().replace("_", "")
    if m.startswith("vo_"):
        return "        #[vtbl_only]\n        fn %s(&self) -> u64 { 0 }" % m
    if m.startswith("ws_"):
        return "        fn %s(&self) -> u64 where Self: Sized { 0 }" % m
    if m.startswith("sk_"):
        return "        #[skip_func]\n        fn %s(&self) -> u64 { 0 }" % m
    return "        fn %s(&self) -> u64;" % m


def trait_src(name, methods):
    ms = "\n".join(method_decl(m) for m in methods)
    return "#[cglue_trait]\npub trait %s {\n%s\n}\n" % (name, ms)


def impl_src(ty, name, methods):
    ms = "\n".join(("    type %s = u64;" % m.title().replace("_", "")) if m.startswith("ty_") else "    fn %s(&self) -> u64 { %d }" % (m, BODY[m]) for m in methods)
    return "impl %s for %s {\n%s\n}\n" % (name, ty, ms)


def cast_blocks(k, optkeys):
    """Layout!CastSameBits: the concrete form `<Group>With<Traits>` produced by cast! has the bit pattern of the group it
    was cast from, for EVERY non-empty subset of the optional traits (adjacent in name order or not)"""
    import itertools
    out = []
    for r in range(1, len(optkeys) + 1):
        for sub in itertools.combinations(optkeys, r):
            out.append("""        {
            let gg = g%d::GBaseBox::<L>::from(CBox::from(Box::new(L { tag: 8 }))).into_opaque();
            let w0 = raw8(&gg);
            let n0 = std::mem::size_of_val(&gg) / 8;
            match cast!(gg impl %s) {
                Some(cc) => report(&mut out, "group%d:cast_same_bits:%s", std::mem::size_of_val(&cc) / 8 == n0 && raw8(&cc)[..n0.min(8)] == w0[..n0.min(8)], format!("{:x?} vs {:x?}", &raw8(&cc)[..n0.min(8)], &w0[..n0.min(8)])),
                None => report(&mut out, "group%d:cast_same_bits:%s", false, "cast refused although every optional trait is implemented".to_string()),
            }
        }
""" % (k, " + ".join(sub), k, "+".join(sub), k, "+".join(sub)))
    return "".join(out)


def group_macro(gname, listing, qualify=False):
    # qualify: the name that sorts first in each list of two or more is written with a path (`self::Alpha`): the order of
    # the fields is the order of the NAMES (last path segment / alias), however a name is spelled
    def spell(names, n):
        return "self::" + n if qualify and len(names) >= 2 and n == sorted(names)[0] else n
    mnames = list(listing["mand"])
    onames = [o["tr"] for o in listing["opt"]]
    mand = ", ".join(spell(mnames, m) for m in mnames)
    opt = ", ".join(spell(onames, o["tr"]) if o["tr"] == o["key"] else "%s = %s" % (spell(onames, o["tr"]), o["key"]) for o in listing["opt"])
    return "cglue_trait_group!(%s, { %s }, { %s });" % (gname, mand, opt)


def main():
    data = json.loads(open(sys.argv[1]).read())
    out = sys.argv[2]
    os.makedirs(os.path.join(out, "src"), exist_ok=True)
    traits = data["traits"]
    decls = data.get("decls", traits)
    groups = sorted(data["groups"], key=lambda g: json.dumps(g, sort_keys=True))
    # (a) static: one module per trait, one per group listing
    parts = ["pub use cglue::prelude::v1::*;\npub use cglue::*;\n"]
    for t, ms in sorted(traits.items()):
        parts.append("pub mod t_%s {\n    use super::*;\n    %s}\n" % (t.lower(), trait_src(t, decls[t]).replace("\n", "\n    ")))
    for k, g in enumerate(groups):
        uses = "\n".join("    use super::t_%s::*;" % t.lower() for t in sorted(traits))
        parts.append("pub mod g%d {\n    use super::*;\n%s\n    %s\n}\n" % (k, uses, group_macro("G", g["listing"], k % 2 == 1)))
    open(os.path.join(out, "src", "defs.rs"), "w").write("".join(parts))
    json.dump({"traits": traits, "groups": groups}, open(os.path.join(out, "index.json"), "w"))
    # (b) dynamic crate
    dyn = os.path.join(out, "dyn")
    os.makedirs(os.path.join(dyn, "src"), exist_ok=True)
    src = ["#![allow(unused, non_snake_case, clippy::all)]\nuse cglue::prelude::v1::*;\nuse cglue::*;\nuse cglue::trait_group::*;\n"
           "#[repr(C)] pub struct L { pub tag: u64 }\n#[repr(C)] pub struct L2 { pub tag: u64 }\n"]
    for t, ms in sorted(traits.items()):
        src.append(trait_src(t, decls[t]))
        src.append(impl_src("L", t, decls[t]))
        src.append(impl_src("L2", t, decls[t]))
    checks = []
    # vtables: word k of the vtable behind word 0 of the object == getter of the k-th declared method
    for t, ms in sorted(traits.items()):
        if not ms:
            continue
        getters = ", ".join("o.get_vtbl().%s() as usize" % m for m in ms)
        checks.append("""    {
        let o = trait_obj!(L { tag: 7 } as %s);
        let words = unsafe { *(&o as *const _ as *const *const usize) };
        let expect: Vec<usize> = vec![%s];
        let got: Vec<usize> = (0..expect.len()).map(|i| unsafe { *words.add(i) }).collect();
        report(&mut out, "vtable:%s", got == expect && distinct(&expect), format!("{:?} vs {:?}", got, expect));
        // opaque and concrete form: same size, alignment and bits
        let base = %sBaseBox::<L%s>::from(L { tag: 9 });
        let b0: [usize; 8] = raw8(&base);
        let sz0 = (std::mem::size_of_val(&base), std::mem::align_of_val(&base));
        let opq = base.into_opaque();
        let b1: [usize; 8] = raw8(&opq);
        let sz1 = (std::mem::size_of_val(&opq), std::mem::align_of_val(&opq));
        let n = sz0.0 / 8;
        report(&mut out, "bits:%s", sz0 == sz1 && b0[..n.min(8)] == b1[..n.min(8)], format!("{:?} {:?}", sz0, sz1));
    }
""" % (t, getters, t, t, ", u64" * len([m for m in decls[t] if m.startswith("ty_")]), t))
    for k, g in enumerate(groups):
        lay = g["layout"]
        keys = lay["mandatory"] + lay["optional"]
        optkeys = lay["optional"]
        key2tr = {o["key"]: o["tr"] for o in g["listing"]["opt"]}
        key2tr.update({m: m for m in g["listing"]["mand"]})
        src.append("pub mod g%d {\n    use super::*;\n    %s\n" % (k, group_macro("G", g["listing"], k % 2 == 1)))
        all_opt = ", ".join(o["tr"] if o["tr"] == o["key"] else "%s = %s" % (o["tr"], o["key"]) for o in g["listing"]["opt"])
        first_opt = ""
        if g["listing"]["opt"]:
            o = g["listing"]["opt"][0]
            first_opt = o["tr"] if o["tr"] == o["key"] else "%s = %s" % (o["tr"], o["key"])
        src.append("    cglue_impl_group!(L, G, { %s });\n    cglue_impl_group!(L2, G, { %s });\n}\n" % (all_opt, first_opt))
        # expected words: per key the address of the default vtable of that trait for this container (L: all present)
        def vt(key, ty):
            return "<&g%d::%sVtbl<'static, g%d::GContainer<CBox<'static, %s>, NoContext>> as Default>::default() as *const _ as usize" % (k, key2tr[key], k, ty) if False else \
                   "<&%sVtbl<'static, g%d::GContainer<CBox<'static, %s>, NoContext>> as Default>::default() as *const _ as usize" % (key2tr[key], k, ty)
        exp_all = ", ".join(vt(key, "L") for key in keys)
        enabled2 = [g["listing"]["opt"][0]["key"]] if g["listing"]["opt"] else []
        exp_l2 = ", ".join((vt(key, "L2") if (key in lay["mandatory"] or key in enabled2) else "0usize") for key in keys)
        checks.append("""    {
        let payload = Box::new(L { tag: 5 });
        let addr = &*payload as *const L as usize;
        let gobj = g%d::GBaseBox::<L>::from(CBox::from(payload));
        let n = %d;
        let words: Vec<usize> = (0..n + 2).map(|i| unsafe { *(&gobj as *const _ as *const usize).add(i) }).collect();
        let expect: Vec<usize> = vec![%s];
        report(&mut out, "group%d:vtables", words[..n] == expect[..], format!("{:?} vs {:?}", &words[..n], expect));
        report(&mut out, "group%d:instance_follows", words[n] == addr && words[n + 1] != 0, format!("{:x} vs {:x}", words[n], addr));
        let b0 = raw8(&gobj);
        let sz0 = (std::mem::size_of_val(&gobj), std::mem::align_of_val(&gobj));
        let opq = gobj.into_opaque();
        let sz1 = (std::mem::size_of_val(&opq), std::mem::align_of_val(&opq));
        report(&mut out, "group%d:bits", sz0 == sz1 && b0[..(sz0.0 / 8).min(8)] == raw8(&opq)[..(sz0.0 / 8).min(8)], format!("{:?} {:?}", sz0, sz1));
%s        let g2 = g%d::GBaseBox::<L2>::from(CBox::from(Box::new(L2 { tag: 6 })));
        let words2: Vec<usize> = (0..n).map(|i| unsafe { *(&g2 as *const _ as *const usize).add(i) }).collect();
        let expect2: Vec<usize> = vec![%s];
        report(&mut out, "group%d:absent_is_null", words2 == expect2, format!("{:?} vs {:?}", words2, expect2));
    }
""" % (k, len(keys), exp_all, k, k, k, cast_blocks(k, optkeys), k, exp_l2, k))
    # containers: instance, context, temporary storage at the predicted word offsets (single-trait objects)
    src.append("""#[cglue_trait] pub trait CPlain { fn cp_me(&self) -> usize; }
#[cglue_trait] pub trait CHolder {
    #[wrap_with_obj_ref(CPlain)]
    type Ret: CPlain + 'static;
    fn ch_inner(&self) -> &Self::Ret;
    fn cp_me(&self) -> usize;
}
pub struct CIn { pub v: u64 }
impl CPlain for CIn { fn cp_me(&self) -> usize { self as *const _ as usize } }
pub struct CHd { pub inner: CIn }
pub struct CHp { pub inner: CIn }
impl CHolder for CHd { type Ret = CIn; fn ch_inner(&self) -> &CIn { &self.inner } fn cp_me(&self) -> usize { self as *const _ as usize } }
impl CPlain for CHp { fn cp_me(&self) -> usize { self as *const _ as usize } }
""")
    for cs in sorted(data.get("containers", []), key=lambda x: json.dumps(x, sort_keys=True)):
        k, at = cs["case"], cs["at"]
        ty, tr = ("CHd", "CHolder") if k["tmp"] == "objref" else ("CHp", "CPlain")
        val = "%s { inner: CIn { v: 3 } }" % ty
        inst = "&href" if k["inst"] == "ref" else val
        arg = "(%s, CArc::<u64>::from(a.clone()))" % inst if k["ctx"] == "arc" else inst
        label = "container:%s/%s/%s" % (k["inst"], k["ctx"], k["tmp"])
        tmp_chk = ""
        if k["tmp"] == "objref":
            tmp_chk = """        let inner_me = { let r = o.ch_inner(); r.cp_me() };
        let w = words(&o);
        report(&mut out, "%s:tmp", w.len() > %d && w[%d] != 0 && w[%d] == inner_me%s, format!("words {:x?}, inner at {:x}, context at {:x}", w, inner_me, ap));
""" % (label, at["tmp_at"] + 1, at["tmp_at"], at["tmp_at"] + 1, (" && w[%d] == ap" % (at["tmp_at"] + 2)) if k["ctx"] == "arc" else "")
        checks.append("""    {
        let a = std::sync::Arc::new(77u64);
        let ap = std::sync::Arc::as_ptr(&a) as usize;
        let href = %s;
        let o = trait_obj!(%s as %s);
        let me = o.cp_me();
        let w = words(&o);
        report(&mut out, "%s:size", w.len() == %d, format!("{} words, expected %d", w.len()));
        report(&mut out, "%s:instance", w.len() > %d && w[%d] == me, format!("words {:x?}, instance at {:x}", w, me));
%s%s    }
""" % (val, arg, tr, label, at["words"], at["words"], label, at["inst_at"], at["inst_at"],
       ("""        report(&mut out, "%s:context", w.len() > %d && w[%d] == ap, format!("words {:x?}, context payload at {:x}", w, ap));
""" % (label, at["ctx_at"], at["ctx_at"])) if k["ctx"] == "arc" else "", tmp_chk))
    # group containers: temporary storage blocks of the member traits, mandatory first (Layout!GroupContWords)
    src.append("""#[cglue_trait] pub trait ZHold {
    #[wrap_with_obj_ref(CPlain)]
    type ZRet: CPlain + 'static;
    fn zh_inner(&self) -> &Self::ZRet;
    fn zh_me(&self) -> usize;
}
#[cglue_trait] pub trait AHold {
    #[wrap_with_obj_ref(CPlain)]
    type ARet: CPlain + 'static;
    fn ah_inner(&self) -> &Self::ARet;
}
cglue_trait_group!(GHold, ZHold, AHold);
pub struct GHd { pub z: CIn, pub a: CIn }
impl ZHold for GHd { type ZRet = CIn; fn zh_inner(&self) -> &CIn { &self.z } fn zh_me(&self) -> usize { self as *const _ as usize } }
impl AHold for GHd { type ARet = CIn; fn ah_inner(&self) -> &CIn { &self.a } }
cglue_impl_group!(GHd, GHold, AHold);
""")
    for gc in sorted(data.get("groupconts", []), key=lambda x: x["ctx"]):
        cx, at = gc["ctx"], gc["at"]
        arg = "(GHd { z: CIn { v: 1 }, a: CIn { v: 2 } }, CArc::<u64>::from(a.clone()))" if cx == "arc" else "GHd { z: CIn { v: 1 }, a: CIn { v: 2 } }"
        label = "groupcontainer:%s" % cx
        checks.append("""    {
        let a = std::sync::Arc::new(78u64);
        let ap = std::sync::Arc::as_ptr(&a) as usize;
        let o = group_obj!(%s as GHold);
        let me = o.zh_me();
        let zi = { let r = o.zh_inner(); r.cp_me() };
        let ai = { let v = as_ref!(o impl AHold).expect("AHold enabled"); let r = v.ah_inner(); r.cp_me() };
        let w = words(&o);
        report(&mut out, "%s:size", w.len() == %d, format!("{} words, expected %d", w.len()));
        report(&mut out, "%s:instance", w.len() > %d && w[%d] == me, format!("words {:x?}, instance at {:x}", w, me));
%s        report(&mut out, "%s:tmp_mandatory", w.len() > %d && w[%d] != 0 && w[%d] == zi, format!("words {:x?}, ZHold's inner at {:x}, AHold's at {:x}", w, zi, ai));
        report(&mut out, "%s:tmp_optional", w.len() > %d && w[%d] != 0 && w[%d] == ai, format!("words {:x?}, ZHold's inner at {:x}, AHold's at {:x}", w, zi, ai));
    }
""" % (arg, label, at["words"], at["words"], label, at["inst_at"], at["inst_at"],
       ("""        report(&mut out, "%s:context", w.len() > %d && w[%d] == ap, format!("words {:x?}, context payload at {:x}", w, ap));
""" % (label, at["ctx_at"], at["ctx_at"])) if cx == "arc" else "",
       label, at["tmp_at"]["ZHold"] + 1, at["tmp_at"]["ZHold"], at["tmp_at"]["ZHold"] + 1,
       label, at["tmp_at"]["AHold"] + 1, at["tmp_at"]["AHold"], at["tmp_at"]["AHold"] + 1))
    src.append("""fn words<T>(t: &T) -> Vec<usize> {
    (0..std::mem::size_of::<T>() / 8).map(|i| unsafe { *(t as *const T as *const usize).add(i) }).collect()
}
fn raw8<T>(t: &T) -> [usize; 8] {
    let mut o = [0usize; 8];
    let n = (std::mem::size_of::<T>() / 8).min(8);
    for i in 0..n { o[i] = unsafe { *(t as *const T as *const usize).add(i) }; }
    o
}
fn distinct(v: &[usize]) -> bool { let mut s = v.to_vec(); s.sort(); s.dedup(); s.len() == v.len() }
fn report(out: &mut Vec<String>, what: &str, ok: bool, detail: String) {
    out.push(format!("{{\\"what\\":\\"{}\\",\\"ok\\":{},\\"detail\\":\\"{}\\"}}", what, ok, detail));
}
fn main() {
    let mut out: Vec<String> = vec![];
%s
    println!("[{}]", out.join(","));
}
""" % "".join(checks))
    open(os.path.join(dyn, "src", "main.rs"), "w").write("".join(src))
    open(os.path.join(dyn, "Cargo.toml"), "w").write('[package]\nname = "layoutdyn"\nversion = "0.0.0"\nedition = "2018"\n\n[workspace]\n\n[dependencies]\ncglue = { path = "/repo/cglue" }\n')
    os.makedirs(os.path.join(dyn, ".cargo"), exist_ok=True)
    open(os.path.join(dyn, ".cargo", "config.toml"), "w").write("[net]\noffline = true\n")
    print(len(groups))


if __name__ == "__main__":
    main()
