#!/usr/bin/env python3
"""Builds the FFI-lint crate for C03 from `gen split` output and runs `cargo check` on it.

    lintcrate.py <exp_dir> <index.json> <crate_dir>  -> prints JSON {diagnostics: [...], errors: [...]}"""
import json, os, subprocess, sys, re


def build(exp_dir, index_path, crate_dir, target_dir):
    index = json.load(open(index_path))
    os.makedirs(os.path.join(crate_dir, "src"), exist_ok=True)
    lines = ["// generated: expansions of the real cglue-gen as ordinary source, judged by rustc's FFI lints",
             "#![allow(unused, non_camel_case_types, clippy::all, unused_unsafe, non_snake_case, unused_parens)]",
             "#![warn(improper_ctypes_definitions, improper_ctypes)]",
             "include!(\"%s\");" % os.path.join(exp_dir, "common.rs")]
    for e in index:
        lines.append("#[path = \"%s\"] pub mod d%d;" % (os.path.join(exp_dir, "d%d.rs" % e["k"]), e["k"]))
    # concrete instantiations: the lint descends into fields with substituted types
    lines.append("pub mod probes {\n    use cglue::boxed::CBox;\n    use cglue::arc::{CArc, CArcSome};\n    use cglue::trait_group::{c_void, NoContext, CGlueObjContainer};")
    for e in index:
        k = e["k"]
        m = "crate::d%d" % k
        if e.get("probe_types"):
            # extra definitions (groups, wrapped returns): concrete instantiations named by the renderer
            lines.append("    pub mod p%d {\n        use super::*;\n        extern \"C\" {\n%s        }\n    }" % (
                k, "".join("            pub fn probe_x%d(o: %s);\n" % (i, t) for i, t in enumerate(e["probe_types"]))))
            continue
        # a trait with an unwrapped associated type: vtable and aliases are generic over it (instantiated with u64)
        ga = ", u64" if (e.get("d") or {}).get("arg") in ("aval", "aref", "aslice", "aopt", "ares") else ""
        lines.append("    pub mod p%d {\n        use super::*;\n        type ContB = CGlueObjContainer<CBox<'static, c_void>, NoContext, %s::TRetTmp<NoContext%s>>;\n"
                     "        type ContA = CGlueObjContainer<CBox<'static, c_void>, CArc<c_void>, %s::TRetTmp<CArc<c_void>%s>>;\n"
                     "        type ContR = CGlueObjContainer<&'static c_void, NoContext, %s::TRetTmp<NoContext%s>>;\n"
                     "        type ContM = CGlueObjContainer<&'static mut c_void, NoContext, %s::TRetTmp<NoContext%s>>;\n"
                     "        extern \"C\" {\n            pub fn probe_box(v: &%s::TVtbl<'static, ContB%s>, o: %s::TBox<'static%s>);\n"
                     "            pub fn probe_arc(v: &%s::TVtbl<'static, ContA%s>, o: %s::TArcBox<'static%s>);\n"
                     "            pub fn probe_ref(v: &%s::TVtbl<'static, ContR%s>, o: %s::TRef<'static%s>);\n"
                     "            pub fn probe_mut(v: &%s::TVtbl<'static, ContM%s>, o: %s::TMut<'static%s>);\n        }\n    }"
                     % (k, m, ga, m, ga, m, ga, m, ga, m, ga, m, ga, m, ga, m, ga, m, ga, m, ga, m, ga, m, ga))
    lines.append("}")
    open(os.path.join(crate_dir, "src", "lib.rs"), "w").write("\n".join(lines) + "\n")
    open(os.path.join(crate_dir, "Cargo.toml"), "w").write('[package]\nname = "lintcrate"\nversion = "0.0.0"\nedition = "2018"\n\n[workspace]\n\n[dependencies]\ncglue = { path = "/repo/cglue" }\n')
    os.makedirs(os.path.join(crate_dir, ".cargo"), exist_ok=True)
    open(os.path.join(crate_dir, ".cargo", "config.toml"), "w").write("[net]\noffline = true\n")
    here = os.path.dirname(os.path.dirname(os.path.abspath(__file__)))
    lock = os.path.join(here, "harness", "Cargo.lock.repo")
    if os.path.exists(lock):
        open(os.path.join(crate_dir, "Cargo.lock"), "w").write(open(lock).read())
    env = dict(os.environ)
    env.pop("RUSTFLAGS", None)
    p = subprocess.run(["cargo", "check", "--offline", "--message-format=json", "--target-dir", target_dir],
                       cwd=crate_dir, capture_output=True, text=True, env=env)
    diags, errors = [], []
    for l in p.stdout.splitlines():
        try:
            m = json.loads(l)
        except ValueError:
            continue
        if m.get("reason") != "compiler-message":
            continue
        msg = m["message"]
        code = (msg.get("code") or {}).get("code") or ""
        spans = msg.get("spans") or []
        where = ""
        k = None
        for sp in spans:
            if sp.get("is_primary"):
                where = "%s:%d" % (sp["file_name"], sp["line_start"])
                mm = re.search(r"/d(\d+)\.rs$", sp["file_name"])
                if mm:
                    k = int(mm.group(1))
                elif sp["file_name"].endswith("lib.rs"):
                    # probe module pK: find by scanning upwards in lib.rs
                    src = open(os.path.join(crate_dir, "src", "lib.rs")).read().splitlines()
                    for i in range(sp["line_start"] - 1, -1, -1):
                        m2 = re.search(r"pub mod p(\d+) \{", src[i])
                        if m2:
                            k = int(m2.group(1))
                            break
        rec = {"level": msg["level"], "code": code, "k": k, "where": where, "text": msg["message"][:300],
               "label": (spans[0].get("label") if spans else "") or "", "snippet": ((spans[0].get("text") or [{}])[0].get("text", "") if spans else "")[:200]}
        if code.startswith("improper_ctypes"):
            diags.append(rec)
        elif msg["level"] == "error":
            errors.append(rec)
    return {"rc": p.returncode, "diagnostics": diags, "errors": errors, "stderr_tail": p.stderr[-1500:] if p.returncode != 0 else ""}


if __name__ == "__main__":
    print(json.dumps(build(sys.argv[1], sys.argv[2], sys.argv[3], sys.argv[4])))
