#!/usr/bin/env python3
"""Apply a seeded change to /repo, run the named checks (quick), undo the change straight afterwards.
    seedtest.py <patch.diff> <PROP> [<PROP>...]     prints one JSON line per check"""
import json, os, subprocess, sys
V = os.path.dirname(os.path.dirname(os.path.abspath(__file__)))


def main():
    patch, props = sys.argv[1], sys.argv[2:]
    st = subprocess.run(["git", "-C", "/repo", "status", "--porcelain"], capture_output=True, text=True).stdout.strip()
    if st:
        print("refusing: /repo has local changes:\n" + st)
        return 2
    a = subprocess.run(["git", "-C", "/repo", "apply", patch], capture_output=True, text=True)
    if a.returncode != 0:
        print("patch does not apply: " + a.stderr)
        return 2
    try:
        for p in props:
            r = subprocess.run([sys.executable, os.path.join(V, "tools", "check.py"), p, "--tier", "quick"], cwd=V, capture_output=True, text=True)
            lines = [l for l in r.stdout.splitlines() if l.startswith("VIOLATION") or l.startswith("  ") or l.startswith("TOOL-ERROR") or l.startswith("OK ")]
            print(json.dumps({"prop": p, "rc": r.returncode, "first": lines[:3]}))
            sys.stdout.flush()
    finally:
        subprocess.run(["git", "-C", "/repo", "checkout", "--", "."])
        subprocess.run(["git", "-C", "/repo", "clean", "-fdq"])  # seed demos are never part of the patch, but be safe
    return 0


if __name__ == "__main__":
    sys.exit(main())
