#!/usr/bin/env python3
import json, sys, glob, os
import jsonschema
V = os.path.dirname(os.path.dirname(os.path.abspath(__file__)))
jsonschema.validate(json.load(open(V + '/MANIFEST.json')), json.load(open('/root/.vp/MANIFEST.schema.json')))
es = json.load(open('/root/.vp/EVIDENCE.schema.json'))
for f in sorted(glob.glob(V + '/evidence/*.json')):
    jsonschema.validate(json.load(open(f)), es)
    print('ok', os.path.basename(f))
print('manifest ok')
