#!/usr/bin/env python3
"""cbgen: renders an API model into a header in the shape cbindgen 0.20 produces for cglue types
(C mode, style = both, doxygen comments) — the input `cglue-bindgen` post-processes.

cbindgen itself is not installed in this sandbox; the shape is reconstructed from cglue-bindgen's own
regular expressions (cglue-bindgen/src/codegen/c.rs, types.rs) and from the pre-generated example
header (examples/pregen-headers/bindings.h).  Name mangling: T<A, B> -> T_A__B___ with the trailing
closers of the outermost name dropped; &mut T -> ____T, &T -> _____T.

Model (JSON):
  {"traits": [{"name": "Ta", "methods": [{"name": "f", "recv": "ref|mut|own", "args": ["u64", ...], "ret": "void|u64|Pt"}]}],
   "objects": [{"trait": "Ta", "cont": "Box|Mut|Ref", "ctx": "none|Arc"}],
   "groups": [{"name": "Ga", "mand": ["Ta"], "opt": ["Tb"], "insts": [{"cont": "Box", "ctx": "Arc"}]}],
   "foreign": bool, "config": {...}}
"""
import json, sys

CTYPE = {"u64": "uint64_t", "i32": "int32_t", "Pt": "struct Pt", "slice": "struct CSliceRef_u8", "ptr": "const uint8_t *", "void": "void",
         "vptr": "void *", "cvptr": "const void *",
         "cbPt": "OpaqueCallback_Pt", "cbu64": "OpaqueCallback_u64", "cbraw": "struct Callback_c_void__u64", "fnptr": "void (*)(int32_t)"}
# cbraw: the same callback written without the alias (`Callback<c_void, u64>` in the Rust signature): in C++ output its
# type has a comma inside the template argument list
CB_ELEM = {"cbPt": ("Pt", "struct Pt"), "cbu64": ("u64", "uint64_t"), "cbraw": ("u64", "uint64_t")}
INST_NAME = {"Box": "CBox_c_void", "Mut": "____c_void", "Ref": "_____c_void"}
INST_FIELD = {"Box": "struct CBox_c_void instance;", "Mut": "void *instance;", "Ref": "const void *instance;"}
CTX_NAME = {"none": "NoContext", "Arc": "CArc_c_void", "gen": "Context"}
CTX_FIELD = {"none": "NoContext context;", "Arc": "struct CArc_c_void context;", "gen": "Context context;"}

ZST_RETTMP_DOC = """/**
 * Type definition for temporary return value wrapping storage.
 *
 * The trait does not use return wrapping, thus is a typedef to `PhantomData`.
 *
 * Note that `cbindgen` will generate wrong structures for this type. It is important
 * to go inside the generated headers and fix it - all RetTmp structures without a
 * body should be completely deleted, both as types, and as fields in the
 * groups/objects. If C++11 templates are generated, it is important to define a
 * custom type for CGlueTraitObj that does not have `ret_tmp` defined, and change all
 * type aliases of this trait to use that particular structure.
 */
"""
VTBL_DOC = """/**
 * CGlue vtable for trait %s.
 *
 * This virtual function table contains ABI-safe interface for the given trait.
 */
"""
OBJ_DOC = """/**
 * Simple CGlue trait object.
 *
 * This is the simplest form of CGlue object, represented by a container and vtable for a single
 * trait.
 *
 * Container merely is a this pointer with some optional temporary return reference context.
 */
"""
CONT_DOC = """/**
 * Simple CGlue trait object container.
 *
 * This is the simplest form of container, represented by an instance, clone context, and
 * temporary return context.
 */
"""


def inst_part(cont):
    # mangled generic argument (with closers)
    return "CBox_c_void___" if cont == "Box" else INST_NAME[cont]


def ctx_part(ctx):
    return "CArc_c_void___" if ctx == "Arc" else ("Context" if ctx == "gen" else "NoContext")


def obj_container(tr, cont, ctx):
    # CGlueObjContainer<Inst, Ctx, TrRetTmp<Ctx>>
    full = "CGlueObjContainer_%s__%s__%sRetTmp_%s___" % (inst_part(cont), ctx_part(ctx), tr, ctx_part(ctx))
    return full.rstrip("_") if not full.rstrip("_").endswith("NoContext") else full.rstrip("_")


def obj_type(tr, cont, ctx):
    inner_cont = "CGlueObjContainer_%s__%s__%sRetTmp_%s______" % (inst_part(cont), ctx_part(ctx), tr, ctx_part(ctx))
    full = "CGlueTraitObj_%s__%sVtbl_%s___" % (inst_part(cont), tr, inner_cont) + "__%s__%sRetTmp_%s" % (ctx_part(ctx), tr, ctx_part(ctx))
    return full.rstrip("_")


def group_suffix(cont, ctx):
    return ("%s__%s" % (inst_part(cont), ctx_part(ctx))).rstrip("_")


def holder(model):
    """foreign models that are also context-generic carry a user structure holding the first object by value"""
    return bool(model.get("foreign") and model.get("ctxgeneric") and model["objects"])


def pname(i):
    """parameter names as cbindgen copies them from the Rust source: snake_case names (with underscores) and plain ones"""
    return "p_%d_arg" % i if i % 2 == 0 else "a%d" % i


def decl(ctype, name):
    """C declarator of a parameter: the name goes inside a function pointer declarator"""
    if "(*)" in ctype:
        return ctype.replace("(*)", "(*%s)" % name)
    return "%s%s%s" % (ctype, "" if ctype.endswith("*") else " ", name)


def proto(m, cont_struct):
    recv = {"ref": "const struct %s *cont" % cont_struct, "mut": "struct %s *cont" % cont_struct, "own": "struct %s cont" % cont_struct}[m["recv"]]
    args = "".join(", " + decl(CTYPE[t], pname(i)) for i, t in enumerate(m["args"]))
    ret = ("struct %s" % cont_struct) if m["ret"] == "cont" else CTYPE[m["ret"]]
    return "%s%s(*%s)(%s%s);" % (ret, "" if ret.endswith("*") else " ", m["name"], recv, args)


def used_traits(model):
    used = []
    for o in model["objects"]:
        if o["trait"] not in used:
            used.append(o["trait"])
    for g in model["groups"]:
        for t in sorted(g["mand"]) + sorted(g["opt"]):
            if t not in used:
                used.append(t)
    return used


def callback_kinds(model):
    traits = {t["name"]: t for t in model["traits"]}
    return sorted({a for t in used_traits(model) for m in traits[t]["methods"] for a in m["args"] if a in CB_ELEM})


def render(model):
    out = []
    out.append("#include <stdarg.h>\n#include <stdbool.h>\n#include <stdint.h>\n#include <stdlib.h>\n\n")
    foreign = model.get("foreign", False)
    if foreign:
        # the user's cbindgen.toml lists a system header of its own (sys_includes = ["ctype.h"])
        out[-1] = out[-1][:-1] + "#include <ctype.h>\n\n"
        out.append("/**\n * A user structure whose name resembles a CGlue pattern.\n */\ntypedef struct FooVtbl {\n    int32_t a;\n    int32_t b;\n} FooVtbl;\n\n")
    out.append("typedef struct Pt {\n    int32_t x;\n    int64_t y;\n    uint8_t z;\n} Pt;\n\n")
    out.append("/**\n * Wrapper around const slices.\n */\ntypedef struct CSliceRef_u8 {\n    const uint8_t *data;\n    uintptr_t len;\n} CSliceRef_u8;\n\n")
    # cbindgen emits a type only when the API refers to it: no boxed object -> no CBox_c_void, no arc context -> no CArc_c_void
    pairs = [(o["cont"], o["ctx"]) for o in model["objects"]] + [(i["cont"], i["ctx"]) for g in model["groups"] for i in g["insts"]]
    if any(c == "Box" for c, _ in pairs) or model.get("ctxgeneric"):
        out.append("/**\n * FFI-safe box\n */\ntypedef struct CBox_c_void {\n    void *instance;\n    void (*drop_fn)(void*);\n} CBox_c_void;\n\n")
    if any(x == "Arc" for _, x in pairs):
        out.append("/**\n * FFI-Safe Arc\n */\ntypedef struct CArc_c_void {\n    const void *instance;\n    const void *(*clone_fn)(const void*);\n    void (*drop_fn)(const void*);\n} CArc_c_void;\n\n")
    if foreign and any(x == "Arc" for _, x in pairs):
        # a user structure that holds a context by value: cbindgen puts it after the context type it needs
        out.append("/**\n * A user structure that keeps a context.\n */\ntypedef struct UserKeeper {\n    struct CArc_c_void keep;\n    int32_t n;\n} UserKeeper;\n\n")
    for mangled, cty in sorted({CB_ELEM[cb] for cb in callback_kinds(model)}):
        out.append("/**\n * FFI compatible callback.\n */\ntypedef struct Callback_c_void__%s {\n    void *context;\n    bool (*func)(void*, %s);\n} Callback_c_void__%s;\n\n" % (mangled, cty, mangled))
        out.append("typedef struct Callback_c_void__%s OpaqueCallback_%s;\n\n" % (mangled, mangled))
    if foreign:
        out.append("typedef struct BarRetTmp_x {\n    uint64_t keep;\n} BarRetTmp_x;\n\n")
    traits = {t["name"]: t for t in model["traits"]}
    ctxs_used = sorted({o["ctx"] for o in model["objects"]} | {i["ctx"] for g in model["groups"] for i in g["insts"]})
    # zero-sized RetTmp typedefs, one per (trait, context) in use
    used_pairs = set()
    for o in model["objects"]:
        used_pairs.add((o["trait"], o["ctx"]))
    for g in model["groups"]:
        for i in g["insts"]:
            for t in g["mand"] + g["opt"]:
                used_pairs.add((t, i["ctx"]))
    for (t, c) in sorted(used_pairs):
        nm = "%sRetTmp_%s" % (t, CTX_NAME[c])
        out.append(ZST_RETTMP_DOC + "typedef struct %s %s;\n\n" % (nm, nm))
    # single-trait objects
    for o in model["objects"]:
        tr, cont, ctx = o["trait"], o["cont"], o["ctx"]
        cs = obj_container(tr, cont, ctx)
        out.append(CONT_DOC + "typedef struct %s {\n    %s\n    %s\n    struct %sRetTmp_%s ret_tmp;\n} %s;\n\n" % (cs, INST_FIELD[cont], CTX_FIELD[ctx], tr, CTX_NAME[ctx], cs))
        vt = "%sVtbl_%s" % (tr, cs)
        fns = "\n".join("    " + proto(m, cs) for m in traits[tr]["methods"])
        out.append(VTBL_DOC % tr + "typedef struct %s {\n%s\n} %s;\n\n" % (vt, fns, vt))
        ot = obj_type(tr, cont, ctx)
        out.append(OBJ_DOC + "typedef struct %s {\n    const struct %s *vtbl;\n    struct %s container;\n} %s;\n\n" % (ot, vt, cs, ot))
        out.append("/**\n * Base CGlue trait object for trait %s.\n */\ntypedef struct %s %sBase_%s;\n\n" % (tr, ot, tr, group_suffix(cont, ctx)))
        if holder(model) and o is model["objects"][0]:
            # a user structure that holds an object by value: cbindgen puts it after the object type
            out.append("/**\n * A user structure that holds an object by value.\n */\ntypedef struct UserHolder {\n    %sBase_%s held;\n    int32_t n;\n} UserHolder;\n\n" % (tr, group_suffix(cont, ctx)))
    # groups
    for g in model["groups"]:
        allt = sorted(g["mand"]) + sorted(g["opt"])
        for i in g["insts"]:
            cont, ctx = i["cont"], i["ctx"]
            suf = group_suffix(cont, ctx)
            cs = "%sContainer_%s" % (g["name"], suf)
            tmps = "".join("\n    struct %sRetTmp_%s ret_tmp_%s;" % (t, CTX_NAME[ctx], t.lower()) for t in allt)
            out.append("typedef struct %s {\n    %s\n    %s%s\n} %s;\n\n" % (cs, INST_FIELD[cont], CTX_FIELD[ctx], tmps, cs))
            for t in allt:
                vt = "%sVtbl_%s" % (t, cs)
                fns = "\n".join("    " + proto(m, cs) for m in traits[t]["methods"])
                out.append(VTBL_DOC % t + "typedef struct %s {\n%s\n} %s;\n\n" % (vt, fns, vt))
            gt = "%s_%s" % (g["name"], suf)
            ptrs = "".join("    const struct %sVtbl_%s *vtbl_%s;\n" % (t, cs, t.lower()) for t in allt)
            out.append("/**\n * Trait group definition with:\n *\n * `%s` group of traits.\n */\ntypedef struct %s {\n%s    struct %s container;\n} %s;\n\n" % (g["name"], gt, ptrs, cs, gt))
    if model.get("ctxgeneric"):
        # structures generic over the context, as cbindgen emits them for wrapped associated returns
        for nm in ("InnerGroupContainer_CBox_c_void_____Context", "OtherObjContainer_____c_void__Context"):
            inst = "struct CBox_c_void instance;" if "CBox" in nm else "void *instance;"
            out.append("/**\n * A container generic over its context.\n */\ntypedef struct %s {\n    %s\n    Context context;\n} %s;\n\n" % (nm, inst, nm))
        # the same single-trait object once more in its context-generic form (next to the concrete one),
        # plus a further user context type: the tool must expand the generic form for the new context
        # only and leave the existing concrete definition alone
        arcs = [o for o in model["objects"] if o["cont"] == "Box" and o["ctx"] == "Arc"]
        if arcs:
            tr = arcs[0]["trait"]
            out.append("typedef struct LibCtx {\n    void *handle;\n} LibCtx;\n\n")
            for cn in ("Context", "LibCtx"):
                nm = "%sRetTmp_%s" % (tr, cn)
                out.append(ZST_RETTMP_DOC + "typedef struct %s %s;\n\n" % (nm, nm))
            cs = obj_container(tr, "Box", "gen")
            out.append(CONT_DOC + "typedef struct %s {\n    %s\n    %s\n    struct %sRetTmp_Context ret_tmp;\n} %s;\n\n" % (cs, INST_FIELD["Box"], CTX_FIELD["gen"], tr, cs))
            vt = "%sVtbl_%s" % (tr, cs)
            fns = "\n".join("    " + proto(m, cs) for m in traits[tr]["methods"])
            out.append(VTBL_DOC % tr + "typedef struct %s {\n%s\n} %s;\n\n" % (vt, fns, vt))
            ot = obj_type(tr, "Box", "gen")
            out.append(OBJ_DOC + "typedef struct %s {\n    const struct %s *vtbl;\n    struct %s container;\n} %s;\n\n" % (ot, vt, cs, ot))
    out.append("#ifdef __cplusplus\nextern \"C\" {\n#endif // __cplusplus\n\n")
    if foreign:
        out.append("/**\n * An unrelated user function.\n */\nint32_t user_function_Container(struct FooVtbl v, struct BarRetTmp_x w);\n\n")
    out.append("uint64_t api_entry(uint64_t x);\n\n#ifdef __cplusplus\n} // extern \"C\"\n#endif // __cplusplus\n")
    return "".join(out)


if __name__ == "__main__":
    model = json.load(open(sys.argv[1]))
    sys.stdout.write(render(model))
