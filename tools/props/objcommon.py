"""Shared pipeline for the properties decided on spec/CGlueObj.tla (C01 histories, C06, C07, C08)."""
import json, os, subprocess
import lib
from lib import cargo_build, run_tlc, workdir

CLASS_OF = {"C06": "drop", "C07": "ctx", "C01": "call", "C08": "cast"}
INVS = {"C06": "DropAtMostOnce NoDangling OwnedExactlyOnce BorrowNeverFrees",
        "C07": "CtxCountExact NoCtxLeak CtxReleasedIffUnreferenced CtxNotEarly CtxAliveInCall",
        "C08": "CastIff SameInstance", "C01": "SameInstance"}


def obj_replay(c, rt, jsonl, nslots, parts, label):
    """Replay with divergences routed by class: only this property's class is a violation here."""
    own = CLASS_OF[c.prop]
    pieces = lib.split_file(jsonl, parts, jsonl + ".part")
    cmds = [[rt, "obj", "replay", p, "--slots", str(nslots), "--ctx", "1"] for p in pieces]
    tb = ts = known = 0
    for (rc, summ, out), p in zip(lib.run_parallel(cmds, timeout=3000), pieces):
        if rc == 2 or rc == 124:
            raise lib.ToolError("adapter reported a tool error / timed out (rc=%s)" % rc)
        if rc != 0 or summ is None:
            e2 = dict(os.environ); e2["VERIF_BISECT"] = "1"
            pr = subprocess.run(cmds[0][:3] + [p] + cmds[0][4:], capture_output=True, text=True, env=e2)
            idx = [int(l.split()[1]) for l in pr.stderr.splitlines() if l.startswith("BEH ")]
            beh = None
            if idx:
                with open(p) as f:
                    for i, l in enumerate(f):
                        if i == idx[-1]:
                            beh = json.loads(l)
            # memory-unsafety symptoms (a crash) belong to the lifecycle property; a crash inside an operation that only CALLS
            # through an object (plain call, call through as_ref!/as_mut!, through a borrowed or lent child) also means the call
            # did not reach the method on the instance (C01), inside a cast operation that the cast misbehaved (C08)
            ops = [l.split()[1] for l in pr.stderr.splitlines() if l.startswith("OP ")]
            last_op = ops[-1] if ops else ""
            mine = (c.prop == "C06" or (c.prop == "C01" and last_op in ("Call", "Consume", "CastBorrow", "KidBorrowed", "KidView"))
                    or (c.prop == "C08" and last_op in ("CastBorrow", "CastMove", "Upcast")))
            if mine:
                c.violation("the real code crashed the replay child (rc=%s) during %s %s on behaviour %s" % (rc, last_op or "?", label, json.dumps(beh)[:500]),
                            {"beh": beh, "adapter": ["obj", "replay", "--slots", str(nslots), "--ctx", "1"]})
            else:
                c.cov.setdefault("other_property_divergences", []).append("child crashed during %s (attributed to C06)" % (last_op or "?"))
            continue
        tb += summ["behaviours"]
        ts += summ["steps"]
        known += summ["extra"].get("known_F2", 0)
        seen_own = False
        for f in summ["first_failures"]:
            if f.get("class") == own:
                if not seen_own:
                    f["adapter"] = ["obj", "replay", "--slots", str(nslots), "--ctx", "1"]
                    c.violation("objects diverge from the specification %s at step %s: %s" % (label, f["step"], f["msg"]), f)
                    seen_own = True
            else:
                lst = c.cov.setdefault("other_property_divergences", [])
                if len(lst) < 5:
                    lst.append("class=%s: %s" % (f.get("class"), f["msg"][:200]))
    for p in pieces:
        os.remove(p)
    if known and c.prop == "C07":
        for k in lib.known_findings("C07"):
            if k["site"] == "KidBorrowed/ret_tmp":
                c.known(k["id"], k["what"])
                break
        else:
            c.violation("context count explained only by the borrowed-child leak, which is not a listed finding", {"behaviours_with_leak": known})
    return tb, ts, known


def obj_traces(c, rt, jsonl, nslots):
    wd = workdir(c.prop.lower())
    out = os.path.join(wd, "obj_trace.ndjson")
    rc, summ, o = lib.run_adapter([rt, "obj", "trace", jsonl, out, "--slots", str(nslots), "--ctx", "1"], timeout=1500)
    if rc != 0 or summ is None:
        if c.prop == "C06":
            c.violation("trace driver crashed rc=%s while driving the real objects" % rc, {"jsonl": jsonl})
        return 0
    nev = 0
    # behaviours that cannot be affected by the listed finding: the ideal specification must accept them
    r = run_tlc("Trace_CGlueObj", "Trace_CGlueObj.cfg", name="trace_obj_%s" % c.prop, workers=1, env={"TRACE": out},
                depth_first=True, timeout=1500)
    n = sum(1 for _ in open(out))
    if r.violation:
        c.violation("implementation trace rejected by the ideal CGlueObj specification: %s (TLC output %s)" % (r.violation, r.out),
                    None, replay_path=out)
    else:
        nev += n
        c.cov["traces_validated_against_impl"] += 1
        c.add_tlc("Trace_CGlueObj.cfg", r, exhaustive=False)
    kid = out + ".kid"
    nk = sum(1 for _ in open(kid))
    if nk and c.prop == "C07":
        r1 = run_tlc("Trace_CGlueObj", "Trace_CGlueObj.cfg", name="trace_objkid_%s" % c.prop, workers=1, env={"TRACE": kid},
                     depth_first=True, timeout=1500)
        if not r1.violation:
            nev += nk
            c.cov["traces_validated_against_impl"] += 1
        else:
            r2 = run_tlc("Trace_CGlueObj", "Trace_CGlueObj_dev.cfg", name="trace_objkid_dev_%s" % c.prop, workers=1,
                         env={"TRACE": kid}, depth_first=True, timeout=1500)
            if r2.violation:
                c.violation("implementation trace (borrowed children) rejected even with the listed deviation: %s" % r2.violation,
                            None, replay_path=kid)
            else:
                ks = [k for k in lib.known_findings("C07") if k["site"] == "KidBorrowed/ret_tmp"]
                if ks:
                    c.known(ks[0]["id"], ks[0]["what"])
                    nev += nk
                    c.cov["traces_validated_against_impl"] += 1
                    c.cov["trace_accepted_only_with_deviation"] = "borrowed_child_ctx_leak"
                else:
                    c.violation("trace accepted only with deviation borrowed_child_ctx_leak, which is not a listed finding", None, replay_path=kid)
    return nev


def run(c, tier):
    quick = tier == "quick"
    mc_cfg = "MC_CGlueObj_q.cfg" if quick else "MC_CGlueObj.cfg"
    lib.mc_step(c, "MC_CGlueObj", mc_cfg, workers=12 if quick else 16, timeout=3400, what="CGlueObj spec")
    if quick and c.prop in ("C06", "C08"):
        # the quick constants have one payload type, for which every cast succeeds (TLC -coverage: the failing
        # branches of CastBorrow/CastMove are never taken); the cast configuration has a second type and the
        # cast-related actions only, so CastIff and the release on a failed cast are exercised on every change too
        lib.mc_step(c, "MC_CGlueObj", "MC_CGlueObj_cast.cfg", workers=12, timeout=1800, what="CGlueObj spec (failing casts)")
    c.cov["invariants_of_this_property"] = INVS[c.prop]
    if c.prop == "C07":
        d = run_tlc("MC_CGlueObj", "MC_CGlueObj_dev.cfg", workers=4, timeout=600)
        if not d.violation:
            raise lib.ToolError("deviation borrowed_child_ctx_leak does not violate NoCtxLeak: spec is vacuous")
        c.cov["deviation_witness"] = "MC_CGlueObj_dev.cfg: " + d.violation
    rt = os.path.join(cargo_build("rt"), "rt")
    j1, n1 = lib.gen_step(c, "Gen_CGlueObj", "Gen_CGlueObj_d2.cfg", "gen_obj_d2")
    b1, s1, k1 = obj_replay(c, rt, j1, 2, 4, "(all behaviours of depth 2)")
    num = 150 if quick else 3000   # behaviours = 8 x num (4 seeds x num/2 x 4 workers), one per simulated trace
    j2, n2 = lib.gen_step(c, "Gen_CGlueObj", "Gen_CGlueObj.cfg", "gen_obj_sim", simulate="num=%d" % num, workers=4, seed_=lib.seed())
    b2, s2, k2 = obj_replay(c, rt, j2, 3, 8, "(simulated behaviour of depth 12)")
    # impl -> spec on a slice of the simulated behaviours
    limit = 1500 if quick else 20000
    sl = j2 + ".slice"
    with open(j2) as f, open(sl, "w") as g:
        for i, l in enumerate(f):
            if i >= limit:
                break
            g.write(l)
    nev = obj_traces(c, rt, sl, 3)
    if c.prop in ("C01", "C06", "C07"):
        # Clone through objects AND groups (base, cast!-ed): a cast has to come first, which random behaviours rarely do.
        # Every behaviour of depth 5 over {NewOwned, CastMove, Upcast, Clone, Drop}; those that clone are replayed.
        j4, n4all = lib.gen_step(c, "Gen_CGlueObj", "Gen_CGlueObj_clone.cfg", "gen_obj_clone")
        j4f = j4 + ".clones"
        n4 = 0
        with open(j4) as f, open(j4f, "w") as g:
            for l in f:
                if '"op":"Clone"' in l:
                    g.write(l)
                    n4 += 1
        os.remove(j4)
        b4, s4, k4 = obj_replay(c, rt, j4f, 2, 4, "(clone after cast scenarios)")
        b2 += b4; s2 += s4; n2 += n4
    if c.prop == "C07":
        # by-value calls on objects holding the last context reference, observed through an interposed
        # vtable slot: the context's destructor event must come after the callee has returned
        j3, n3 = lib.gen_step(c, "Gen_CGlueObj", "Gen_CGlueObj_fine.cfg", "gen_obj_fine")
        b3, s3, k3 = obj_replay(c, rt, j3, 2, 2, "(by-value call scenarios)")
        nev += obj_traces(c, rt, j3, 3)
        b2 += b3; s2 += s3; n2 += n3
    c.assumptions += ["reference trait family of harness/objfam (6 payload types, traits Ra/Rb/Ma/Ob/Kid/Clone, group G); arithmetic modulo 61",
                      "registers of payloads created inside the library (clones, children) are observed through later calls only",
                      "context count = Arc::strong_count seen through a Weak held by the adapter"]
    return {"behaviours_replayed": b1 + b2, "replay_steps": s1 + s2, "trace_events_validated": nev,
            "behaviours_showing_known_F2": k1 + k2, "exhaustive": True, "evaluations": b1 + b2, "distinct_nontrivial": n1 + n2,
            "rule": "every behaviour of depth 2 over the full action alphabet (6 payload types x container kinds x objects/groups x contexts) + TLC -simulate behaviours of depth 12 over 3 handle slots; divergences are routed to the property whose clause they falsify"}
