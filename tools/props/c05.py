"""C05 — objects work across separately compiled modules and compiler versions.
The behaviours of spec/CGlueObj.tla and spec/CVec.tla (and arc scripts) are replayed with every value
created inside a plugin (cdylib, own global allocator) that was built by a separate cargo invocation
with another toolchain / optimisation level / repr(Rust) layout seed than the host that uses,
clones, casts, consumes and destroys them."""
import json, os, subprocess
import lib
from lib import Check, workdir

PROP = "C05"

VARIANTS = {
    "stable-debug": (None, False, ""),
    "stable-release": (None, True, ""),
    "nightly-release-rand7": ("nightly", True, "-Zrandomize-layout -Zlayout-seed=7"),
    "nightly-debug-rand3": ("nightly", False, "-Zrandomize-layout -Zlayout-seed=3"),
    "1.98.1-release": ("1.98.1", True, ""),
    "nightly-2026-08-21-release-rand11": ("nightly-2026-08-21", True, "-Zrandomize-layout -Zlayout-seed=11"),
}
QUICK_PAIRS = [("stable-debug", "nightly-release-rand7"), ("nightly-release-rand7", "stable-debug")]
THOROUGH_PAIRS = QUICK_PAIRS + [("stable-release", "nightly-debug-rand3"), ("nightly-debug-rand3", "1.98.1-release"),
                                ("1.98.1-release", "nightly-2026-08-21-release-rand11"), ("nightly-2026-08-21-release-rand11", "stable-release"),
                                ("stable-debug", "stable-release"), ("stable-release", "stable-debug")]


def build(variant, pkg):
    tc, release, flags = VARIANTS[variant]
    td = os.path.join(lib.HARNESS, "target", "xm_" + variant)
    cmd = ["cargo"] + (["+" + tc] if tc else []) + ["build", "--offline", "-p", pkg, "--target-dir", td] + (["--release"] if release else [])
    env = lib.cargo_env({"XP_BUILD_INFO": variant})
    if flags:
        env["RUSTFLAGS"] = flags
    p = subprocess.run(cmd, cwd=lib.HARNESS, env=env, capture_output=True, text=True, timeout=3000)
    if p.returncode != 0:
        raise lib.ToolError("cannot build %s as %s:\n%s" % (pkg, variant, p.stderr[-2500:]))
    d = os.path.join(td, "release" if release else "debug")
    return os.path.join(d, "libxplugin.so" if pkg == "xplugin" else "rt")


def validate_alloc(c, path, label, what):
    """impl -> spec: the merged allocator log of host and plugin must be a behaviour of spec/Modules.tla (every free
    reaches the allocator that owns the block, with the allocated size; both modules balanced at every quiescent marker)"""
    if not os.path.exists(path):
        raise lib.ToolError("no allocator trace written: " + path)
    # only whole lines are events (a log that was cut short by a crash elsewhere must not become a tool error)
    raw = open(path).read()
    if raw and not raw.endswith("\n"):
        raw = raw[:raw.rfind("\n") + 1]
        open(path, "w").write(raw)
    nev = sum(1 for _ in open(path))
    r = lib.run_tlc("Trace_Modules", "Trace_Modules.cfg", name="alloc_%s" % os.path.basename(path), workers=1, env={"TRACE": path}, depth_first=True, timeout=1200)
    if r.violation or r.distinct < nev + 1:
        evs = open(path).read().splitlines()
        bad = evs[r.depth - 1] if 0 < r.depth <= len(evs) else ""
        keep = os.path.join(lib.workdir("c05"), "rejected_" + os.path.basename(path))
        os.replace(path, keep)
        c.violation("allocator log of %s %s rejected by spec/Modules.tla at event %d: %s [%s]" % (what, label, r.depth, bad[:300], r.violation), None, replay_path=keep)
        return 0
    c.cov["traces_validated_against_impl"] += 1
    c.add_tlc("Trace_Modules.cfg(%s)" % what, r, exhaustive=False)
    os.remove(path)
    return nev


def obj_replay(c, rt, plugin, jsonl, nslots, label, parts=4):
    pieces = lib.split_file(jsonl, parts, jsonl + ".xpart")
    cmds = [[rt, "obj", "replay", p, "--slots", str(nslots), "--ctx", "1", "--plugin", plugin, "--alloc-trace", p + ".alloc.ndjson"] for p in pieces]
    tb = ts = known = 0
    for (rc, summ, out), p in zip(lib.run_parallel(cmds, timeout=3000), pieces):
        if rc == 2 or rc == 124:
            raise lib.ToolError("adapter reported a tool error / timed out (rc=%s)" % rc)
        if rc != 0 or summ is None:
            c.violation("using plugin-created objects crashed the host (rc=%s) %s" % (rc, label), {"file": p, "label": label})
            # the allocator log of a crashed child ends wherever it died (possibly in the middle of a line): not a trace
            if os.path.exists(p + ".alloc.ndjson"):
                os.remove(p + ".alloc.ndjson")
            continue
        tb += summ["behaviours"]
        ts += summ["steps"]
        known += summ["extra"].get("known_F2", 0)
        for f in summ["first_failures"][:1]:
            f["label"] = label
            c.violation("across modules %s, step %s: %s" % (label, f["step"], f["msg"]), f)
    nal = 0
    for p in pieces:
        if os.path.exists(p + ".alloc.ndjson"):
            nal += validate_alloc(c, p + ".alloc.ndjson", label, "object behaviours")
        os.remove(p)
    c.cov["alloc_events_validated"] = c.cov.get("alloc_events_validated", 0) + nal
    return tb, ts, known


def run(tier):
    c = Check(PROP, tier)
    quick = tier == "quick"
    pairs = QUICK_PAIRS if quick else THOROUGH_PAIRS
    # the design is the one checked for C06/C07/C11: the same specifications, values created in another module
    lib.mc_step(c, "MC_CGlueObj", "MC_CGlueObj_q.cfg", workers=12, timeout=3400, what="CGlueObj spec")
    lib.mc_step(c, "MC_CGlueObj", "MC_CGlueObj_cast.cfg", workers=12, timeout=1800, what="CGlueObj spec (failing casts)")
    # memory ownership between modules: the design, and the deviation that must break it (guards against a vacuous spec)
    lib.mc_step(c, "MC_Modules", "MC_Modules.cfg", workers=4, timeout=600, what="Modules spec")
    d = lib.run_tlc("MC_Modules", "MC_Modules_dev.cfg", workers=2, timeout=300)
    if not d.violation:
        raise lib.ToolError("deviation foreign_free does not violate NoForeignFree: spec is vacuous")
    c.cov["deviation_witness"] = "MC_Modules_dev.cfg: " + d.violation
    j1, n1 = lib.gen_step(c, "Gen_CGlueObj", "Gen_CGlueObj_d2.cfg", "gen_obj_d2")
    j2, n2 = lib.gen_step(c, "Gen_CGlueObj", "Gen_CGlueObj.cfg", "gen_obj_sim", simulate="num=%d" % (20 if quick else 200), workers=4, seed_=lib.seed())
    # by-value calls on objects that hold the last context reference (the scenario set of C07): across modules the context
    # is what keeps the callee's code loaded; its release inside the callee window is observed by the host
    jf, nf = lib.gen_step(c, "Gen_CGlueObj", "Gen_CGlueObj_fine.cfg", "gen_obj_fine")
    jv, nv = lib.gen_step(c, "Gen_CVec", "Gen_CVec.cfg", "gen_cvec_x")
    limit = 4000 if quick else 40000
    sl = j2 + ".slice"
    with open(j2) as f, open(sl, "w") as g:
        for i, l in enumerate(f):
            if i >= limit:
                break
            g.write(l)
    tb = ts = 0
    built = {}
    labels = []
    for host, plug in pairs:
        for v, pkg in ((host, "rt"), (plug, "xplugin")):
            if (v, pkg) not in built:
                built[(v, pkg)] = build(v, pkg)
        rt, so = built[(host, "rt")], built[(plug, "xplugin")]
        label = "(host %s, plugin %s)" % (host, plug)
        labels.append(label)
        for jsonl, ns in ((j1, 2), (sl, 3), (jf, 2)):
            b, s, k = obj_replay(c, rt, so, jsonl, ns, label)
            tb += b
            ts += s
        b, s = lib.replay_step(c, rt, ["vec"], jv, ["--elem", "u64", "--plugin", so, "--alloc-trace", "{part}.alloc.ndjson"], parts=4, label=label,
                               what="CVec created in the plugin diverges from the specification")
        tb += b
        ts += s
        import glob
        for at in sorted(glob.glob(jv + ".part*.alloc.ndjson")):
            c.cov["alloc_events_validated"] = c.cov.get("alloc_events_validated", 0) + validate_alloc(c, at, label, "vector behaviours")
        xt = os.path.join(lib.workdir("c05"), "xmod_scripts.alloc.ndjson")
        rc, summ, out = lib.run_adapter([rt, "xmod", "trace", xt, "--plugin", so])
        if rc != 0:
            c.violation("runtime-type scripts crashed %s while recording the allocator log (rc=%s)" % (label, rc), {"label": label})
        else:
            c.cov["alloc_events_validated"] = c.cov.get("alloc_events_validated", 0) + validate_alloc(c, xt, label, "runtime-type scripts")
        rc, summ, out = lib.run_adapter([rt, "xmod", "misc", "--plugin", so])
        if rc != 0 or summ is None:
            c.violation("runtime-type scripts crashed %s (rc=%s)" % (label, rc), {"label": label})
        else:
            tb += summ["behaviours"]
            for f in summ["first_failures"][:2]:
                c.violation("runtime types across modules %s: %s" % (label, f["msg"]), f)
    c.cov["module_pairs"] = labels
    c.assumptions += ["same OS, architecture and libc; 'different compiler' = the installed toolchains (stable 1.95, nightly, nightly-2026-08-21, 1.98.1)",
                      "every value is created inside the plugin (its own ledger allocator); contexts are created by the host; frees by the wrong module show up as unknown_free anomalies in the other module's ledger, leaks as a non-returning live count",
                      "known finding F2 (borrowed-child context leak) is tolerated here exactly as in C07 and reported there"]
    c.finish({"behaviours_replayed": tb, "replay_steps": ts, "exhaustive": False, "evaluations": tb, "distinct_nontrivial": n1 + min(n2, limit) + nv,
              "rule": "per module pair: all CGlueObj behaviours of depth 2, a slice of simulated behaviours of depth 12, all Gen_CVec behaviours (u64), arc clone/drop-order scripts, CVec/CSliceBox/CBox of strings made in one module and destroyed in the other, callbacks and iterators in every creator/user combination"})


def replay(path):
    run("quick")
