"""The complete n<=4 cast matrix of C08 (spec/CastMatrix.tla -> generated crate -> verdict per cell)."""
import json, os, subprocess, sys
import lib
from lib import run_tlc, workdir

HERE = os.path.dirname(os.path.dirname(os.path.dirname(os.path.abspath(__file__))))
TAG = {"Oa": 2000, "OB": 3000, "GenU8": 4000, "GenU64": 5000}


def run(c, tier):
    wd = workdir("c08_matrix")
    out = os.path.join(wd, "castm.out")
    r = run_tlc("CastMatrix", "CastMatrix.cfg", workers=1, timeout=300, out_path=out)
    one = os.path.join(wd, "castm.json")
    if lib.extract_replays(out, one) != 1:
        raise lib.ToolError("CastMatrix.tla printed nothing")
    c.add_tlc("CastMatrix.cfg", r)
    data = json.loads(open(one).read())
    cells = sorted(data["cells"] + data.get("fwdcells", []), key=lambda x: json.dumps(x, sort_keys=True))
    jl = os.path.join(wd, "castm.jsonl")
    with open(jl, "w") as f:
        for k, cell in enumerate(cells):
            cell["k"] = k
            f.write(json.dumps(cell) + "\n")
    crate = os.path.join(wd, "crate")
    p = subprocess.run([sys.executable, os.path.join(HERE, "tools", "render_casts.py"), jl, crate], capture_output=True, text=True)
    if p.returncode != 0:
        raise lib.ToolError("renderer failed: " + p.stderr[-800:])
    open(os.path.join(crate, "Cargo.lock"), "w").write(open(os.path.join(lib.HARNESS, "Cargo.lock.repo")).read())
    td = os.path.join(lib.HARNESS, "target", "castmatrix")
    pb = subprocess.run(["cargo", "build", "--offline", "--target-dir", td], cwd=crate, capture_output=True, text=True, env=lib.cargo_env())
    if pb.returncode != 0:
        import re
        missing = sorted(set(re.findall(r"no method named `((?:check|as_ref|as_mut|cast|into)_impl_\w+)`", pb.stderr)))
        if missing:
            # the cast macros name a conversion function that the group never generated: the request cannot even be written
            # down, although every requested trait may be enabled
            c.violation("the cast macros expand to conversion functions the group does not have (%s): requests for these trait sets cannot be expressed" % ", ".join(missing[:6]),
                        {"missing": missing})
            return {"cast_matrix": "does not compile: %d conversion functions named by the macros do not exist" % len(missing)}
        raise lib.ToolError("cast-matrix crate does not compile against /repo:\n" + pb.stderr[-2500:])
    pr = subprocess.run([os.path.join(td, "debug", "castmatrix")], capture_output=True, text=True, timeout=600)
    if pr.returncode != 0:
        c.violation("cast-matrix program crashed (rc=%s)" % pr.returncode, {"stderr": pr.stderr[-500:]})
        return {"cast_matrix": "crashed"}
    res = json.loads(pr.stdout.strip().splitlines()[-1])
    nviol = 0
    for cell, r in zip(cells, res):
        msg = None
        if r["ok"] != cell["ok"]:
            msg = "%s for %s on a %s enabling %s (%s container) %s, but the requested traits are %s" % (
                cell["op"], cell["req"], ("forward view of a type (forward list; owned list %s)" % cell["owned"]) if cell.get("via") == "fwd" else "type", cell["enabled"], cell["kind"], "succeeded" if r["ok"] else "was refused",
                "not all present" if not cell["ok"] else "all present")
        elif cell["ok"] and cell["op"] != "check":
            want = [1000 + r["id"]] + [TAG[t] + r["id"] for t in cell["req"]]
            if r["tags"] != want:
                msg = "after %s for %s the calls reached %s, expected %s (same instance, mandatory + requested traits)" % (cell["op"], cell["req"], r["tags"], want)
        if msg is None and not r["still"]:
            msg = "after cast + upcast not every originally enabled trait is still present (%s)" % cell["enabled"]
        if msg is None and cell["kind"] == "box" and cell.get("via") != "fwd":
            if r["drops_end"] != 1 or (cell["op"] in ("cast", "into") and not cell["ok"] and r["drops_after_op"] != 1) \
               or (cell["op"] in ("check", "as_ref", "as_mut") and r["drops_after_op"] != 0):
                c.cov.setdefault("other_property_divergences", []).append("C06: drop counts %s in cell %s" % (r, cell))
        if msg:
            nviol += 1
            if nviol <= 3:
                c.violation(msg, {"cell": cell, "observed": r})
    c.sample({"cell": cells[-1], "observed": res[-1]})
    return {"cast_matrix": "%d cells (n=0..4 optional traits incl. two aliased instantiations of a generic trait, all enabled sets, all requested subsets, 5 operations, Box/Mut/Ref) enumerated by CastMatrix.tla and executed" % len(cells),
            "cast_cells": len(cells), "cast_cells_expected_success": sum(1 for x in cells if x["ok"])}
