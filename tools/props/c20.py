"""C20 — runtime layout validation accepts identical interfaces and rejects changed ones.  spec/LayoutCheck.tla."""
import json, os, subprocess, sys
import lib
from lib import Check, run_tlc, workdir

PROP = "C20"
HERE = os.path.dirname(os.path.dirname(os.path.dirname(os.path.abspath(__file__))))


def run(tier):
    c = Check(PROP, tier)
    wd = workdir("c20")
    out = os.path.join(wd, "lchk.out")
    r = run_tlc("LayoutCheck", "LayoutCheck.cfg", workers=1, timeout=300, out_path=out)
    jl = os.path.join(wd, "lchk.jsonl")
    if lib.extract_replays(out, jl) != 1:
        raise lib.ToolError("LayoutCheck.tla printed nothing")
    c.add_tlc("LayoutCheck.cfg (ASSUMEs: AndLaws, Valid exactly for interface-preserving edits)", r)
    pred = json.loads(open(jl).read())
    crate = os.path.join(wd, "crate")
    p = subprocess.run([sys.executable, os.path.join(HERE, "tools", "render_layoutchk.py"), jl, crate], capture_output=True, text=True)
    if p.returncode != 0:
        raise lib.ToolError("renderer failed: " + p.stderr[-800:])
    open(os.path.join(crate, "Cargo.lock"), "w").write(open(os.path.join(lib.HARNESS, "Cargo.lock.repo")).read())
    td = os.path.join(lib.HARNESS, "target", "layoutchk")
    pb = subprocess.run(["cargo", "build", "--offline", "--target-dir", td], cwd=crate, capture_output=True, text=True, env=lib.cargo_env())
    if pb.returncode != 0:
        raise lib.ToolError("layout-check crate does not compile against /repo with layout_checks:\n" + pb.stderr[-2500:])
    rc, _, outp = lib.run_adapter([os.path.join(td, "debug", "layoutchk")])
    if rc != 0:
        raise lib.ToolError("layout-check crate failed to run (rc=%s)" % rc)
    got = json.loads(outp.strip().splitlines()[-1])
    exp_t = {t["name"]: t for t in pred["traits"]}
    exp_g = {g["name"]: g for g in pred["groups"]}
    exp_and = {(a["a"], a["b"]): a["r"] for a in pred["ands"]}
    exp_pred = {x["v"]: x for x in pred.get("preds", [])}
    n = 0
    for x in got:
        n += 1
        if x["kind"] in ("trait", "group"):
            e = (exp_t if x["kind"] == "trait" else exp_g)[x["name"]]
            for direction in ("got", "rev"):
                via = {"return": " (root reaches the trait through a method returning an object of it)", "check_fn": " (through VerifyLayout::check)"}.get(x.get("via"), "")
                if e["expect"] == "Valid" and x[direction] != "Valid":
                    c.violation("%s edit '%s'%s keeps the C-visible interface but comparing the layouts reports %s" % (x["kind"], x["name"], via, x[direction]),
                                {"edit": e, "observed": x})
                if e["expect"] == "Invalid" and x[direction] == "Valid":
                    c.violation("%s edit '%s'%s changes the C-visible interface but comparing the layouts reports Valid" % (x["kind"], x["name"], via),
                                {"edit": e, "observed": x})
                if e["expect"] == "Invalid" and x[direction] == "Unknown":
                    c.drift("edit '%s': reported Unknown where the model predicts Invalid (not Valid either way)" % x["name"])
        elif x["kind"] == "pred":
            e = exp_pred[x["v"]]
            if x["strict"] != e["strict"] or x["relaxed"] != e["relaxed"]:
                c.violation("verdict %s: is_valid_strict=%s is_valid_relaxed=%s, expected %s / %s" % (x["v"], x["strict"], x["relaxed"], e["strict"], e["relaxed"]), {"observed": x})
        elif x["kind"] == "none":
            if x["got"] != "Unknown":
                c.violation("a missing layout description yields %s instead of Unknown (%s)" % (x["got"], x["name"]), {"observed": x})
        else:
            want = exp_and[(x["a"], x["b"])]
            if x["got"] != want:
                c.violation("VerifyLayout::and(%s, %s) = %s, expected %s" % (x["a"], x["b"], x["got"], want), {"observed": x})
    c.sample(got[0])
    c.sample(pred["traits"][0])
    c.assumptions += ["the comparison itself is abi_stable's check_layout_compatibility, called through cglue's compare_layouts",
                      "a pure parameter rename is not treated as an identical interface and nothing is claimed about it"]
    c.finish({"evaluations": n, "distinct_nontrivial": len(got), "exhaustive": True,
              "rule": "every single-edit variant of the base trait and group enumerated by LayoutCheck.tla, both comparison directions, missing descriptions, and all 9 verdict pairs"})


def replay(path):
    run("quick")
