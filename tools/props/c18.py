"""C18 — post-processed headers compile, are reproducible, keep foreign declarations.  spec/Bindgen.tla."""
import lib
from lib import Check
from props import bindgen

PROP = "C18"


def run(tier):
    c = Check(PROP, tier)
    cov = bindgen.run_c18(c, tier)
    c.assumptions += ["cbindgen is not installed: headers are synthetic (tools/cbgen.py, tools/cbgen_cpp.py)", "C++ space excludes the configuration 'default container without default context' (see C17)"]
    c.finish(cov)


def replay(path):
    run("quick")
