"""C09 — type erasure never makes an object more thread-safe than its contents.  spec/SendSync.tla."""
import json, os
import lib
from lib import Check, cargo_build

PROP = "C09"


class _Tag:
    """adds the library configuration to every violation message of one evaluation"""
    def __init__(self, c, cfg):
        self._c, self._cfg = c, cfg
    def violation(self, msg, *a, **k):
        return self._c.violation(msg + self._cfg, *a, **k)
    def __getattr__(self, n):
        return getattr(self._c, n)


def evaluate(c, cells, predicted, known, seen_sites, beyond, cfg, n_eval, n_viol_known):
    c = _Tag(c, cfg)
    # the property speaks about the *instance handle* the object was built from: its markers are the
    # reference for objects, groups and Fwd wrappers built on it
    inst_base = {(x["i"], x["p"]): x["base"] for x in cells if x["w"] == "inst" and x["exists"]}
    for cell in cells:
        key = (cell["w"], cell["i"], cell["p"])
        if not cell["exists"]:
            continue
        if cell["w"] == "mcall":
            # `handle.into_opaque()` as a method call: whatever it resolves to, a by-value result is the opaque form of
            # that handle.  (A `&c_void` result is the `&T` rule applied to the handle itself: the ref row speaks for it.)
            if not cell["result"].startswith("&"):
                hb = inst_base[(cell["i"], cell["p"])]
                for m in ("Send", "Sync"):
                    n_eval += 1
                    if cell["opaque"][m] and not hb[m]:
                        site = "%s:%s:%s" % (cell["i"], cell["p"], m)
                        if site in known:
                            if site not in seen_sites:
                                c.known(known[site]["id"], known[site]["what"])
                                seen_sites.add(site)
                        else:
                            c.violation("`.into_opaque()` called on a typed %s over a %s payload yields %s, which is %s although the handle is not" % (cell["i"], cell["p"], cell["result"], m), {"cell": cell})
            continue
        if cell["w"] == "view":
            # slices, vectors, option/result/tuple, callbacks, iterators: not objects, groups or smart pointers - the
            # property says nothing about them; what the probe sees is kept as information
            for m in ("Send", "Sync"):
                if cell["base"][m] and not cell["std"][m]:
                    beyond.append("%s over a %s payload is %s, its std counterpart is not" % (cell["i"], cell["p"], m))
            continue
        p = predicted.get(key)
        if p is None:
            c.drift("probe cell %s has no prediction" % (key,))
        for m in ("Send", "Sync"):
            n_eval += 1
            # the verdict is the property's own predicate on the observed booleans
            if cell["conv"] and cell["opaque"][m] and not inst_base[(cell["i"], cell["p"])][m]:
                site = "%s:%s:%s" % (cell["i"], cell["p"], m)
                if site in known:
                    if site not in seen_sites:
                        c.known(known[site]["id"], known[site]["what"])
                        seen_sites.add(site)
                    n_viol_known += 1
                else:
                    c.violation("opaque form of %s/%s over a %s payload is %s but the typed form is not" % (cell["w"], cell["i"], cell["p"], m),
                                {"cell": cell})
            # typed level: a typed object / group / Fwd built on a handle never has a marker the handle lacks
            if cell["w"] != "inst" and cell["base"][m] and not inst_base[(cell["i"], cell["p"])][m]:
                site = "typed:%s/%s:%s:%s" % (cell["w"], cell["i"], cell["p"], m)
                if site in known:
                    if site not in seen_sites:
                        c.known(known[site]["id"], known[site]["what"])
                        seen_sites.add(site)
                else:
                    c.violation("the typed %s over %s with a %s payload is %s although the instance handle it was built from is not" % (cell["w"], cell["i"], cell["p"], m), {"cell": cell})
            # binding: the observation should match what the spec's rule sets predict
            if p is not None:
                if cell["w"] == "inst" and cell["base"][m] and not p["base"][m]:
                    # the library's own smart pointer claims a marker that the handle it is built from (Box<T>, Box<[T]>,
                    # Arc<T>: SendSync!BaseHas) does not have: "a smart pointer can be sent ... only if the instance handle
                    # it was built from could be"
                    site = "typed:%s:%s:%s" % (cell["i"], cell["p"], m)
                    if site in known:
                        if site not in seen_sites:
                            c.known(known[site]["id"], known[site]["what"])
                            seen_sites.add(site)
                    else:
                        c.violation("the typed smart pointer %s over a %s payload is %s, but the handle it is built from is not (Rust's rule for its std counterpart)" % (cell["i"], cell["p"], m),
                                    {"cell": cell, "predicted_base": p["base"]})
                elif cell["w"] == "inst" and cell["base"][m] != p["base"][m]:
                    c.drift("typed %s/%s/%s %s: observed %s, SendSync!BaseHas predicts %s" % (cell["w"], cell["i"], cell["p"], m, cell["base"][m], p["base"][m]))
                if cell["conv"] != p["conv"]:
                    c.drift("convertibility of %s/%s/%s: observed %s, ImplRules predict %s" % (cell["w"], cell["i"], cell["p"], cell["conv"], p["conv"]))
                elif cell["conv"] and cell["opaque"][m] != p["opaque"][m]:
                    c.drift("opaque %s/%s/%s %s: observed %s, ImplRules predict %s" % (cell["w"], cell["i"], cell["p"], m, cell["opaque"][m], p["opaque"][m]))

    return n_eval, n_viol_known


CENSUS_HEAD = r"""
#![allow(dead_code, unused_imports)]
use cglue::arc::*;
use cglue::boxed::*;
use cglue::forward::*;
use cglue::trait_group::*;
use cglue::slice::*;
use cglue::vec::*;
use cglue::option::*;
use cglue::result::*;
use cglue::callback::*;
use cglue::iter::*;
use std::cell::Cell;
use std::marker::PhantomData;
use std::rc::Rc;
pub struct SS(pub u64);
pub struct SO(pub Cell<u64>);
pub struct YO(pub PhantomData<std::sync::MutexGuard<'static, ()>>, pub u64);
pub struct NN(pub Rc<u64>);
struct PS<T: ?Sized>(PhantomData<T>);
trait Fallback {
    const SEND: bool = false;
    const SYNC: bool = false;
    const OPQ: bool = false;
    const OSEND: bool = false;
    const OSYNC: bool = false;
}
impl<T: ?Sized> Fallback for PS<T> {}
impl<T: ?Sized + Send> PS<T> { const SEND: bool = true; }
impl<T: ?Sized + Sync> PS<T> { const SYNC: bool = true; }
impl<T: Opaquable> PS<T> { const OPQ: bool = true; }
struct PQS<T: ?Sized>(PhantomData<T>);
struct PQY<T: ?Sized>(PhantomData<T>);
impl<T: ?Sized> Fallback for PQS<T> {}
impl<T: ?Sized> Fallback for PQY<T> {}
impl<T: Opaquable> PQS<T> where T::OpaqueTarget: Send { const OSEND: bool = true; }
impl<T: Opaquable> PQY<T> where T::OpaqueTarget: Sync { const OSYNC: bool = true; }
"""


def census(c, rules_known):
    """every `impl Opaquable for X` of the library against SendSync!KnownRules; unknown single-parameter rules are probed"""
    import re, subprocess
    found = []
    for root, _, files in os.walk(os.path.join(lib.REPO, "cglue", "src")):
        if "/tests" in root:
            continue
        for f in files:
            if not f.endswith(".rs"):
                continue
            src = open(os.path.join(root, f)).read()
            for m in re.finditer(r"impl\s*(<[^{;]*?>)?\s*(?:[\w:]*::)?Opaquable\s+for\s+([^{;]+?)\s*(?:where\b[^{]*)?\{", src, re.S):
                gen, selfty = m.group(1) or "", " ".join(m.group(2).split())
                found.append((os.path.relpath(os.path.join(root, f), lib.REPO), gen, selfty))
    norm = lambda t: re.sub(r"\s+", "", re.sub(r"'\w+\s*,?\s*", "", t))
    unknown = [x for x in found if norm(x[2]) not in rules_known]
    c.cov["opaquable_rules_found"] = sorted({norm(x[2]) for x in found})
    missing = sorted(set(rules_known) - {norm(x[2]) for x in found})
    if missing:
        c.drift("SendSync!KnownRules lists conversion rules the library no longer has: %s" % missing)
    if not unknown:
        return
    body, labels = [], []
    for (f, gen, selfty) in unknown:
        params = [p.split(":")[0].strip() for p in re.sub(r"^<|>$", "", gen).split(",") if p.strip() and not p.strip().startswith("'")]
        if len(params) != 1:
            c.drift("conversion rule `impl%s Opaquable for %s` (%s) is not in SendSync!KnownRules and cannot be probed automatically" % (gen, selfty, f))
            continue
        for pc, pt in (("SendSync", "SS"), ("SendOnly", "SO"), ("SyncOnly", "YO"), ("Neither", "NN")):
            ty = re.sub(r"\b%s\b" % re.escape(params[0]), pt, re.sub(r"'\w+", "'static", selfty))
            labels.append((f, selfty, pc))
            body.append('    out.push(serde_json::json!({"rule": %s, "p": "%s", "base": {"Send": <PS<%s>>::SEND, "Sync": <PS<%s>>::SYNC}, "conv": <PS<%s>>::OPQ, '
                        '"opaque": {"Send": <PQS<%s>>::OSEND, "Sync": <PQY<%s>>::OSYNC}}));' % (json.dumps(selfty), pc, ty, ty, ty, ty, ty))
    if not body:
        return
    crate = os.path.join(lib.workdir("c09"), "census")
    os.makedirs(os.path.join(crate, "src"), exist_ok=True)
    open(os.path.join(crate, "src", "main.rs"), "w").write(CENSUS_HEAD + "fn main() {\n    let mut out: Vec<serde_json::Value> = vec![];\n" + "\n".join(body) + '\n    println!("{}", serde_json::Value::Array(out));\n}\n')
    open(os.path.join(crate, "Cargo.toml"), "w").write('[package]\nname = "census"\nversion = "0.0.0"\nedition = "2018"\n\n[workspace]\n\n[dependencies]\ncglue = { path = "%s/cglue" }\nserde_json = "1"\n' % lib.REPO)
    os.makedirs(os.path.join(crate, ".cargo"), exist_ok=True)
    open(os.path.join(crate, ".cargo", "config.toml"), "w").write("[net]\noffline = true\n")
    open(os.path.join(crate, "Cargo.lock"), "w").write(open(os.path.join(lib.HARNESS, "Cargo.lock")).read())
    td = os.path.join(lib.HARNESS, "target", "census")
    pb = subprocess.run(["cargo", "build", "--offline", "--target-dir", td], cwd=crate, capture_output=True, text=True, env=lib.cargo_env())
    if pb.returncode != 0:
        c.drift("conversion rules not in SendSync!KnownRules (%s) could not be probed: the probe does not build: %s" % ([u[2] for u in unknown], pb.stderr[-400:]))
        return
    rc, _, outp = lib.run_adapter([os.path.join(td, "debug", "census")])
    if rc != 0:
        c.drift("census probe failed to run")
        return
    for cell in json.loads(outp.strip().splitlines()[-1]):
        for m in ("Send", "Sync"):
            if cell["conv"] and cell["opaque"][m] and not cell["base"][m]:
                c.violation("a conversion rule that is not in the specification, `Opaquable for %s`: over a %s payload its opaque form is %s but the typed form is not" % (cell["rule"], cell["p"], m), {"cell": cell})
    c.cov["opaquable_rules_probed_beyond_the_specification"] = sorted({u[2] for u in unknown})


def run(tier):
    c = Check(PROP, tier)
    wd = lib.workdir("c09")
    out = os.path.join(wd, "sendsync.out")
    r = lib.run_tlc("SendSync", "SendSync.cfg", workers=1, timeout=300, out_path=out)
    jl = os.path.join(wd, "pred.jsonl")
    if lib.extract_replays(out, jl) != 1:
        raise lib.ToolError("SendSync.tla printed no matrix")
    pred = json.loads(open(jl).read())
    c.add_tlc("SendSync.cfg", r)
    predicted = {(x["w"], x["i"], x["p"]): x for x in pred["cells"]}
    census(c, set(pred["rules"]))
    bindir = cargo_build("probes", bins=["sendprobe"])
    rc, _, outp = lib.run_adapter([os.path.join(bindir, "sendprobe")])
    if rc != 0:
        raise lib.ToolError("send/sync probe failed to run")
    cells = json.loads(outp.strip().splitlines()[-1])
    known = {k["site"]: k for k in lib.known_findings(PROP)}
    n_eval = n_viol_known = 0
    seen_sites = set()
    beyond = []
    # the library in its other configuration (cglue without the `std` feature): the same probe, the same matrix
    import subprocess
    crate = os.path.join(lib.HARNESS, "probes_nostd")
    open(os.path.join(crate, "Cargo.lock"), "w").write(open(os.path.join(lib.HARNESS, "Cargo.lock.repo")).read())
    td = os.path.join(lib.HARNESS, "target", "probes_nostd")
    pb = subprocess.run(["cargo", "build", "--offline", "--target-dir", td], cwd=crate, capture_output=True, text=True, env=lib.cargo_env())
    if pb.returncode != 0:
        raise lib.ToolError("the probe does not build against cglue without the std feature:\n" + pb.stderr[-1500:])
    rc2, _, outp2 = lib.run_adapter([os.path.join(td, "debug", "sendprobe_nostd")])
    if rc2 != 0:
        raise lib.ToolError("send/sync probe (no std) failed to run")
    cells_nostd = json.loads(outp2.strip().splitlines()[-1])
    for cfg_label, cells in (("", cells), (" [cglue built without the std feature]", cells_nostd)):
        n_eval, n_viol_known = evaluate(c, cells, predicted, known, seen_sites, beyond, cfg_label, n_eval, n_viol_known)
    c.cov["beyond_the_property_information_only"] = beyond
    cells = [x for x in cells if x["w"] not in ("view", "mcall")]
    c.sample(cells[0])
    c.sample([c2 for c2 in cells if c2["exists"] and c2["conv"] and c2["opaque"]["Send"] and not c2["base"]["Send"]][:1])
    c.assumptions += ["payload classes: u64 (Send+Sync), Cell<u64> (Send only), PhantomData<MutexGuard> (Sync only), Rc<u64> (neither)",
                      "auto-trait facts are read with the inherent-const-over-blanket-trait-const probe in one build of /repo's current tree"]
    c.finish({"evaluations": n_eval, "distinct_nontrivial": len([x for x in cells if x["exists"]]), "exhaustive": True,
              "cells_violating_and_listed": n_viol_known,
              "rule": "complete matrix: {inst, Fwd, object, group} x {&T, &mut T, CBox, CSliceBox, CArc, CArcSome} x 4 payload classes x {Send, Sync}; a cell is non-trivial when the type exists"})


def replay(path):
    run("quick")
