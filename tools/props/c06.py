"""C06 on spec/CGlueObj.tla (see objcommon.py)."""
import os
import lib
from lib import Check, cargo_build
from props import objcommon

PROP = "C06"


def run(tier):
    c = Check(PROP, tier)
    cov = objcommon.run(c, tier)
    # CBox / CSliceBox / typed objects: dropped directly, after into_opaque, unwrapped with into_inner;
    # heap-owning and zero-sized payloads, empty and non-empty boxed slices (spec/Boxes.tla)
    rt = os.path.join(cargo_build("rt"), "rt")
    lib.mc_step(c, "MC_Boxes", "MC_Boxes.cfg", workers=8, timeout=1200, what="Boxes spec")
    j, n = lib.gen_step(c, "Gen_Boxes", "Gen_Boxes.cfg" if tier == "quick" else "Gen_Boxes_thorough.cfg", "gen_boxes")
    b, s = lib.replay_step(c, rt, ["boxes"], j, parts=4, what="CBox/CSliceBox lifecycle diverges from the specification")
    cov["behaviours_replayed"] += b
    cov["replay_steps"] += s
    cov["distinct_nontrivial"] += n
    # impl -> spec: long random executions of the same types (three slots, foreign-made and lent boxes included) validated by TLC
    nfiles, events = (2, 3000) if tier == "quick" else (8, 20000)
    cov["trace_events_validated"] = cov.get("trace_events_validated", 0) + lib.trace_step(c, rt, ["boxes"], "Trace_Boxes", "Trace_Boxes.cfg", nfiles, events,
                                                                                           what="execution of CBox/CSliceBox/typed objects rejected by Boxes.tla")
    cov["boxes"] = "%d behaviours of Boxes.tla (CBox from T/Box<T>/(T,NoContext), CSliceBox of length 0/1/3, typed objects; heavy, zero-sized and plain-data payloads; boxes made by foreign code (owned / lent); into_opaque, into_inner, DerefMut writes, drop in any form)" % b
    c.finish(cov)


def replay(path):
    c = Check(PROP, "quick")
    rt = os.path.join(cargo_build("rt"), "rt")
    lib.replay_one(c, rt, ["obj"], path, "Trace_CGlueObj", "Trace_CGlueObj.cfg")
