"""C12 — slice views and C option/result/tuple types are lossless.  spec/Views.tla, spec/Utf8.tla."""
import os
import lib
from lib import Check, cargo_build

PROP = "C12"


def run(tier):
    c = Check(PROP, tier)
    quick = tier == "quick"
    sfx = "" if quick else "_thorough"
    rt = os.path.join(cargo_build("rt"), "rt")
    tb = ts = nn = 0
    # the design: slice and cell operations interleaved, every reachable state (the generator configurations keep them apart)
    lib.mc_step(c, "MC_Views", "MC_Views.cfg", workers=4, timeout=900, what="Views spec")
    # slices: all conversion/write chains, four element types
    j, n = lib.gen_step(c, "Gen_Views", "Gen_Views_slices%s.cfg" % sfx, "gen_views_slices")
    nn += n
    for e in ["u8", "u64", "zst", "p3"]:
        b, s = lib.replay_step(c, rt, ["views"], j, ["--elem", e], parts=4, label="(elem=%s)" % e, what="slice view is not lossless")
        tb += b
        ts += s
    # option / result / tuples with droppable payloads
    j, n = lib.gen_step(c, "Gen_Views", "Gen_Views_cells%s.cfg" % sfx, "gen_views_cells")
    nn += n
    b, s = lib.replay_step(c, rt, ["views"], j, parts=4, what="COption/CResult/CTup conversion is not lossless")
    tb += b
    ts += s
    # UTF-8 decision: complete enumeration over the boundary alphabet
    j, n = lib.gen_step(c, "Gen_Utf8", "Gen_Utf8%s.cfg" % sfx, "gen_utf8")
    nn += n
    b, s = lib.replay_step(c, rt, ["views"], j, parts=4, mode="utf8", what="conversion to &str")
    tb += b
    ts += s
    c.cov["utf8_strings"] = n
    # impl -> spec: long random executions, slices and cells interleaved (u64 elements, buffers up to 6), validated by TLC
    nfiles, events = (2, 3000) if quick else (8, 20000)
    c.cov["trace_events_validated"] = lib.trace_step(c, rt, ["views"], "Trace_Views", "Trace_Views.cfg", nfiles, events,
                                                     what="execution of slice views / option / result / tuple cells rejected by Views.tla")
    serde_info(c)
    c.assumptions += ["addresses are compared as element offsets inside the caller's buffer; zero-sized elements have neither address nor contents, only lengths are compared for them",
                      "UTF-8 oracle: spec/Utf8.tla (Unicode Table 3-7 byte classes), self-checked by an ASSUME on boundary cases"]
    c.finish({"behaviours_replayed": tb, "replay_steps": ts, "exhaustive": True, "evaluations": tb, "distinct_nontrivial": nn,
              "rule": "every conversion/write chain of the stated depth over buffers of length 0/1/3 and all sub-slices x {u8,u64,ZST,3-byte struct}; every variant chain for Option/Result/tuples of arity 1-4; every byte string of length <= MaxLen over an alphabet hitting every UTF-8 class boundary"})


def serde_info(c):
    """Beyond the property (information only): spec/Serde.tla - the optional serde support of COption / CVec / CTupN /
    ReprCString has the JSON image of the std type it stands for and reads it back.  Never an alarm."""
    import json, subprocess
    try:
        wd = lib.workdir("c12")
        out = os.path.join(wd, "serde.out")
        lib.run_tlc("Serde", "Serde.cfg", name="serde_cases", workers=1, timeout=300, out_path=out)
        cases = os.path.join(wd, "serde_cases.json")
        if lib.extract_replays(out, cases) != 1:
            c.cov["beyond_the_property_information_only_serde"] = "Serde.tla printed no cases"
            return
        crate = os.path.join(lib.HARNESS, "serdechk")
        open(os.path.join(crate, "Cargo.lock"), "w").write(open(os.path.join(lib.HARNESS, "Cargo.lock.repo")).read())
        td = os.path.join(lib.HARNESS, "target", "serdechk")
        pb = subprocess.run(["cargo", "build", "--offline", "--target-dir", td], cwd=crate, capture_output=True, text=True, env=lib.cargo_env())
        if pb.returncode != 0:
            c.cov["beyond_the_property_information_only_serde"] = "the serde binding crate does not build against /repo: " + pb.stderr[-300:]
            return
        pr = subprocess.run([os.path.join(td, "debug", "serdechk"), cases], capture_output=True, text=True, timeout=300)
        if pr.returncode != 0:
            c.cov["beyond_the_property_information_only_serde"] = "serde binding crashed (rc=%s)" % pr.returncode
            return
        r = json.loads(pr.stdout.strip().splitlines()[-1])
        c.cov["beyond_the_property_information_only_serde"] = {"cases": r["cases"], "disagreements_with_Serde_tla": r["failures"], "first": r["first_failures"][:3]}
    except Exception as e:  # information only: nothing here may turn into an alarm or a tool error
        c.cov["beyond_the_property_information_only_serde"] = "not evaluated: %s" % e


def replay(path):
    c = Check(PROP, "quick")
    rt = os.path.join(cargo_build("rt"), "rt")
    lib.replay_one(c, rt, ["views"], path)
