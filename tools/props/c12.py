"""C12 — slice views and C option/result/tuple types are lossless.  spec/Views.tla, spec/Utf8.tla."""
import os
import lib
from lib import Check, cargo_build

PROP = "C12"


def run(tier):
    c = Check(PROP, tier)
    quick = tier == "quick"
    sfx = "" if quick else "_thorough"
    rt = os.path.join(cargo_build("rt"), "rt")
    tb = ts = nn = 0
    # slices: all conversion/write chains, four element types
    j, n = lib.gen_step(c, "Gen_Views", "Gen_Views_slices%s.cfg" % sfx, "gen_views_slices")
    nn += n
    for e in ["u8", "u64", "zst", "p3"]:
        b, s = lib.replay_step(c, rt, ["views"], j, ["--elem", e], parts=4, label="(elem=%s)" % e, what="slice view is not lossless")
        tb += b
        ts += s
    # option / result / tuples with droppable payloads
    j, n = lib.gen_step(c, "Gen_Views", "Gen_Views_cells%s.cfg" % sfx, "gen_views_cells")
    nn += n
    b, s = lib.replay_step(c, rt, ["views"], j, parts=4, what="COption/CResult/CTup conversion is not lossless")
    tb += b
    ts += s
    # UTF-8 decision: complete enumeration over the boundary alphabet
    j, n = lib.gen_step(c, "Gen_Utf8", "Gen_Utf8%s.cfg" % sfx, "gen_utf8")
    nn += n
    b, s = lib.replay_step(c, rt, ["views"], j, parts=4, mode="utf8", what="conversion to &str")
    tb += b
    ts += s
    c.cov["utf8_strings"] = n
    c.assumptions += ["addresses are compared as element offsets inside the caller's buffer; zero-sized elements have neither address nor contents, only lengths are compared for them",
                      "UTF-8 oracle: spec/Utf8.tla (Unicode Table 3-7 byte classes), self-checked by an ASSUME on boundary cases"]
    c.finish({"behaviours_replayed": tb, "replay_steps": ts, "exhaustive": True, "evaluations": tb, "distinct_nontrivial": nn,
              "rule": "every conversion/write chain of the stated depth over buffers of length 0/1/3 and all sub-slices x {u8,u64,ZST,3-byte struct}; every variant chain for Option/Result/tuples of arity 1-4; every byte string of length <= MaxLen over an alphabet hitting every UTF-8 class boundary"})


def replay(path):
    c = Check(PROP, "quick")
    rt = os.path.join(cargo_build("rt"), "rt")
    lib.replay_one(c, rt, ["views"], path)
