"""C17 — generated C/C++ wrappers forward to the right slot with the right arguments.  spec/Bindgen.tla."""
import lib
from lib import Check
from props import bindgen

PROP = "C17"


def run(tier):
    c = Check(PROP, tier)
    cov = bindgen.run_c17(c, tier)
    c.assumptions += ["cbindgen is not installed: headers are synthetic, rendered by tools/cbgen.py in cbindgen's output shape as reconstructed from cglue-bindgen's regular expressions and the pre-generated example header",
                      "C++ headers are rendered by tools/cbgen_cpp.py (templates; shape reconstructed from cpp.rs and examples/pregen-headers/bindings.hpp); the configuration 'default container without default context' is outside the C++ space (the tool then names `NoContext`, whose declaration by cbindgen cannot be established offline)",
                      "the callee side is a mock: a consuming slot releases the instance and the context it was handed, as the Rust glue does"]
    c.finish(cov)


def replay(path):
    run("quick")
