"""C04 — generated C layout is a fixed, order-preserving function of the definitions.  spec/Layout.tla."""
import json, os, subprocess, sys, hashlib
import lib
from lib import Check, cargo_build, run_tlc, workdir

PROP = "C04"
HERE = os.path.dirname(os.path.dirname(os.path.dirname(os.path.abspath(__file__))))


def fields_of(tbl, name):
    for it in tbl:
        if it["kind"] == "struct" and it["name"] == name:
            return it
    return None


def run(tier):
    c = Check(PROP, tier)
    quick = tier == "quick"
    wd = workdir("c04")
    out = os.path.join(wd, "layout.out")
    r = run_tlc("Layout", "Layout.cfg", workers=1, timeout=300, out_path=out)
    jl = os.path.join(wd, "layout.jsonl")
    if lib.extract_replays(out, jl) != 1:
        raise lib.ToolError("Layout.tla printed nothing")
    c.add_tlc("Layout.cfg (ASSUME OrderInvariant)", r)
    lc = os.path.join(wd, "layoutc")
    p = subprocess.run([sys.executable, os.path.join(HERE, "tools", "render_layout.py"), jl, lc], capture_output=True, text=True)
    if p.returncode != 0:
        raise lib.ToolError("renderer failed: " + p.stderr[-800:])
    index = json.load(open(os.path.join(lc, "index.json")))
    gen = os.path.join(cargo_build("gen"), "gen")
    # repeated independent expansions: fresh processes (fresh hash seeds)
    runs = 6 if quick else 40
    digests = {}
    tables = None
    for i in range(runs):
        exp = os.path.join(lc, "exp%d" % i)
        pg = subprocess.run([gen, "split", os.path.join(lc, "src", "defs.rs"), exp], capture_output=True, text=True)
        if pg.returncode != 0:
            raise lib.ToolError("cglue-gen failed to expand the layout definitions: " + pg.stderr[-1500:])
        t = json.load(open(os.path.join(exp, "layout.json")))
        # layout tables only (struct name -> repr, ordered (field, type)); token order elsewhere may legitimately vary
        lay = {m: [[it["name"], it["repr"], it["fields"]] for it in tbl if it["kind"] == "struct"] for m, tbl in t.items()}
        dg = hashlib.sha1(json.dumps(lay, sort_keys=True).encode()).hexdigest()
        digests.setdefault(dg, []).append(i)
        if tables is None:
            tables = t
    if len(digests) != 1:
        c.violation("expanding the same definitions %d times in fresh processes produced %d different layouts" % (runs, len(digests)),
                    {"digests": digests, "defs": os.path.join(lc, "src", "defs.rs")})
    n_cases = 0
    # vtables: one function pointer per method, declaration order
    for t, methods in index["traits"].items():
        st = fields_of(tables["t_%s" % t.lower()], t + "Vtbl")
        n_cases += 1
        if st is None:
            c.violation("no vtable struct generated for trait %s" % t, {"trait": t})
            continue
        names = [f[0] for f in st["fields"] if not f[0].startswith("_")]
        if names != methods:
            c.violation("vtable of %s lists %s, declaration order is %s" % (t, names, methods), {"trait": t, "struct": st})
        if "(C)" not in st["repr"]:
            c.violation("vtable of %s is not #[repr(C)]" % t, {"struct": st})
        for f in st["fields"]:
            if not f[0].startswith("_") and 'extern"C"fn' not in f[1]:
                c.violation("vtable field %s.%s is not an extern \"C\" function pointer: %s" % (t, f[0], f[1]), {"struct": st})
            if f[0].startswith("_") and "PhantomData" not in f[1]:
                c.violation("vtable of %s carries a non-function, non-phantom field %s: %s" % (t, f[0], f[1]), {"struct": st})
    # groups: mandatory by name, optional by name (alias), container; container = instance, context, temporaries
    for k, g in enumerate(index["groups"]):
        n_cases += 1
        st = fields_of(tables["g%d" % k], "G")
        ct = fields_of(tables["g%d" % k], "GContainer")
        lay = g["layout"]
        want = ["vtbl_" + x.lower() for x in lay["mandatory"]] + ["vtbl_" + x.lower() for x in lay["optional"]] + ["container"]
        got = [f[0] for f in st["fields"]] if st else None
        if got != want:
            c.violation("group listed as %s has fields %s, expected %s" % (json.dumps(g["listing"]), got, want), {"group": g, "struct": st})
            continue
        nm = len(lay["mandatory"])
        for i, f in enumerate(st["fields"][:-1]):
            is_opt = "Option<" in f[1]
            if (i < nm and is_opt) or (i >= nm and not is_opt):
                c.violation("group field %s has the wrong optionality: %s" % (f[0], f[1]), {"group": g, "struct": st})
        cf = [f[0] for f in ct["fields"]] if ct else []
        if cf[:2] != ["instance", "context"] or not all(x.startswith("ret_tmp_") for x in cf[2:]):
            c.violation("group container fields are %s, expected instance, context, temporaries" % cf, {"group": g, "struct": ct})
        for s in (st, ct):
            if "(C)" not in s["repr"]:
                c.violation("group structure %s is not #[repr(C)]" % s["name"], {"struct": s})
    # dynamic: raw words of real objects
    dyn = os.path.join(lc, "dyn")
    open(os.path.join(dyn, "Cargo.lock"), "w").write(open(os.path.join(lib.HARNESS, "Cargo.lock.repo")).read())
    td = os.path.join(lib.HARNESS, "target", "layoutdyn")
    pb = subprocess.run(["cargo", "build", "--offline", "--target-dir", td], cwd=dyn, capture_output=True, text=True, env=lib.cargo_env())
    if pb.returncode != 0:
        if c.violations:
            # the field tables already disagree with the specification (a slot is missing, say): the crate that reads real
            # objects at the predicted positions cannot be expected to compile; the static verdict stands
            c.cov["raw_word_checks"] = "not run: the dynamic layout crate does not compile (see violations)"
            c.finish({"evaluations": n_cases + runs, "distinct_nontrivial": n_cases, "independent_expansions": runs, "exhaustive": True,
                      "rule": "static field tables only"})
        raise lib.ToolError("dynamic layout crate does not compile against /repo:\n" + pb.stderr[-2000:])
    rc, _, outp = lib.run_adapter([os.path.join(td, "debug", "layoutdyn")])
    if rc != 0:
        c.violation("reading generated objects as raw words crashed (rc=%s)" % rc, {"bin": "layoutdyn"})
        res = []
    else:
        res = json.loads(outp.strip().splitlines()[-1])
    for x in res:
        n_cases += 1
        if not x["ok"]:
            c.violation("raw layout check %s failed: %s" % (x["what"], x["detail"]), x)
    c.sample({"group": index["groups"][-1], "fields": [f[0] for f in fields_of(tables["g%d" % (len(index["groups"]) - 1)], "G")["fields"]]})
    c.assumptions += ["name order = ordering of the (alias or trait) identifiers as strings",
                      "'another crate / both sides of a plugin boundary' is exercised by C05; here: repeated fresh-process expansions"]
    c.finish({"evaluations": n_cases + runs, "distinct_nontrivial": n_cases, "independent_expansions": runs, "raw_word_checks": len(res),
              "exhaustive": True,
              "rule": "every trait of the pool and every listing order of every group set enumerated by Layout.tla; static field tables from the real generator, raw words of real objects, repeated expansions in fresh processes"})


def replay(path):
    run("quick")
