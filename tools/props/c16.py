"""C16 — runtime types keep the C layout published in the headers.  Behaviours of spec/CVec.tla and
spec/CArc.tla with every mutation executed by the C driver cview/cview.c; differential C-vs-Rust
scripts for box, slices, callbacks, iterators and option/result tags."""
import os
import lib
from lib import Check, cargo_build

PROP = "C16"


def one_build(c, tier, release):
    label = "release" if release else "debug"
    rt = os.path.join(cargo_build("rt", release=release), "rt")
    quick = tier == "quick"
    tb = ts = nn = 0
    j, n = lib.gen_step(c, "Gen_CVec", "Gen_CVec.cfg" if quick else "Gen_CVec_thorough.cfg", "gen_cvec_c_%s" % label)
    nn += n
    for e in ["u8", "u64", "p3", "a16"]:
        b, s = lib.replay_step(c, rt, ["cview"], j, ["--elem", e], parts=4, mode="vec", label="(%s, elem=%s)" % (label, e),
                               what="CVec driven through its C layout diverges from the specification")
        tb += b
        ts += s
    # vectors of elements with destructors (a C caller holds CVec<CBox<..>>, CVec<CArc<..>>, ...): released from C through
    # drop_fn, everything else in Rust; the drop ledger of CVec.tla tells whether the release destroyed the elements
    for e in ["heavy", "zst"]:
        b, s = lib.replay_step(c, rt, ["vec"], j, ["--elem", e, "--c-release"], parts=4, label="(%s, elem=%s, release in C)" % (label, e),
                               what="CVec released through its C layout diverges from the specification")
        tb += b
        ts += s
    j, n = lib.gen_step(c, "Gen_CArc", "Gen_CArc.cfg" if quick else "Gen_CArc_thorough.cfg", "gen_carc_c_%s" % label)
    nn += n
    for mod, lab in (("arc", ""), ("arc64", ", payload aligned to 64")):
        b, s = lib.replay_step(c, rt, [mod], j, ["--slots", "3", "--allocs", "2", "--threads", "2", "--c"], parts=8, label="(%s, clone/drop in C%s)" % (label, lab),
                               what="CArc driven through its C layout diverges from the specification")
        tb += b
        ts += s
    rc, summ, out = lib.run_adapter([rt, "cview", "misc"])
    if rc != 0 or summ is None:
        c.violation("driving box/slices/callbacks/iterators through the C layout crashed (rc=%s, %s build)" % (rc, label), {"build": label})
    else:
        tb += summ["behaviours"]
        for f in summ["first_failures"][:3]:
            c.violation("C view (%s build): %s" % (label, f["msg"]), f)
    return tb, ts, nn


def run(tier):
    c = Check(PROP, tier)
    tb, ts, nn = one_build(c, tier, False)
    if tier != "quick":
        b2, s2, n2 = one_build(c, tier, True)
        tb += b2
        ts += s2
    c.assumptions += ["the C declarations in cview/cview.c are written from the property statement (field order and function signatures), not generated from the Rust sources",
                      "element types: u8, u64, 3-byte struct, 16-byte aligned struct driven entirely from C; heap-owning and zero-sized elements with destructors released from C", "quick = debug build; thorough adds the release build"]
    c.finish({"behaviours_replayed": tb, "replay_steps": ts, "exhaustive": True, "evaluations": tb, "distinct_nontrivial": nn,
              "rule": "all Gen_CVec behaviours a C caller can provoke (push/pop/insert/remove/reserve/write/release in C, 4 element types), all Gen_CArc behaviours with clone/release in C, differential scripts for box, slices (lengths 0-5), callbacks (lengths 0-5 x stop positions), iterators, option/result tags; values MADE by C from the published layouts and used in Rust: box (owned / lent, typed / opaque), vector over malloc/realloc/free (grown, edited, dropped in Rust), callback (one object across several feeds), iterator (8 end statuses), arc handles (one handle object per clone)"})


def replay(path):
    c = Check(PROP, "quick")
    rt = os.path.join(cargo_build("rt"), "rt")
    lib.replay_one(c, rt, ["cview", "vec"], path)
