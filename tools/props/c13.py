"""C13 — integer result codes: zero means success and the output is initialised.  spec/IntRes.tla."""
import json, os
import lib
from lib import Check, cargo_build

PROP = "C13"


def library_level(c, tier, rt):
    quick = tier == "quick"
    # TLC checks ZeroIffOk / SlotDiscipline / ReadOnlyOnZero / OsRoundTrip / NoErrorEncodesToZero on every
    # script while printing it
    j1, n1 = lib.gen_step(c, "Gen_IntRes", "Gen_IntRes.cfg", "gen_intres")
    b1, s1 = lib.replay_step(c, rt, ["intres"], j1, parts=1, what="integer result coding diverges from the specification")
    nfiles, events = (1, 4000) if quick else (8, 40000)
    nev = lib.trace_step(c, rt, ["intres"], "Trace_IntRes", "Trace_IntRes.cfg", nfiles, events)
    extra = {}
    if not quick:
        rc, summ, out = lib.run_adapter([rt, "intres", "sweep", "--threads", "16"], timeout=3000)
        if rc != 0 or summ is None:
            raise lib.ToolError("sweep failed")
        extra["os_codes_swept"] = summ["codes"]
        if summ["bad"]:
            c.violation("io::Error code %d does not survive encoding/decoding or encodes to 0 (%d bad codes)" % (summ["first_bad"], summ["bad"]),
                        {"first_bad": summ["first_bad"]})
    return b1, s1, n1, nev, extra


def run(tier):
    c = Check(PROP, tier)
    rt = os.path.join(cargo_build("rt"), "rt")
    b1, s1, n1, nev, extra = library_level(c, tier, rt)
    tl = {}
    try:
        from props import grammar
        tl = grammar.run_for(c, tier, "C13")
    except ImportError:
        c.cov["trait_level"] = "not built yet: only the library-level coding is exercised in this round"
    c.assumptions += ["slot-untouched-on-error is observed through a 0x5A byte pattern pre-filled into the caller's MaybeUninit",
                      "TLC integers are 32-bit: the complete i32 sweep (thorough) runs natively against the closed form transcribed from IntRes!IoEnc"]
    cov = {"behaviours_replayed": b1, "replay_steps": s1, "trace_events_validated": nev, "exhaustive": True,
           "evaluations": b1 + nev, "distinct_nontrivial": n1,
           "rule": "every (encoder, result, error flavour, decoder) script over the representative code set; random traces over random i32 codes"}
    cov.update(extra)
    cov.update(tl)
    c.finish(cov)


def replay(path):
    c = Check(PROP, "quick")
    rt = os.path.join(cargo_build("rt"), "rt")
    lib.replay_one(c, rt, ["intres"], path, "Trace_IntRes", "Trace_IntRes.cfg")
