"""C11 — CVec is observationally a Vec.  spec/CVec.tla bound to cglue::vec::CVec."""
import json, os
import lib
from lib import Check, run_tlc, extract_replays, cargo_build, run_parallel, workdir, seed

PROP = "C11"
ELEMS = ["heavy", "u64", "u8", "zst"]


def replay_behaviours(c, rt, jsonl, elems, parts=4):
    cmds, meta = [], []
    pieces = lib.split_file(jsonl, parts, jsonl + ".part")
    for e in elems:
        for i, p in enumerate(pieces):
            fo = "%s.%s.fail" % (p, e)
            if os.path.exists(fo):
                os.remove(fo)
            cmds.append([rt, "vec", "replay", p, "--elem", e, "--fail-out", fo])
            meta.append((e, p, fo))
    total_b = total_s = 0
    for (rc, summ, out), (e, p, fo) in zip(run_parallel(cmds, timeout=1500), meta):
        if rc == 2 or rc == 124:
            raise lib.ToolError("adapter reported a tool error / timed out (rc=%s) on %s" % (rc, p))
        if rc != 0 or summ is None:
            # a crash of the child while driving the real code is a symptom of the property failing
            c.violation("replay child crashed (rc=%s) on %s elem=%s" % (rc, p, e), {"file": p, "elem": e})
            continue
        total_b += summ["behaviours"]
        total_s += summ["steps"]
        for f in summ["first_failures"]:
            c.violation("CVec diverges from Vec semantics (elem=%s) at step %s: %s" % (e, f["step"], f["msg"]), f)
            break
    return total_b, total_s


def validate_traces(c, rt, events, nfiles, s):
    wd = workdir("c11")
    ok = 0
    cmds, paths = [], []
    for i in range(nfiles):
        path = os.path.join(wd, "trace_%d.ndjson" % i)
        cmds.append([rt, "vec", "trace", path, "--seed", str(s * 1000 + i), "--events", str(events), "--slots", "3"])
        paths.append(path)
    for (rc, summ, out), path in zip(run_parallel(cmds), paths):
        if rc == 2 or rc == 124:
            raise lib.ToolError("trace driver reported a tool error / timed out (rc=%s)" % rc)
        if rc != 0:
            c.violation("trace driver crashed rc=%s" % rc, {"trace": path})
            continue
        r = run_tlc("Trace_CVec", "Trace_CVec.cfg", name="trace_cvec_%s" % os.path.basename(path),
                    workers=1, env={"TRACE": path}, depth_first=True, timeout=600)
        nev = sum(1 for _ in open(path))
        if r.violation or r.distinct < nev + 1:
            line = r.depth
            evs = open(path).read().splitlines()
            bad = evs[line - 1] if 0 < line <= len(evs) else ""
            c.violation("implementation trace rejected by CVec spec at event %d: %s [%s]" % (line, bad[:400], r.violation),
                        None, replay_path=path)
        else:
            ok += nev
            c.cov["traces_validated_against_impl"] += 1
            c.add_tlc("Trace_CVec(%s)" % os.path.basename(path), r, exhaustive=False)
    return ok


def run(tier):
    c = Check(PROP, tier)
    s = seed()
    wd = workdir("c11")
    # 1. the design: exhaustive model check of the ideal spec
    mc_cfg = "MC_CVec.cfg" if tier == "quick" else "MC_CVec_thorough.cfg"
    r = run_tlc("MC_CVec", mc_cfg, workers=8 if tier == "quick" else 16, timeout=3000)
    if r.violation:
        c.violation("CVec spec violates its own invariant: %s (see %s)" % (r.violation, r.out), {"tlc": r.out})
        c.finish()
    c.add_tlc(mc_cfg, r)
    # 2. spec -> impl: all behaviours of the generator config, replayed on the real CVec
    gen_cfg = "Gen_CVec.cfg" if tier == "quick" else "Gen_CVec_thorough.cfg"
    g = run_tlc("Gen_CVec", gen_cfg, workers=8, timeout=3000, out_path=os.path.join(wd, "gen.out"))
    c.add_tlc(gen_cfg, g)
    jsonl = os.path.join(wd, "behaviours.jsonl")
    nb = extract_replays(g.out, jsonl)
    os.remove(g.out)
    if nb == 0:
        raise lib.ToolError("generator produced no behaviours")
    with open(jsonl) as f:
        c.sample(json.loads(f.readline()))
    bindir = cargo_build("rt")
    rt = os.path.join(bindir, "rt")
    tb, ts = replay_behaviours(c, rt, jsonl, ELEMS, parts=4)
    # 3. impl -> spec: random driver traces validated by TLC
    nfiles, events = (2, 2500) if tier == "quick" else (12, 20000)
    nev = validate_traces(c, rt, events, nfiles, s)
    c.assumptions += ["capacity values are the allocator's choice and are never compared",
                      "bounds: see tlc_runs; beyond them only the random driver"]
    c.finish({"behaviours_replayed": tb, "replay_steps": ts, "trace_events_validated": nev,
              "element_types": ELEMS, "exhaustive": True,
              "rule": "every behaviour of Gen_CVec (all action sequences of the stated depth over the bounded alphabet) x 4 element types; traces: seeded random driver",
              "evaluations": tb, "distinct_nontrivial": nb})


def replay(path):
    c = Check(PROP, "quick")
    bindir = cargo_build("rt")
    rt = os.path.join(bindir, "rt")
    if path.endswith(".ndjson"):
        r = run_tlc("Trace_CVec", "Trace_CVec.cfg", name="trace_replay", workers=1, env={"TRACE": path}, depth_first=True)
        nev = sum(1 for _ in open(path))
        if r.violation or r.distinct < nev + 1:
            c.violation("trace rejected at event %d" % r.depth, None, replay_path=path)
    else:
        obj = json.load(open(path))
        beh = obj["replay"]["beh"]
        tmp = os.path.join(workdir("c11"), "one.jsonl")
        with open(tmp, "w") as f:
            f.write(json.dumps(beh) + "\n")
        rc, summ, out = lib.run_adapter([rt, "vec", "replay", tmp, "--elem", obj["replay"].get("elem", "heavy")])
        if rc != 0 or summ is None or summ["failures"]:
            c.violation("replayed behaviour still fails: %s" % (summ and summ["first_failures"]), None, replay_path=path)
    c.finish({"evaluations": 1, "distinct_nontrivial": 1})
