"""Shared pipeline for C17 / C18: API models enumerated by spec/Bindgen.tla -> cbindgen-shaped header
(tools/cbgen.py) -> the real cglue-bindgen (built from /repo, fake `cbindgen` on PATH) -> processed
header -> C compilers, repeated runs, declaration diff (C18) / mock-vtable driver + TLC trace
validation (C17)."""
import re, json, os, random, subprocess, sys, hashlib
import lib
from lib import run_tlc, workdir

HERE = os.path.dirname(os.path.dirname(os.path.dirname(os.path.abspath(__file__))))
sys.path.insert(0, os.path.join(HERE, "tools"))
import cbgen, bindgen_mock, cbgen_cpp, bindgen_mock_cpp

TRAITS = [
    {"name": "Ta", "methods": [{"name": "f", "recv": "ref", "args": ["u64", "i32"], "ret": "u64"},
                               {"name": "g", "recv": "mut", "args": ["Pt"], "ret": "void"},
                               {"name": "h", "recv": "own", "args": [], "ret": "u64"}]},
    {"name": "Tb", "methods": [{"name": "f", "recv": "ref", "args": ["slice"], "ret": "Pt"},
                               {"name": "n0", "recv": "ref", "args": [], "ret": "u64"}]},
    # n0 has the same name and the same shape as Tb::n0 but sits at another vtable position
    {"name": "Tc", "methods": [{"name": "n0", "recv": "ref", "args": [], "ret": "u64"},
                               {"name": "k", "recv": "ref", "args": ["ptr", "u64", "u64", "i32"], "ret": "void"},
                               {"name": "f2", "recv": "mut", "args": ["u64"], "ret": "i32"}]},
    # Clone-like entry that returns a new container, and a callback of a struct element
    {"name": "Td", "methods": [{"name": "dup", "recv": "ref", "args": [], "ret": "cont"},
                               {"name": "cb", "recv": "ref", "args": ["cbPt", "u64"], "ret": "void"}]},
    # callback of a primitive element
    {"name": "Te", "methods": [{"name": "cbn", "recv": "mut", "args": ["cbu64"], "ret": "u64"},
                               # a function-pointer argument: its name sits inside the declarator
                               {"name": "reg", "recv": "ref", "args": ["fnptr", "u64"], "ret": "u64"},
                               # the callback type written without its alias: a comma inside the C++ template argument list
                               {"name": "cbr", "recv": "ref", "args": ["u64", "cbraw", "i32"], "ret": "u64"}]},
    # pointer-valued results (`void *`, `const void *`, typed) from by-reference and consuming entries, untyped pointer arguments
    {"name": "Tf", "methods": [{"name": "raw", "recv": "mut", "args": [], "ret": "vptr"},
                               {"name": "peek", "recv": "ref", "args": ["cvptr", "vptr"], "ret": "cvptr"},
                               {"name": "at", "recv": "ref", "args": ["u64"], "ret": "ptr"},
                               {"name": "into_raw", "recv": "own", "args": [], "ret": "vptr"}]},
    # shares TWO function names (f, n0) with Tb: a group of both has several clashing functions per trait
    {"name": "Tg", "methods": [{"name": "n0", "recv": "ref", "args": [], "ret": "u64"},
                               {"name": "z", "recv": "ref", "args": ["i32"], "ret": "void"},
                               {"name": "f", "recv": "ref", "args": ["u64"], "ret": "u64"}]},
]


def tool_binary():
    td = os.path.join(lib.HARNESS, "target", "bindgen")
    p = subprocess.run(["cargo", "build", "--offline", "-p", "cglue-bindgen"], cwd=lib.REPO, env=lib.cargo_env({"CARGO_TARGET_DIR": td}),
                       capture_output=True, text=True)
    if p.returncode != 0:
        raise lib.ToolError("cglue-bindgen does not build:\n" + p.stderr[-2000:])
    return os.path.join(td, "debug", "cglue-bindgen")


def fake_cbindgen(wd):
    d = os.path.join(wd, "fakebin")
    os.makedirs(d, exist_ok=True)
    p = os.path.join(d, "cbindgen")
    with open(p, "w") as f:
        f.write('#!/bin/sh\n# fake cbindgen: records its argv, prints the header named by $FAKE_CBINDGEN_HEADER\n'
                'printf \'%s\\n\' "$@" > "${FAKE_CBINDGEN_ARGV:-/dev/null}"\ncat "$FAKE_CBINDGEN_HEADER"\n')
    os.chmod(p, 0o755)
    return d


def enumerate_models(c, tier):
    wd = workdir("bindgen")
    out = os.path.join(wd, "genbg.out")
    r = run_tlc("Gen_Bindgen", "Gen_Bindgen.cfg", name="gen_bindgen_" + c.prop, workers=1, timeout=300, out_path=out)
    one = os.path.join(wd, "genbg_%s.json" % c.prop)
    if lib.extract_replays(out, one) != 1:
        raise lib.ToolError("Bindgen.tla printed no models")
    c.add_tlc("Gen_Bindgen.cfg", r)
    models = sorted(json.loads(open(one).read())["models"], key=lambda m: json.dumps(m, sort_keys=True))
    for m in models:
        # a trait with a by-value method exists only behind a Box (Rust: IntoInner)
        m["groups"] = sorted(m["groups"], key=lambda g: g["name"])
        m["objects"] = sorted(m["objects"], key=lambda o: json.dumps(o, sort_keys=True))
        m["traits"] = TRAITS
        m["config"] = {k: v for k, v in m["config"].items() if v}
    n = 30 if tier == "quick" else 600
    rnd = random.Random(lib.seed())
    pick = rnd.sample(models, min(n, len(models)))
    # always include the richest models: several contexts, clashes, both groups, foreign declarations
    rich = [m for m in models if len(m["groups"]) == 2 and len(m["objects"]) == 3 and m["foreign"] and m["ctxgeneric"]
            and len({o["ctx"] for o in m["objects"]}) == 2][:4]
    # ... and a greedy cover of the model features: every object, group, configuration, every (object|group, configuration)
    # pair, every pair of objects of one trait (two instantiations of one object type in one header)
    def feats(m):
        cfg = json.dumps(m["config"], sort_keys=True)
        objs = [json.dumps({k: o[k] for k in ("trait", "cont", "ctx")}, sort_keys=True) for o in m["objects"]]
        f = set(objs) | {g["name"] for g in m["groups"]} | {cfg, "foreign=%s" % m["foreign"], "ctxgen=%s" % m["ctxgeneric"]}
        f |= {(x, cfg) for x in objs} | {(g["name"], cfg) for g in m["groups"]}
        f |= {(a, b) for a in objs for b in objs if a < b and json.loads(a)["trait"] == json.loads(b)["trait"]}
        f |= {(g1["name"], g2["name"]) for g1 in m["groups"] for g2 in m["groups"] if g1["name"] < g2["name"]}
        return f
    covered, cover = set(), []
    for m in sorted(models, key=lambda m: -(len(m["objects"]) + 2 * len(m["groups"]))):
        f = feats(m)
        if not f <= covered:
            covered |= f
            cover.append(m)
    seen, sel = set(), []
    for m in rich + cover + pick:
        k = json.dumps(m, sort_keys=True)
        if k not in seen:
            seen.add(k)
            sel.append(m)
    return wd, sel, len(models)


def cpp_applicable(model):
    """C++ headers: a default container without a default context makes the tool write `typename CGlueCtx =
    NoContext`; whether cbindgen's C++ output declares `NoContext` cannot be established offline, so that
    configuration is left out of the C++ space (recorded in the evidence)."""
    cfg = model.get("config", {})
    return not (cfg.get("default_container") and not cfg.get("default_context"))


def run_tool(tool, fakebin, wd, model, idx, extra_args=None, out_name=None, lang="c", prior=None):
    md = os.path.join(wd, "m%d%s" % (idx, "" if lang == "c" else "_cpp"))
    os.makedirs(md, exist_ok=True)
    ext = "h" if lang == "c" else "hpp"
    out_name = out_name or ("out." + ext)
    raw = os.path.join(md, "raw." + ext)
    open(raw, "w").write(cbgen.render(model) if lang == "c" else cbgen_cpp.render(model))
    json.dump(model, open(os.path.join(md, "model.json"), "w"))
    pre = []
    if model["config"]:
        cfgp = os.path.join(md, "cglue.toml")
        open(cfgp, "w").write("".join('%s = "%s"\n' % (k, v) for k, v in model["config"].items()))
        pre = ["-c", cfgp]
    outp = os.path.join(md, out_name)
    if prior is not None:
        open(outp, "wb").write(prior)     # Bindgen!OutputHistory: the path already holds a header of an earlier run
    env = dict(os.environ)
    env["PATH"] = fakebin + ":" + env["PATH"]
    env["FAKE_CBINDGEN_HEADER"] = raw
    env["FAKE_CBINDGEN_ARGV"] = os.path.join(md, "argv.txt")
    args = extra_args if extra_args is not None else ["--config", "cb.toml", "--crate", "api", "--output", outp, "-l", "C" if lang == "c" else "C++"]
    p = subprocess.run([tool] + pre + ["--"] + args, capture_output=True, text=True, env=env, cwd=md)
    return md, raw, outp, p


# ------------------------------------------------------------------------------------------------
def run_c17(c, tier, langs=("c", "cpp")):
    wd, models, total = enumerate_models(c, tier)
    tool = tool_binary()
    fakebin = fake_cbindgen(wd)
    trace = os.path.join(wd, "wrappers.ndjson")
    known = {k["site"]: k for k in lib.known_findings("C17")}
    n_entries = n_calls = 0
    per_lang = {l: {"models": 0, "entries": 0, "calls": 0} for l in langs}
    skipped_cpp = 0
    with open(trace, "w") as tf:
        for idx, model in enumerate(models):
          for lang in langs:
            if lang == "cpp" and not cpp_applicable(model):
                skipped_cpp += 1
                continue
            md, raw, outp, p = run_tool(tool, fakebin, wd, model, idx, lang=lang)
            if p.returncode != 0 or not os.path.exists(outp):
                c.violation("cglue-bindgen failed on a %s header in the supported shape: %s" % (lang, p.stderr[-300:]), {"model": model, "raw": raw})
                continue
            header = open(outp).read()
            if lang == "c":
                src, expected = bindgen_mock.gen(model, header)
                hname, dname, cc = "processed.h", "driver.c", ["gcc", "-std=c99"]
            else:
                src, expected = bindgen_mock_cpp.gen(model, header)
                hname, dname, cc = "processed.hpp", "driver.cpp", ["g++", "-std=c++11"]
            open(os.path.join(md, hname), "w").write(header)
            open(os.path.join(md, dname), "w").write(src)
            per_lang[lang]["models"] += 1
            missing = False
            for e in expected:
                n_entries += 1
                per_lang[lang]["entries"] += 1
                if not e["present"] or not e.get("signature_ok", False):
                    missing = True
                    clash = e["owner_kind"] == "group" and any(
                        e["m"] in [m["name"] for m in t["methods"]] and t["name"] != e["tr"]
                        for g in model["groups"] if g["name"] == e["owner"] for t in TRAITS if t["name"] in g["mand"] + g["opt"])
                    site = "%s:group-name-clash" % lang if clash else "%s:missing-wrapper" % lang
                    if site in known:
                        c.known(known[site]["id"], known[site]["what"])
                    else:
                        c.violation("[%s] vtable entry %s::%s of %s %s (%s, %s) has no callable wrapper: expected `%s`%s" % (
                            lang, e["tr"], e["m"], e["owner_kind"], e["owner"], e["cont"], e["ctx"], e["wrapper"],
                            " which exists with parameters %s" % e.get("found_signature") if e["present"] else ""), {"model": model, "entry": e, "dir": md})
            # (-Werror=return-type: a wrapper of a non-void entry that does not return the entry's result is rejected here
            # instead of passing by the accident of a register at -O0)
            pc = subprocess.run(cc + ["-O0", "-Werror=return-type", "-ftrivial-auto-var-init=pattern", "-o", os.path.join(md, "driver"), os.path.join(md, dname)], capture_output=True, text=True)
            if pc.returncode != 0:
                # a header that does not compile on its own is C18's subject, not a forwarding error
                ph = subprocess.run(cc + ["-fsyntax-only", "-x", "c" if lang == "c" else "c++", os.path.join(md, hname)], capture_output=True, text=True)
                if ph.returncode != 0:
                    c.cov.setdefault("other_property_divergences", []).append({"property": "C18", "what": "processed %s header does not compile on its own" % lang, "model": idx})
                    # ... unless the compiler's complaint sits INSIDE a generated wrapper: then the wrapper does not forward
                    # (arguments mangled, wrong callee expression), which is this property's subject as well
                    hl = header.splitlines()
                    inside = []
                    for m_ in re.finditer(r"%s:(\d+):\d+: error: ([^\n]*)" % re.escape(os.path.join(md, hname)), ph.stderr):
                        ln = int(m_.group(1)) - 1
                        for j in range(ln, max(-1, ln - 40), -1):
                            t = hl[j] if 0 <= j < len(hl) else ""
                            if ("static inline" in t or (lang == "cpp" and "inline " in t)) and "(" in t:
                                if j != ln or "{" in t:
                                    inside.append((t.strip()[:120], m_.group(2)[:160]))
                                break
                            if t.startswith("}") or t.startswith("typedef") or t.startswith("struct "):
                                break
                    if inside:
                        c.violation("[%s] a generated wrapper does not compile (its arguments or callee are not forwarded as written): %s: %s" % (lang, inside[0][0], inside[0][1]),
                                    {"model": model, "dir": md, "errors": inside[:5]})
                    continue
                errs = " | ".join(l.strip() for l in pc.stderr.splitlines() if "error" in l)[:600]
                c.violation("[%s] a caller cannot compile calls to the generated wrappers: %s" % (lang, errs or pc.stderr[-600:]), {"model": model, "dir": md})
                continue
            pr = subprocess.run([os.path.join(md, "driver")], capture_output=True, text=True, timeout=60)
            if pr.returncode != 0:
                c.violation("[%s] calling the generated wrappers crashed (rc=%s)" % (lang, pr.returncode), {"model": model, "dir": md})
                continue
            # merge expectations into the call events, shift k to be globally unique
            base = (idx * 2 + (1 if lang == "cpp" else 0)) * 1000
            for l in pr.stdout.splitlines():
                ev = json.loads(l)
                if ev["ev"] == "call":
                    e = expected[ev["k"]]
                    n_calls += 1
                    per_lang[lang]["calls"] += 1
                    ev.update({"kind": e["kind"], "ty": e["ty"], "tr": e["tr"], "m": e["m"], "sent": e.get("sent", []),
                               "hasBox": e["cont"] == "Box", "hasArc": e["ctx"] == "Arc", "expret": e.get("expret", []), "lang": lang,
                               "wrapper": e["wrapper"], "owner": e["owner"]})
                    ev["k"] = base + ev["k"] + 1
                    ev["model"] = idx
                elif ev["ev"] == "ret":
                    ev["k"] = base + ev["k"] + 1
                tf.write(json.dumps(ev) + "\n")
    if n_calls:
        r = run_tlc("Trace_Bindgen", "Trace_Bindgen.cfg", name="trace_bindgen", workers=1, env={"TRACE": trace}, depth_first=True, timeout=1500)
        nev = sum(1 for _ in open(trace))
        if r.violation or r.distinct < nev + 1:
            evs = open(trace).read().splitlines()
            bad = evs[r.depth - 1] if 0 < r.depth <= len(evs) else ""
            # the invocation the rejected event belongs to
            inv = ""
            for l in reversed(evs[:max(r.depth - 1, 0)]):
                if '"ev": "call"' in l:
                    inv = l
                    break
            c.violation("wrapper invocation trace rejected by Bindgen.tla at event %d: %s (invocation: %s) [%s]" % (r.depth, bad[:300], inv[:500], r.violation), None, replay_path=trace)
        else:
            c.cov["traces_validated_against_impl"] += 1
            c.add_tlc("Trace_Bindgen.cfg", r, exhaustive=False)
    c.sample({"model": {k: models[0][k] for k in ("objects", "groups", "config", "foreign")}})
    return {"models_total": total, "models_run": len(models), "vtable_entries": n_entries, "wrapper_calls_validated": n_calls, "per_language": per_lang,
            "cpp_models_outside_space": skipped_cpp,
            "evaluations": n_entries, "distinct_nontrivial": len(models), "exhaustive": False,
            "rule": "API models enumerated by Bindgen.tla (objects x groups x config x foreign declarations), sampled by VERIF_SEED plus the richest ones; for each model the C header (gcc -std=c99 caller) and the C++ header (g++ -std=c++11 caller): every vtable entry of every object/group type is called through its wrapper with distinguishable arguments against mock vtables; in C++ the destructor is the drop helper"}


# ------------------------------------------------------------------------------------------------
DECL_RE = re.compile(r"^(typedef struct \w+ \{.*?\} \w+;|typedef [^;{]+;|[\w\s\*]+\([^;{]*\);)", re.S | re.M)


def foreign_decls(text, names):
    out = []
    for nm in names:
        for m in re.finditer(r"(typedef struct %s \{.*?\} %s;)|(^[^\n;{]*\b%s\([^;{]*\);)" % (nm, nm, nm), text, re.S | re.M):
            out.append((m.start(), m.group(0)))
    return [d for _, d in sorted(out)]


def foreign_decls_cpp(text, names):
    out = []
    for nm in names:
        for m in re.finditer(r"(^struct %s \{.*?\n\};)|(^[^\n;{]*\b%s\([^;{]*\);)" % (nm, nm), text, re.S | re.M):
            out.append((m.start(), m.group(0)))
    return [d for _, d in sorted(out)]


def run_c18(c, tier, langs=("c", "cpp")):
    wd, models, total = enumerate_models(c, tier)
    tool = tool_binary()
    fakebin = fake_cbindgen(wd)
    known = {k["site"]: k for k in lib.known_findings("C18")}
    k_runs = 5 if tier == "quick" else 30
    n = 0
    per_lang = {l: 0 for l in langs}
    for idx, model in enumerate(models):
      for lang in langs:
        if lang == "cpp" and not cpp_applicable(model):
            continue
        md, raw, outp, p = run_tool(tool, fakebin, wd, model, idx, lang=lang)
        if p.returncode != 0 or not os.path.exists(outp):
            c.violation("cglue-bindgen failed on a %s header in the supported shape: %s" % (lang, p.stderr[-300:]), {"model": model, "raw": raw})
            continue
        n += 1
        per_lang[lang] += 1
        # (1) self-contained header accepted by C99 (resp. C++11) compilers
        ccs = ((["gcc", "-std=c99", "-fsyntax-only", "-x", "c"], ["clang", "-std=c99", "-fsyntax-only", "-x", "c"]) if lang == "c" else
               (["g++", "-std=c++11", "-fsyntax-only", "-x", "c++"], ["clang++", "-std=c++11", "-fsyntax-only", "-x", "c++"]))
        for cc in ccs:
            pc = subprocess.run(cc + [outp], capture_output=True, text=True)
            if pc.returncode != 0:
                errs = [l for l in pc.stderr.splitlines() if " error: " in l]
                site = "cpp:user-struct-holds-object-by-value"
                if (lang == "cpp" and "struct UserHolder" in open(raw).read() and errs
                        and all("after instantiation of" in l or "UserHolder" in l for l in errs) and site in known):
                    # F14: every complaint is the specialisation-after-instantiation caused by the holder structure
                    c.known(known[site]["id"], known[site]["what"])
                    break
                c.violation("%s %s rejects the post-processed header: %s" % (cc[0], cc[1], pc.stderr[-400:]), {"model": model, "header": outp})
                break
        # (2) byte-identical on every run (fresh processes)
        first = open(outp, "rb").read()
        digests = {hashlib.sha1(first).hexdigest()}
        # the full number of repetitions for the first (richest + covering) models, three for the random tail
        reps = k_runs if idx < 60 else min(k_runs, 3)
        stale = b"\n/* declarations of an API that has since shrunk */\ntypedef struct StaleThing_ { int x; } StaleThing_;\n" * 3
        for kk in range(reps - 1):
            # Bindgen!OutputHistory: absent / a longer header of another API / a shorter one
            prior = [None, first + stale, first[:len(first) // 2]][(kk + 1) % 3]
            _, _, o2, p2 = run_tool(tool, fakebin, wd, model, idx, out_name="out_%d.h" % kk, lang=lang, prior=prior)
            digests.add(hashlib.sha1(open(o2, "rb").read()).hexdigest())
            os.remove(o2)
        if len(digests) != 1:
            site = "nondeterministic-context-order"
            if site in known:
                c.known(known[site]["id"], known[site]["what"])
            else:
                c.violation("[%s] %d runs on the same input and configuration (output path absent / holding a longer / a shorter earlier header) produced %d different headers" % (lang, reps, len(digests)), {"model": model, "raw": raw})
        # (3) declarations that do not belong to CGlue constructs survive unmodified and in order
        if model["foreign"]:
            if lang == "c":
                names = ["FooVtbl", "Pt", "CSliceRef_u8", "UserKeeper", "BarRetTmp_x", "UserHolder", "user_function_Container", "api_entry"]
                a = foreign_decls(open(raw).read(), names)
                b = foreign_decls(first.decode(), names)
            else:
                names = ["FooVtbl", "Pt", "BarRetTmp_x", "UserHolder", "user_function_Container"]
                a = foreign_decls_cpp(open(raw).read(), names)
                b = foreign_decls_cpp(first.decode(), names)
            if a != b or not a:
                c.violation("[%s] foreign declarations changed: before %s after %s" % (lang, [x[:60] for x in a], [x[:60] for x in b]), {"model": model, "raw": raw, "out": outp})
    # (4) argument splitting: everything after `--` goes to cbindgen except the output path
    argv_cases = [["--config", "x.toml", "--crate", "foo", "--output", "OUT", "-l", "C"],
                  ["-o", "OUT", "--crate", "foo"], ["--crate", "foo", "-l", "C", "-o", "OUT"],
                  ["--lang", "c", "--output", "OUT"], ["-q", "-o", "OUT", "-v"]]
    for ai, argv in enumerate(argv_cases):
        model = models[0]
        md = os.path.join(wd, "argv%d" % ai)
        os.makedirs(md, exist_ok=True)
        target = os.path.join(md, "landed.h")
        args = [target if a == "OUT" else a for a in argv]
        md2, raw, _, p = run_tool(tool, fakebin, wd, model, 9000 + ai, extra_args=args)
        got = open(os.path.join(md2, "argv.txt")).read().split("\n")[:-1] if os.path.exists(os.path.join(md2, "argv.txt")) else None
        want = []
        skip = False
        for a in args:
            if skip:
                skip = False
                continue
            if a in ("-o", "--output"):
                skip = True
                continue
            want.append(a)
        if p.returncode != 0 or not os.path.exists(target):
            c.violation("with arguments %s the processed header did not land in the output path" % argv, {"argv": argv, "stderr": p.stderr[-300:]})
        elif got != want:
            c.violation("cbindgen received %s, expected %s (arguments after `--` minus the output path)" % (got, want), {"argv": argv})
        n += 1
    c.sample({"model": {k: models[0][k] for k in ("objects", "groups", "config", "foreign", "ctxgeneric")}})
    return {"models_total": total, "models_run": len(models), "headers_per_language": per_lang, "runs_per_model": k_runs, "argv_cases": len(argv_cases),
            "evaluations": n, "distinct_nontrivial": len(models), "exhaustive": False,
            "rule": "API models enumerated by Bindgen.tla, sampled by VERIF_SEED plus the richest ones, C and C++ header of each: gcc and clang -std=c99 (g++ and clang++ -std=c++11) -fsyntax-only, repeated fresh-process runs hashed, foreign declarations compared before/after, argument splitting cases"}
