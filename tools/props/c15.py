"""C15 — callbacks and iterators deliver every item once, in order, until told to stop.  spec/Feed.tla."""
import os
import lib
from lib import Check, cargo_build

PROP = "C15"


def run(tier):
    c = Check(PROP, tier)
    quick = tier == "quick"
    sfx = "" if quick else "_thorough"
    lib.mc_step(c, "MC_Feed", "MC_Feed%s.cfg" % sfx, what="Feed spec")
    rt = os.path.join(cargo_build("rt"), "rt")
    j1, n1 = lib.gen_step(c, "Gen_Feed", "Gen_Feed%s.cfg" % sfx, "gen_feed")
    b1, s1 = lib.replay_step(c, rt, ["feed"], j1, parts=8, what="callback/iterator glue diverges from the specification")
    n = 200 if quick else 4000
    j2, n2 = lib.gen_step(c, "Gen_Feed", "Gen_Feed_sim.cfg", "gen_feed_sim", simulate="num=%d" % n, workers=4, seed_=lib.seed())
    b2, s2 = lib.replay_step(c, rt, ["feed"], j2, parts=4, what="callback/iterator glue diverges from the specification (long behaviour)")
    nfiles, events = (2, 3000) if quick else (8, 30000)
    nev = lib.trace_step(c, rt, ["feed"], "Trace_Feed", "Trace_Feed.cfg", nfiles, events)
    c.assumptions += ["items are heap-owning payloads with identity and destructor counters",
                      "the C-level view of callbacks and iterators (context/function fields) is exercised by C16"]
    c.finish({"behaviours_replayed": b1 + b2, "replay_steps": s1 + s2, "trace_events_validated": nev, "exhaustive": True,
              "evaluations": b1 + b2, "distinct_nontrivial": n1 + n2,
              "rule": "all behaviours of Gen_Feed up to its depth over sources of 0/1/3 items, closure stop positions 0..3, Vec and Extend collectors, feed_into/feed_into_mut/Extend, wrapper/direct next interleavings; plus simulate behaviours of depth 40"})


def replay(path):
    c = Check(PROP, "quick")
    rt = os.path.join(cargo_build("rt"), "rt")
    lib.replay_one(c, rt, ["feed"], path, "Trace_Feed", "Trace_Feed.cfg")
