"""C14 — ReprCString owns one well-formed NUL-terminated buffer.  spec/CString.tla."""
import os
import lib
from lib import Check, cargo_build

PROP = "C14"


def run(tier):
    c = Check(PROP, tier)
    quick = tier == "quick"
    rt = os.path.join(cargo_build("rt"), "rt")
    sfx = "" if quick else "_thorough"
    # complete bounded input space x three constructors x fixed read/clone/compare/drop script;
    # WellFormed and OneBufferEach are checked by TLC in every state of every script
    lib.mc_step(c, "MC_CString", "MC_CString.cfg", workers=4, timeout=600, what="CString spec")
    j1, n1 = lib.gen_step(c, "Gen_CString", "Gen_CString_inputs%s.cfg" % sfx, "gen_cstr_inputs")
    b1, s1 = lib.replay_step(c, rt, ["cstr"], j1, parts=4, what="ReprCString diverges from the specification")
    # all operation sequences over representative inputs
    j2, n2 = lib.gen_step(c, "Gen_CString", "Gen_CString_ops%s.cfg" % sfx, "gen_cstr_ops")
    b2, s2 = lib.replay_step(c, rt, ["cstr"], j2, parts=8, what="ReprCString diverges from the specification")
    nfiles, events = (2, 3000) if quick else (8, 30000)
    nev = lib.trace_step(c, rt, ["cstr"], "Trace_CString", "Trace_CString.cfg", nfiles, events, ["--slots", "3"])
    c.assumptions += ["allocation size of the buffer is read from the ledger allocator for the pointer the string holds",
                      "over-reads are visible because every block is followed by 16 non-zero guard bytes",
                      "alphabet: NUL, 'a', U+00E9, U+20AC, U+10348 as whole characters"]
    c.finish({"behaviours_replayed": b1 + b2, "replay_steps": s1 + s2, "trace_events_validated": nev, "exhaustive": True,
              "evaluations": b1 + b2, "distinct_nontrivial": n1 + n2,
              "rule": "every word of <= MaxChars alphabet characters x {From<&str>, From<String>, From<&[u8]>} through a fixed script, plus every operation sequence of the stated depth over 6 representative inputs"})


def replay(path):
    c = Check(PROP, "quick")
    rt = os.path.join(cargo_build("rt"), "rt")
    lib.replay_one(c, rt, ["cstr"], path, "Trace_CString", "Trace_CString.cfg")
