"""C03 — everything crossing the boundary is FFI-safe by the compiler's own rules.  spec/Shapes.tla."""
import lib
from lib import Check
from props import grammar

PROP = "C03"


def run(tier):
    c = Check(PROP, tier)
    cov = grammar.run_lint(c, tier)
    c.assumptions += ["the final judge is rustc's improper_ctypes / improper_ctypes_definitions lints on the current toolchain",
                      "compositions the generator does not unwrap (tuples, Rust-ABI fn pointers, Option<&str>, ...) are outside the antecedent; two of them serve as canaries that the lint is active"]
    c.finish(cov)


def replay(path):
    run("quick")
