"""C19 — a waker crossing the boundary wakes the original and is released once.  spec/Waker.tla."""
import os
import lib
from lib import Check, cargo_build, run_tlc

PROP = "C19"


def run(tier):
    c = Check(PROP, tier)
    quick = tier == "quick"
    lib.mc_step(c, "MC_Waker", "MC_Waker.cfg" if quick else "MC_Waker_thorough.cfg", workers=8 if quick else 16, what="Waker spec")
    # the deviation that models the pre-fix code must break the invariant (guards against a vacuous spec)
    d = run_tlc("MC_Waker", "MC_Waker_dev.cfg", workers=2, timeout=300)
    if not d.violation:
        raise lib.ToolError("deviation release_per_handle no longer violates ReleasedAtMostOnce: spec is vacuous")
    c.cov["deviation_witness"] = "MC_Waker_dev.cfg: " + d.violation
    rt = os.path.join(cargo_build("rt"), "rt")
    jsonl, nb = lib.gen_step(c, "Gen_Waker", "Gen_Waker.cfg" if quick else "Gen_Waker_thorough.cfg", "gen_waker")
    tb = ts = 0
    for fl in ["future", "stream", "sink"]:
        b, s = lib.replay_step(c, rt, ["waker"], jsonl, ["--fw", "3", "--threads", "2", "--flavour", fl], parts=4, label="(%s)" % fl,
                               what="waker bridge diverges from the specification")
        tb += b
        ts += s
    n = 150 if quick else 3000
    jsonl2, nb2 = lib.gen_step(c, "Gen_Waker", "Gen_Waker_sim.cfg", "gen_waker_sim", simulate="num=%d" % n, workers=4, seed_=lib.seed())
    b, s = lib.replay_step(c, rt, ["waker"], jsonl2, ["--fw", "5", "--threads", "3", "--flavour", "future"], parts=4,
                           what="waker bridge diverges from the specification (long behaviour)")
    tb += b
    ts += s
    nfiles, events = (2, 3000) if quick else (12, 30000)
    nev = lib.trace_step(c, rt, ["waker"], "Trace_Waker", "Trace_Waker.cfg", nfiles, events, ["--fw", "6", "--threads", "3"])
    c.assumptions += ["the original waker is an Arc-based counting waker kept alive by 64 extra references, so a double release is observed as a count",
                      "record identity of a foreign waker is read through Waker::data()",
                      "interleaving granularity = one waker operation"]
    c.finish({"behaviours_replayed": tb, "replay_steps": ts, "trace_events_validated": nev, "exhaustive": True,
              "evaluations": tb, "distinct_nontrivial": nb + nb2, "flavours": ["Future", "Stream", "Sink"],
              "rule": "all behaviours of Gen_Waker up to its depth, polled through opaque Future/Stream/Sink objects, + TLC -simulate behaviours of depth 60"})


def replay(path):
    c = Check(PROP, "quick")
    rt = os.path.join(cargo_build("rt"), "rt")
    lib.replay_one(c, rt, ["waker"], path, "Trace_Waker", "Trace_Waker.cfg")
