"""C10 — CArc and CArcSome behave as Arc and Option<Arc>.  spec/CArc.tla bound to cglue::arc."""
import os
import lib
from lib import Check, cargo_build

PROP = "C10"


def run(tier):
    c = Check(PROP, tier)
    quick = tier == "quick"
    lib.mc_step(c, "MC_CArc", "MC_CArc.cfg" if quick else "MC_CArc_thorough.cfg", workers=8 if quick else 16, what="CArc spec")
    rt = os.path.join(cargo_build("rt"), "rt")
    # spec -> impl, exhaustive short behaviours (ops executed on the OS thread the spec names)
    jsonl, nb = lib.gen_step(c, "Gen_CArc", "Gen_CArc.cfg" if quick else "Gen_CArc_thorough.cfg", "gen_carc")
    tb, ts = lib.replay_step(c, rt, ["arc"], jsonl, ["--slots", "3", "--allocs", "2", "--threads", "2"], parts=8,
                             what="CArc/CArcSome diverge from Arc semantics")
    # the same behaviours over an over-aligned payload (#[repr(align(64))]: the counters sit further in front of the value)
    tbo, tso = lib.replay_step(c, rt, ["arc64"], jsonl, ["--slots", "3", "--allocs", "2", "--threads", "2"], parts=8, label="(payload aligned to 64)",
                               what="CArc/CArcSome diverge from Arc semantics")
    tb += tbo
    ts += tso
    # ... and over a payload without drop glue (plain data): the last release still frees the allocation
    tbo, tso = lib.replay_step(c, rt, ["arcpod"], jsonl, ["--slots", "3", "--allocs", "2", "--threads", "2"], parts=8, label="(payload without drop glue)",
                               what="CArc/CArcSome diverge from Arc semantics")
    tb += tbo
    ts += tso
    # spec -> impl, long random behaviours
    n = 200 if quick else 4000
    jsonl2, nb2 = lib.gen_step(c, "Gen_CArc", "Gen_CArc_sim.cfg", "gen_carc_sim", simulate="num=%d" % n, workers=4, seed_=lib.seed(),
                                limit=None if quick else 30000)  # -simulate prints far more behaviours than asked for (2.9 GB at num=5000)
    tb2, ts2 = lib.replay_step(c, rt, ["arc"], jsonl2, ["--slots", "5", "--allocs", "3", "--threads", "3"], parts=4,
                               what="CArc/CArcSome diverge from Arc semantics (long behaviour)")
    if not quick:
        tbo, tso = lib.replay_step(c, rt, ["arc64"], jsonl2, ["--slots", "5", "--allocs", "3", "--threads", "3"], parts=4, label="(payload aligned to 64)",
                                   what="CArc/CArcSome diverge from Arc semantics (long behaviour)")
        tb2 += tbo
        ts2 += tso
    # impl -> spec
    nfiles, events = (2, 3000) if quick else (12, 30000)
    nev = lib.trace_step(c, rt, ["arc"], "Trace_CArc", "Trace_CArc.cfg", nfiles, events,
                         ["--slots", "6", "--allocs", "3", "--threads", "3"])
    # impl -> spec, free-running threads (no scheduling by the driver): TLC validates a linearisation and the joined state
    import subprocess, json as _json
    wd = lib.workdir("c10")
    rounds, ops = (20, 200) if quick else (100, 300)
    conc_events = 0
    for k in range(2 if quick else 6):
        tr = os.path.join(wd, "conc_%d.ndjson" % k)
        rc, summ, out = lib.run_adapter([rt, "arc", "conc", tr, "--seed", str(lib.seed() + k), "--rounds", str(rounds), "--threads", "3", "--per", "2",
                                         "--allocs", "3", "--ops", str(ops)])
        if rc != 0 or summ is None:
            c.violation("free-running concurrent driver crashed (rc=%s)" % rc, None, replay_path=tr)
            continue
        r = lib.run_tlc("Trace_CArc", "Trace_CArc.cfg", name="trace_carc_conc", workers=1, env={"TRACE": tr}, depth_first=True, timeout=1200)
        nev = sum(1 for _ in open(tr))
        if r.violation or r.distinct < nev + 1:
            evs = open(tr).read().splitlines()
            bad = evs[r.depth - 1] if 0 < r.depth <= len(evs) else ""
            c.violation("trace of concurrently issued operations rejected by CArc.tla at event %d: %s" % (r.depth, bad[:400]), None, replay_path=tr)
        else:
            conc_events += nev
            c.cov["traces_validated_against_impl"] += 1
            c.add_tlc("Trace_CArc.cfg (free-running threads)", r, exhaustive=False)
    c.cov["concurrent_events_validated"] = conc_events
    markers(c)
    c.assumptions += ["scheduled replays: interleaving granularity = one public operation; free-running mode: 3 OS threads operate on their own handles of shared allocations at once, events are ordered by a global sequence number taken at completion (operations of different threads touch disjoint slots, so every merge that respects per-thread order is an admissible linearisation) and the counts are compared after the threads have joined",
                      "payloads: an ordinary struct with a destructor, one with #[repr(align(64))], one without drop glue (allocations made from a value are skipped there: only destructor counts could observe them)", "strong count is read through a std Arc retained by the environment; allocations created by From<T> are observed through destructor counts only"]
    c.finish({"behaviours_replayed": tb + tb2, "replay_steps": ts + ts2, "trace_events_validated": nev,
              "exhaustive": True, "evaluations": tb + tb2, "distinct_nontrivial": nb + nb2,
              "rule": "all behaviours of Gen_CArc up to its depth (canonical destination slot) + TLC -simulate behaviours of depth 40; each replayed with operations executed on the thread the spec names"})


def markers(c):
    """"on any number of threads": a CArc / CArcSome may be sent or shared exactly when the Arc it stands for may
    (spec/SendSync.tla, BaseHas: Arc<T> is Send and Sync iff T is both).  Read with the marker probe of C09."""
    import json
    wd = lib.workdir("c10")
    out = os.path.join(wd, "sendsync.out")
    lib.run_tlc("SendSync", "SendSync.cfg", name="sendsync_c10", workers=1, timeout=300, out_path=out)
    jl = os.path.join(wd, "pred.jsonl")
    if lib.extract_replays(out, jl) != 1:
        raise lib.ToolError("SendSync.tla printed no matrix")
    pred = {(x["w"], x["i"], x["p"]): x for x in json.loads(open(jl).read())["cells"]}
    bindir = cargo_build("probes", bins=["sendprobe"])
    rc, _, outp = lib.run_adapter([os.path.join(bindir, "sendprobe")])
    if rc != 0:
        raise lib.ToolError("send/sync probe failed to run")
    n = 0
    for cell in json.loads(outp.strip().splitlines()[-1]):
        if cell["w"] == "inst" and cell["i"] in ("carc", "carcsome") and cell["exists"]:
            p = pred.get(("inst", cell["i"], cell["p"]))
            for m in ("Send", "Sync"):
                n += 1
                if p is not None and cell["base"][m] != p["base"][m]:
                    c.violation("%s over a %s payload is %s%s, the Arc it stands for is %s%s" % (
                        {"carc": "CArc", "carcsome": "CArcSome"}[cell["i"]], cell["p"], "" if cell["base"][m] else "not ", m, "" if p["base"][m] else "not ", m), {"cell": cell})
    c.cov["marker_cells"] = n


def replay(path):
    c = Check(PROP, "quick")
    rt = os.path.join(cargo_build("rt"), "rt")
    lib.replay_one(c, rt, ["arc"], path, "Trace_CArc", "Trace_CArc.cfg")
