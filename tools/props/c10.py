"""C10 — CArc and CArcSome behave as Arc and Option<Arc>.  spec/CArc.tla bound to cglue::arc."""
import os
import lib
from lib import Check, cargo_build

PROP = "C10"


def run(tier):
    c = Check(PROP, tier)
    quick = tier == "quick"
    lib.mc_step(c, "MC_CArc", "MC_CArc.cfg" if quick else "MC_CArc_thorough.cfg", workers=8 if quick else 16, what="CArc spec")
    rt = os.path.join(cargo_build("rt"), "rt")
    # spec -> impl, exhaustive short behaviours (ops executed on the OS thread the spec names)
    jsonl, nb = lib.gen_step(c, "Gen_CArc", "Gen_CArc.cfg" if quick else "Gen_CArc_thorough.cfg", "gen_carc")
    tb, ts = lib.replay_step(c, rt, ["arc"], jsonl, ["--slots", "3", "--allocs", "2", "--threads", "2"], parts=8,
                             what="CArc/CArcSome diverge from Arc semantics")
    # spec -> impl, long random behaviours
    n = 300 if quick else 5000
    jsonl2, nb2 = lib.gen_step(c, "Gen_CArc", "Gen_CArc_sim.cfg", "gen_carc_sim", simulate="num=%d" % n, workers=4, seed_=lib.seed())
    tb2, ts2 = lib.replay_step(c, rt, ["arc"], jsonl2, ["--slots", "5", "--allocs", "3", "--threads", "3"], parts=4,
                               what="CArc/CArcSome diverge from Arc semantics (long behaviour)")
    # impl -> spec
    nfiles, events = (2, 3000) if quick else (12, 30000)
    nev = lib.trace_step(c, rt, ["arc"], "Trace_CArc", "Trace_CArc.cfg", nfiles, events,
                         ["--slots", "6", "--allocs", "3", "--threads", "3"])
    c.assumptions += ["interleaving granularity = one public operation (each touches the shared count through a single std atomic RMW)",
                      "strong count is read through a std Arc retained by the environment; allocations created by From<T> are observed through destructor counts only"]
    c.finish({"behaviours_replayed": tb + tb2, "replay_steps": ts + ts2, "trace_events_validated": nev,
              "exhaustive": True, "evaluations": tb + tb2, "distinct_nontrivial": nb + nb2,
              "rule": "all behaviours of Gen_CArc up to its depth (canonical destination slot) + TLC -simulate behaviours of depth 40; each replayed with operations executed on the thread the spec names"})


def replay(path):
    c = Check(PROP, "quick")
    rt = os.path.join(cargo_build("rt"), "rt")
    lib.replay_one(c, rt, ["arc"], path, "Trace_CArc", "Trace_CArc.cfg")
