"""Program-space checks over spec/Shapes.tla: every enumerated trait definition is rendered, expanded by
the real generator, compiled against /repo and executed / linted.  Used by C01, C02, C03, C13."""
import re
import json, os, subprocess, sys
import lib
from lib import workdir, run_tlc, cargo_build

HERE = os.path.dirname(os.path.dirname(os.path.dirname(os.path.abspath(__file__))))
SHIPPED = ["boxed.rs", "arc.rs", "slice.rs", "vec.rs", "option.rs", "result.rs", "callback.rs", "iter.rs",
           "tuple.rs", "repr_cstring.rs", "trait_group.rs", "forward.rs", "task/mod.rs"]


def enumerate_defs(c, tier):
    mode = "pairs" if tier == "quick" else "full"
    wd = workdir("grammar_%s" % mode)
    out = os.path.join(wd, "shapes.out")
    r = run_tlc("Shapes", "Shapes_%s.cfg" % mode, name="shapes_%s_%s" % (mode, c.prop), workers=1, timeout=600, out_path=out)
    jl = os.path.join(wd, "shapes_%s.jsonl" % c.prop)
    if lib.extract_replays(out, jl) != 1:
        raise lib.ToolError("Shapes.tla printed no definitions")
    c.add_tlc("Shapes_%s.cfg" % mode, r)
    data = json.loads(open(jl).read())
    return wd, jl, len(data["defs"]), mode


def build_progs(c, tier):
    wd, jl, ndefs, mode = enumerate_defs(c, tier)
    crate = os.path.join(lib.HARNESS, "generated", "progs_%s" % mode)
    os.makedirs(crate, exist_ok=True)
    p = subprocess.run([sys.executable, os.path.join(HERE, "tools", "render_progs.py"), jl, crate], capture_output=True, text=True)
    if p.returncode != 0:
        raise lib.ToolError("renderer failed: " + p.stderr[-800:])
    lock = os.path.join(lib.HARNESS, "Cargo.lock.repo")
    open(os.path.join(crate, "Cargo.lock"), "w").write(open(lock).read())
    os.makedirs(os.path.join(crate, ".cargo"), exist_ok=True)
    open(os.path.join(crate, ".cargo", "config.toml"), "w").write("[net]\noffline = true\n")
    td = os.path.join(lib.HARNESS, "target", "progs_%s" % mode)
    pb = subprocess.run(["cargo", "build", "--offline", "--target-dir", td], cwd=crate, capture_output=True, text=True, env=lib.cargo_env())
    if pb.returncode != 0:
        # a definition of the supported grammar that no longer compiles against /repo: the generator changed
        # what it accepts; nothing can be said about run-time behaviour
        raise lib.ToolError("generated program crate does not compile against /repo:\n" + pb.stderr[-2500:])
    index = json.load(open(os.path.join(crate, "index.json")))
    return os.path.join(td, "debug", "progs"), index, ndefs


CLASS_OF = {"C01": "c01", "C02": "c02", "C13": "c13", "C07": "c07"}


def run_progs(c, tier, prop):
    binp, index, ndefs = build_progs(c, tier)
    rc, summ, out = lib.run_adapter([binp], timeout=1200)
    if rc != 0 or summ is None:
        if prop == "C01":
            c.violation("generated program crate crashed (rc=%s) while calling through opaque objects" % rc, {"bin": binp})
        return {"program_space": "crashed"}
    own = CLASS_OF[prop]
    byk = {e["k"]: e for e in index}
    n_own = 0
    for f in summ["first_failures"]:
        dd = (byk.get(f["def"]) or byk.get(f["def"] // 10, {})).get("d") or {}
        classes = {f["class"]}
        # a result that differs on a method using integer result codes also speaks for C13 (end-to-end clause)
        if f["class"] in ("c01", "c02") and "result" in f["msg"] and dd.get("ir"):
            classes.add("c13")
        if own in classes:
            n_own += 1
            if n_own <= 3:
                d = byk.get(f["def"]) or byk.get(f["def"] // 10, {})
                c.violation("definition %s via %s: %s" % (json.dumps(d.get("d")), f["cont"], f["msg"]), {"failure": f, "definition": d})
        else:
            lst = c.cov.setdefault("other_property_divergences", [])
            if len(lst) < 5:
                lst.append("class=%s def=%s: %s" % (f["class"], f["def"], f["msg"][:160]))
    c.sample({"definition": index[0], "cases_per_definition": "direct + every admissible container x 2 argument values x 2 initial states"})
    return {"program_space": "%d single-method trait definitions enumerated by Shapes.tla (%s), %d cases executed" % (ndefs, tier, summ["cases"]),
            "programs": ndefs, "program_cases": summ["cases"]}


def run_for(c, tier, prop):
    if prop in ("C01", "C02"):
        return run_progs(c, tier, prop)
    if prop == "C13":
        cov = run_progs(c, tier, prop)
        cov["trait_level"] = "int_result / no-int_result definitions of the grammar (Result<u64,()> and Result<(),()> returns, Ok and Err variants) executed through every container; see program_space"
        return cov
    return {}


# ------------------------------------------------------------------------------------------------
# C03: FFI lint + repr scan
# ------------------------------------------------------------------------------------------------
def norm(t):
    import re
    t = t.replace(" ", "")
    t = re.sub(r"'[a-z_]+,?", "", t)            # lifetimes
    t = t.replace("&mut", "&mut~")
    t = re.sub(r"(::)?([a-z_]+::)+", "", t)      # module paths
    return t.replace("~", "").replace("<>", "")


def run_lint(c, tier):
    wd, jl, ndefs, mode = enumerate_defs(c, tier)
    lint = os.path.join(wd, "lint")
    os.makedirs(lint, exist_ok=True)
    p = subprocess.run([sys.executable, os.path.join(HERE, "tools", "render_progs.py"), jl, lint, "--lint"], capture_output=True, text=True)
    if p.returncode != 0:
        raise lib.ToolError("renderer failed: " + p.stderr[-800:])
    bindir = cargo_build("gen")
    gen = os.path.join(bindir, "gen")
    exp = os.path.join(lint, "exp")
    pg = subprocess.run([gen, "split", os.path.join(lint, "src", "defs.rs"), exp], capture_output=True, text=True)
    if pg.returncode != 0:
        raise lib.ToolError("cglue-gen failed to expand the grammar: " + pg.stderr[-1500:])
    index = json.load(open(os.path.join(lint, "index.json")))
    layouts = json.load(open(os.path.join(exp, "layout.json")))
    sys.path.insert(0, os.path.join(HERE, "tools"))
    import lintcrate
    res = lintcrate.build(exp, os.path.join(lint, "index.json"), os.path.join(lint, "crate"), os.path.join(lib.HARNESS, "target", "lint_%s" % mode))
    if res["errors"]:
        raise lib.ToolError("lint crate does not compile: %s" % json.dumps(res["errors"][:3])[:1500])
    canaries = {e["k"] for e in index if e.get("canary")}
    hit = {}
    for d in res["diagnostics"]:
        hit.setdefault(d["k"], []).append(d)
    if not all(k in hit for k in canaries):
        raise lib.ToolError("FFI lint did not fire on the canary definitions: the lint is not active on these expansions")
    c.cov["lint_canaries"] = {str(k): hit[k][0]["text"][:160] for k in canaries}
    byk = {e["k"]: e for e in index}
    n_struct = 0
    for e in index:
        k = e["k"]
        if e.get("canary"):
            continue
        # (1) rustc's verdict on vtable fields, wrapper fns and concrete instantiations
        mine = hit.get(k, [])
        if e.get("user_abi"):
            # the user's own `extern "C"` declarations (and the forwarding impls that repeat them) are not generated
            # signatures: only the concrete instantiations are judged by the lint, the wrappers structurally
            mine = [d for d in mine if not d["where"].split(":")[0].endswith("d%d.rs" % k)]
            for it in layouts.get("d%d" % k, []):
                if it["kind"] == "fn" and it["name"].startswith("cglue_wrapped_"):
                    tys = [a[1] for a in it["args"]] + [it["ret"]]
                    raw = [t for t in tys if re.search(r"&\s*(mut\s*)?\[|&\s*(mut\s*)?str\b|\bOption\s*<|\bResult\s*<|\bimpl\b", re.sub(r"'\w+\s*", "", t))]
                    if it["abi"] != "C" or raw:
                        c.violation("generated wrapper %s of a method the user declared extern \"C\" has a signature that is not C-representable: %s" % (it["name"], raw or it["abi"]),
                                    {"definition": e, "fn": it})
        for d in mine[:1]:
            c.violation("rustc FFI lint rejects generated code of definition %s: %s [%s] %s" % (json.dumps(e["d"]), d["text"], d["where"], d["snippet"]),
                        {"definition": e, "diagnostic": d})
        tbl = layouts.get("d%d" % k, [])
        # (2) every generated struct has a defined C representation
        for it in tbl:
            if it["kind"] == "struct":
                n_struct += 1
                if not any(r in ("(C)", "(transparent)") for r in it["repr"]):
                    c.violation("generated struct %s of definition %s has no #[repr(C)]/#[repr(transparent)]" % (it["name"], json.dumps(e["d"])),
                                {"definition": e, "struct": it})
        # (3) binding: the wrapper's signature is the one the specification predicts (model drift otherwise)
        for it in tbl:
            if it["kind"] == "fn" and it["name"] == "cglue_wrapped_m" and e.get("sig"):
                if it["abi"] != "C":
                    c.violation("vtable entry of definition %s is not extern \"C\" (abi %s)" % (json.dumps(e["d"]), it["abi"]), {"definition": e, "fn": it})
                got = [norm(a[1]) for a in it["args"]]
                want = [norm(x) for x in e["sig"]["params"]]
                if got != want or norm(it["ret"]) != norm(e["sig"]["ret"]):
                    c.drift("definition %s: generated C signature %s -> %s, Shapes!CSig predicts %s -> %s" % (json.dumps(e["d"]), got, it["ret"], want, e["sig"]["ret"]))
    # shipped wrapper types
    n_ship = 0
    for f in SHIPPED:
        outp = os.path.join(lint, "scan_%s.json" % f.replace("/", "_"))
        ps = subprocess.run([gen, "scan", os.path.join(lib.REPO, "cglue", "src", f), outp], capture_output=True, text=True)
        if ps.returncode != 0:
            raise lib.ToolError("cannot scan %s: %s" % (f, ps.stderr[-500:]))
        for it in json.load(open(outp)):
            if it["kind"] in ("struct", "enum"):
                # the C-compatible wrapper types the library ships: public, not serde-only helpers;
                # the waker bridge structs are private but cross the boundary by value
                serde_only = any("serde" in x for x in it.get("cfg", []))
                if serde_only or (not it.get("pub") and f != "task/mod.rs") or it["name"] in ("PollFn",):
                    continue
                if f == "trait_group/specify.rs":
                    continue
                n_ship += 1
                if not any(r.startswith("(C") or r.startswith("(transparent") or r.startswith("(u8") for r in it["repr"]):
                    c.violation("shipped type %s in cglue/src/%s has no defined C representation (repr %s)" % (it["name"], f, it["repr"]),
                                {"file": f, "type": it})
    c.sample({"definition": index[0], "layout": layouts.get("d%d" % index[0]["k"], [])[:2]})
    return {"programs": ndefs, "generated_structs_checked": n_struct, "shipped_types_checked": n_ship,
            "lint_diagnostics_on_grammar": sum(len(v) for k, v in hit.items() if k not in canaries),
            "evaluations": ndefs, "distinct_nontrivial": ndefs, "exhaustive": tier != "quick",
            "rule": "every definition enumerated by Shapes.tla (%s): expansion by the real cglue-gen written out as ordinary source, cargo check with improper_ctypes lints on vtable fields, wrapper fns and Box/ArcBox/Ref/Mut instantiations" % mode}
