"""C08 on spec/CGlueObj.tla (see objcommon.py)."""
import os
import lib
from lib import Check, cargo_build
from props import objcommon

PROP = "C08"


def run(tier):
    c = Check(PROP, tier)
    cov = objcommon.run(c, tier)
    from props import castmatrix
    cov.update(castmatrix.run(c, tier))
    c.finish(cov)


def replay(path):
    c = Check(PROP, "quick")
    rt = os.path.join(cargo_build("rt"), "rt")
    lib.replay_one(c, rt, ["obj"], path, "Trace_CGlueObj", "Trace_CGlueObj.cfg")
