"""C02 — arguments and results cross the boundary without loss or alteration.  spec/Shapes.tla."""
import lib
from lib import Check
from props import grammar

PROP = "C02"


def run(tier):
    c = Check(PROP, tier)
    cov = grammar.run_for(c, tier, PROP)
    c.assumptions += ["values per shape: two representative values incl. empty/extreme ones; by-reference shapes are compared by address as well as contents",
                      "oracle: digest computed by the caller before the call = digest logged by the callee; caller-visible state after the call = same as after the direct call"]
    cov.update({"evaluations": cov.get("program_cases", 0), "distinct_nontrivial": cov.get("programs", 0), "exhaustive": tier != "quick",
                "rule": "every definition enumerated by Shapes.tla x every admissible container x 2 argument values x 2 initial states"})
    c.finish(cov)


def replay(path):
    run("quick")
