#!/usr/bin/env python3
"""Runs every stored seeded change against the quick check of its property (tools/seedtest.py applies the
change to /repo, runs the check, reverts).  Regression suite for the machinery itself: every line must
say rc=1.     python3 tools/seedsuite.py [name ...]"""
import json, os, subprocess, sys
V = os.path.dirname(os.path.dirname(os.path.abspath(__file__)))
names = sys.argv[1:] or sorted(os.listdir(os.path.join(V, "seeded")))
bad = []
for n in names:
    d = os.path.join(V, "seeded", n)
    meta = json.load(open(os.path.join(d, "meta.json")))
    prop = meta["property"]
    p = subprocess.run([sys.executable, os.path.join(V, "tools", "seedtest.py"), os.path.join(d, "patch.diff"), prop], capture_output=True, text=True)
    last = (p.stdout.strip().splitlines() or ["{}"])[-1]
    try:
        rc = json.loads(last).get("rc")
    except ValueError:
        rc = "?"
    print("%-8s %s rc=%s" % (n, prop, rc), flush=True)
    if rc != 1:
        bad.append(n)
        print("   " + last[:300], flush=True)
print("NOT DETECTED: %s" % bad if bad else "all %d seeded changes detected" % len(names))
sys.exit(1 if bad else 0)
