#!/usr/bin/env python3
"""MANIFEST.setup_cmd: build the harness once, offline, against /repo's working tree."""
import os, subprocess, sys
sys.path.insert(0, os.path.dirname(os.path.abspath(__file__)))
import lib

def main():
    os.makedirs(lib.WORK, exist_ok=True)
    os.makedirs(lib.EVID, exist_ok=True)
    try:
        for pkg in ("rt", "gen", "probes"):
            lib.cargo_build(pkg)
    except lib.ToolError as e:
        print(e)
        sys.exit(2)
    import glob
    for f in sorted(glob.glob(os.path.join(lib.SPEC, "*.tla"))):
        lib.sany(os.path.basename(f)[:-4])
    print("setup ok")

if __name__ == "__main__":
    main()
