#!/usr/bin/env python3
"""Renders spec/LayoutCheck.tla's (definition, single-edit variant) pairs into a crate built with the
layout_checks feature; the crate compares the StableAbi layout descriptions with cglue's own
compare_layouts and prints the verdicts.   render_layoutchk.py <lchk.jsonl> <out_dir>"""
import json, os, sys

RECV = {"ref": "&self", "mut": "&mut self", "own": "self"}
RET = {"i64": "i64", "u64": "u64", "u32": "u32", "u8": "u8", "res": "Result<u64, ()>"}
DFLT = {"i64": "0", "u64": "0", "u32": "0", "u8": "0", "res": "Ok(0)"}
WRAP = {"cb": "OpaqueCallback<%s>", "it": "CIterator<%s>", "sl": "&[%s]", "op": "Option<%s>", "vec": "CVec<%s>", "tup": "CTup2<%s, u8>", "box": "CBox<'static, %s>"}


def ty(t):
    if "_" in t:
        w, e = t.split("_")
        return WRAP[w] % e
    return RET.get(t, t)


def trait_src(d):
    lines = []
    if d["ir"]:
        lines.append("    #[int_result]")
    lines.insert(0, "    #[cglue_trait]")
    lines.append("    pub trait T {")
    for m in d["ms"]:
        args = "".join(", %s%d: %s" % (m.get("argnames", "a"), i, ty(t)) for i, t in enumerate(m["args"]))
        body = ";"
        if m["dflt"] or m["skip"]:
            body = " { %s }" % DFLT[m["ret"]]
        if m["doc"]:
            lines.append("        /// Documentation does not cross the boundary.")
        if m["skip"]:
            lines.append("        #[skip_func]")
        if m.get("ir"):
            lines.append("        #[int_result]")
        lines.append("        fn %s(%s%s) -> %s%s" % (m["name"], RECV[m["recv"]], args, ty(m["ret"]), body))
    lines.append("    }")
    # LayoutCheck!Reach "via_return": a root whose method returns an object of the (edited) trait
    lines.append("    #[cglue_trait]\n    pub trait Outer {\n        #[wrap_with_obj(T)]\n        type Ret: T + 'static;\n        fn get(&self) -> Self::Ret;\n    }")
    return "\n".join(lines)


def main():
    data = json.loads(open(sys.argv[1]).read())
    out = sys.argv[2]
    os.makedirs(os.path.join(out, "src"), exist_ok=True)
    traits = sorted(data["traits"], key=lambda t: t["name"])
    groups = sorted(data["groups"], key=lambda t: t["name"])
    src = ["#![allow(unused, clippy::all)]\nuse cglue::prelude::v1::*;\nuse cglue::*;\nuse cglue::trait_group::compare_layouts;\nuse abi_stable::StableAbi;\n"]
    base = [t for t in traits if t["name"] == "identical"][0]
    src.append("pub mod base {\n    use super::*;\n%s\n}\n" % trait_src(base["def"]))
    for t in traits:
        src.append("pub mod e_%s {\n    use super::*;\n%s\n}\n" % (t["name"], trait_src(t["def"])))
    # every group module defines its own member traits (so that a member can differ between two builds of "the same" group)
    def members(g):
        out = []
        for n in "TUVW":
            aty = "u32" if n in g.get("tweak", []) else "u64"
            out.append("    #[cglue_trait]\n    pub trait M%s {\n        fn f_%s(&self, a: %s) -> u64;\n    }\n" % (n, n.lower(), aty))
        return "".join(out)
    gbase = [g for g in groups if g["name"] == "identical"][0]

    def gmac(g):
        return "cglue_trait_group!(G, { %s }, { %s });" % (", ".join("M" + x for x in g["mand"]), ", ".join("M" + x for x in g["opt"]))
    src.append("pub mod gbase {\n    use super::*;\n%s    %s\n}\n" % (members(gbase["def"]), gmac(gbase["def"])))
    for g in groups:
        src.append("pub mod g_%s {\n    use super::*;\n%s    %s\n}\n" % (g["name"], members(g["def"]), gmac(g["def"])))
    src.append("fn v(x: VerifyLayout) -> &'static str { match x { VerifyLayout::Valid => \"Valid\", VerifyLayout::Invalid => \"Invalid\", VerifyLayout::Unknown => \"Unknown\" } }\n")
    src.append("fn mk(s: &str) -> VerifyLayout { match s { \"Valid\" => VerifyLayout::Valid, \"Invalid\" => VerifyLayout::Invalid, _ => VerifyLayout::Unknown } }\n")
    src.append("fn main() {\n    let mut out: Vec<String> = vec![];\n    let b = <base::TBox<'static> as StableAbi>::LAYOUT;\n    let gb = <gbase::GBox<'static> as StableAbi>::LAYOUT;\n")
    for t in traits:
        src.append("    out.push(format!(\"{{\\\"kind\\\":\\\"trait\\\",\\\"name\\\":\\\"%s\\\",\\\"got\\\":\\\"{}\\\",\\\"rev\\\":\\\"{}\\\"}}\", v(compare_layouts(Some(b), Some(<e_%s::TBox<'static> as StableAbi>::LAYOUT))), v(compare_layouts(Some(<e_%s::TBox<'static> as StableAbi>::LAYOUT), Some(b)))));\n" % (t["name"], t["name"], t["name"]))
    # the same comparisons through VerifyLayout::check::<Expected>(found)
    for t in traits:
        src.append("    out.push(format!(\"{{\\\"kind\\\":\\\"trait\\\",\\\"via\\\":\\\"check_fn\\\",\\\"name\\\":\\\"%s\\\",\\\"got\\\":\\\"{}\\\",\\\"rev\\\":\\\"{}\\\"}}\", v(VerifyLayout::check::<base::TBox<'static>>(Some(<e_%s::TBox<'static> as StableAbi>::LAYOUT))), v(VerifyLayout::check::<e_%s::TBox<'static>>(Some(b)))));\n" % (t["name"], t["name"], t["name"]))
    if "via_return" in data.get("reach", []):
        src.append("    let ob = <base::OuterBox<'static> as StableAbi>::LAYOUT;\n")
        for t in traits:
            src.append("    out.push(format!(\"{{\\\"kind\\\":\\\"trait\\\",\\\"via\\\":\\\"return\\\",\\\"name\\\":\\\"%s\\\",\\\"got\\\":\\\"{}\\\",\\\"rev\\\":\\\"{}\\\"}}\", v(compare_layouts(Some(ob), Some(<e_%s::OuterBox<'static> as StableAbi>::LAYOUT))), v(compare_layouts(Some(<e_%s::OuterBox<'static> as StableAbi>::LAYOUT), Some(ob)))));\n" % (t["name"], t["name"], t["name"]))
    for g in groups:
        src.append("    out.push(format!(\"{{\\\"kind\\\":\\\"group\\\",\\\"name\\\":\\\"%s\\\",\\\"got\\\":\\\"{}\\\",\\\"rev\\\":\\\"{}\\\"}}\", v(compare_layouts(Some(gb), Some(<g_%s::GBox<'static> as StableAbi>::LAYOUT))), v(compare_layouts(Some(<g_%s::GBox<'static> as StableAbi>::LAYOUT), Some(gb)))));\n" % (g["name"], g["name"], g["name"]))
    src.append("    out.push(format!(\"{{\\\"kind\\\":\\\"none\\\",\\\"name\\\":\\\"none_some\\\",\\\"got\\\":\\\"{}\\\"}}\", v(compare_layouts(None, Some(b)))));\n")
    src.append("    out.push(format!(\"{{\\\"kind\\\":\\\"none\\\",\\\"name\\\":\\\"some_none\\\",\\\"got\\\":\\\"{}\\\"}}\", v(compare_layouts(Some(b), None))));\n")
    src.append("    out.push(format!(\"{{\\\"kind\\\":\\\"none\\\",\\\"name\\\":\\\"none_none\\\",\\\"got\\\":\\\"{}\\\"}}\", v(compare_layouts(None, None))));\n")
    src.append("    out.push(format!(\"{{\\\"kind\\\":\\\"none\\\",\\\"name\\\":\\\"check_fn\\\",\\\"got\\\":\\\"{}\\\"}}\", v(VerifyLayout::check::<base::TBox<'static>>(None))));\n")
    for a in data["ands"]:
        src.append("    out.push(format!(\"{{\\\"kind\\\":\\\"and\\\",\\\"a\\\":\\\"%s\\\",\\\"b\\\":\\\"%s\\\",\\\"got\\\":\\\"{}\\\"}}\", v(mk(\"%s\").and(mk(\"%s\")))));\n" % (a["a"], a["b"], a["a"], a["b"]))
    for pr in data.get("preds", []):
        src.append("    out.push(format!(\"{{\\\"kind\\\":\\\"pred\\\",\\\"v\\\":\\\"%s\\\",\\\"strict\\\":{},\\\"relaxed\\\":{}}}\", mk(\"%s\").is_valid_strict(), mk(\"%s\").is_valid_relaxed()));\n" % (pr["v"], pr["v"], pr["v"]))
    src.append("    println!(\"[{}]\", out.join(\",\"));\n}\n")
    open(os.path.join(out, "src", "main.rs"), "w").write("".join(src))
    open(os.path.join(out, "Cargo.toml"), "w").write('[package]\nname = "layoutchk"\nversion = "0.0.0"\nedition = "2018"\n\n[workspace]\n\n[dependencies]\ncglue = { path = "/repo/cglue", features = ["layout_checks"] }\nabi_stable = "0.10"\n')
    os.makedirs(os.path.join(out, ".cargo"), exist_ok=True)
    open(os.path.join(out, ".cargo", "config.toml"), "w").write("[net]\noffline = true\n")
    print(len(traits), len(groups))


if __name__ == "__main__":
    main()
