// ---- hand-written feature definitions (trait generics, lifetimes, attributes, builtin ext traits,
// ---- Self returns, wrapped associated returns): every call is made directly and through opaque
// ---- objects and must agree (class c01)
pub mod extras {
    use super::*;
    use std::fmt::{Debug, Display};

    fn same(rep: &mut Report, what: &str, direct: String, opaque: String) {
        rep.cases += 1;
        if direct != opaque {
            rep.failures.push(format!("{{\"class\":\"c01\",\"def\":900000,\"cont\":\"{}\",\"variant\":0,\"s0\":0,\"msg\":\"through the object: {} / direct: {}\"}}",
                                      what, opaque.replace('"', "'"), direct.replace('"', "'")));
        }
    }

    /// a difference on a method that returns an integer-coded result also speaks for C13 (and the value for C02)
    fn same_ir(rep: &mut Report, what: &str, direct: String, opaque: String) {
        same(rep, what, direct.clone(), opaque.clone());
        if direct != opaque {
            for cls in ["c13", "c02"] {
                rep.failures.push(format!("{{\"class\":\"{}\",\"def\":900000,\"cont\":\"{}\",\"variant\":0,\"s0\":0,\"msg\":\"result through the object: {} / direct: {}\"}}",
                                          cls, what, opaque.replace('"', "'"), direct.replace('"', "'")));
            }
        }
    }

    // integer result codes: trait-level, method-level, opt-out and aliases (C13: "int_result, no_int_result and result aliases")
    pub type AliasResult<T, E> = Result<T, E>;
    #[cglue_trait]
    #[int_result]
    pub trait IrMix {
        fn ir_pay(&self, v: i32) -> Result<u64, std::io::Error>;
        fn ir_unit(&mut self, v: i32) -> Result<(), std::io::Error>;
        #[no_int_result]
        fn ir_plain(&self, v: i32) -> Result<u64, u64>;
    }
    #[cglue_trait]
    #[int_result(AliasResult)]
    pub trait IrAlias {
        fn ia_pay(&self, v: i32) -> AliasResult<u64, std::io::Error>;
        fn ia_unit(&self, v: i32) -> AliasResult<(), std::io::Error>;
        #[no_int_result]
        fn ia_plain(&self, v: i32) -> AliasResult<u64, u64>;
    }
    #[cglue_trait]
    pub trait IrMethod {
        // (an error type that cannot be int-coded comes before the marked method: should the attribute ever leak to later
        // methods, the program must still compile so that the difference shows at run time)
        fn im_plain(&self, v: i32) -> Result<u64, u64>;
        #[int_result]
        fn im_pay(&self, v: i32) -> Result<u64, std::io::Error>;
        // an unmarked method after a marked one, with an error type that could be int-coded: it must not be
        fn im_after(&self, v: i32) -> Result<u64, std::io::Error>;
    }
    // a trait-level attribute AND method-level attributes naming another identifier: the method's own attribute decides
    #[cglue_trait]
    #[int_result]
    pub trait IrBoth {
        fn ib_std(&self, v: i32) -> Result<u64, std::io::Error>;
        #[int_result(AliasResult)]
        fn ib_alias(&self, v: i32) -> AliasResult<u64, std::io::Error>;
        #[int_result(AliasResult)]
        fn ib_alias_unit(&self, v: i32) -> AliasResult<(), std::io::Error>;
    }
    /// odd: an OS error; 7777: an error WITHOUT an OS code - a method that uses integer codes reports it as the code 0xffff
    fn ib_val(base: u64, v: i32) -> Result<u64, std::io::Error> {
        if v == 7777 { Err(std::io::Error::new(std::io::ErrorKind::InvalidData, "not an OS error")) } else { ir_val(base, v) }
    }
    impl IrBoth for Irs {
        fn ib_std(&self, v: i32) -> Result<u64, std::io::Error> { ib_val(self.0 + 3, v) }
        fn ib_alias(&self, v: i32) -> AliasResult<u64, std::io::Error> { ib_val(self.0 + 4, v) }
        fn ib_alias_unit(&self, v: i32) -> AliasResult<(), std::io::Error> { ib_val(self.0, v).map(|_| ()) }
    }
    pub struct Irs(pub u64);
    fn ir_val(base: u64, v: i32) -> Result<u64, std::io::Error> {
        // even: success with a value derived from the state; odd: an OS error carrying v itself (positive and negative codes)
        if v % 2 == 0 { Ok(base.wrapping_mul(31).wrapping_add(v as u64)) } else { Err(std::io::Error::from_raw_os_error(v)) }
    }
    impl IrMix for Irs {
        fn ir_pay(&self, v: i32) -> Result<u64, std::io::Error> { ir_val(self.0, v) }
        fn ir_unit(&mut self, v: i32) -> Result<(), std::io::Error> { self.0 += 1; ir_val(self.0, v).map(|_| ()) }
        fn ir_plain(&self, v: i32) -> Result<u64, u64> { if v % 2 == 0 { Ok(self.0 + 5) } else { Err(v as u32 as u64) } }
    }
    impl IrAlias for Irs {
        fn ia_pay(&self, v: i32) -> AliasResult<u64, std::io::Error> { ir_val(self.0 + 1, v) }
        fn ia_unit(&self, v: i32) -> AliasResult<(), std::io::Error> { ir_val(self.0, v).map(|_| ()) }
        fn ia_plain(&self, v: i32) -> AliasResult<u64, u64> { if v % 2 == 0 { Ok(self.0 + 6) } else { Err(v as u32 as u64) } }
    }
    impl IrMethod for Irs {
        fn im_pay(&self, v: i32) -> Result<u64, std::io::Error> { ir_val(self.0 + 2, v) }
        fn im_plain(&self, v: i32) -> Result<u64, u64> { if v % 2 == 0 { Ok(self.0 + 7) } else { Err(v as u32 as u64) } }
        fn im_after(&self, v: i32) -> Result<u64, std::io::Error> {
            if v % 2 == 0 { Ok(self.0 + 8) } else { Err(std::io::Error::new(std::io::ErrorKind::InvalidData, "not an OS error")) }
        }
    }
    fn show<T: std::fmt::Debug>(r: Result<T, std::io::Error>) -> String {
        format!("{:?}", r.map_err(|e| e.raw_os_error()))
    }

    // generic trait (one instantiation per implementor so that the macros can infer it)
    #[cglue_trait]
    pub trait Gx<T: Copy + Into<i64> + 'static> {
        fn gx_add(&mut self, v: T) -> i64;
        fn gx_peek(&self) -> i64;
    }
    pub struct Acc(pub i64);
    impl Gx<u8> for Acc {
        fn gx_add(&mut self, v: u8) -> i64 { let w: i64 = v.into(); self.0 = self.0 * 3 + w; self.0 }
        fn gx_peek(&self) -> i64 { self.0 + 1 }
    }
    pub struct Acc64(pub i64);
    impl Gx<i64> for Acc64 {
        fn gx_add(&mut self, v: i64) -> i64 { self.0 = self.0.wrapping_mul(5).wrapping_sub(v); self.0 }
        fn gx_peek(&self) -> i64 { self.0.wrapping_add(2) }
    }

    // lifetime-parameterised trait
    #[cglue_trait]
    pub trait Lt<'a, T: Copy + 'a> {
        fn lt_get(&self, k: usize) -> &T;
        fn lt_len(&self) -> usize;
    }
    pub struct Table(pub [u64; 4]);
    impl<'a> Lt<'a, u64> for Table {
        fn lt_get(&self, k: usize) -> &u64 { &self.0[k % 4] }
        fn lt_len(&self) -> usize { 4 }
    }

    // method attributes: unsafe fn, extern "C" fn, default bodies (overridden and not), skip_func
    #[cglue_trait]
    pub trait Attrs {
        unsafe fn a_unsafe(&self, p: *const u64) -> u64;
        extern "C" fn a_c(&self, v: u64) -> u64;
        fn a_default_kept(&self, v: u64) -> u64 { v + 1000 }
        fn a_default_overridden(&self, v: u64) -> u64 { v + 2000 }
        // default bodies behind method-level where clauses, overridden by the implementor
        fn a_sized_overridden(&self, v: u64) -> u64 where Self: Sized { v + 3000 }
        fn a_sized_mut(&mut self, v: u64) -> u64 where Self: Sized { v + 4000 }
        #[skip_func]
        fn a_skipped(&self) -> u64 { 99 }
    }
    pub struct At(pub u64);
    impl Attrs for At {
        unsafe fn a_unsafe(&self, p: *const u64) -> u64 { *p + self.0 }
        extern "C" fn a_c(&self, v: u64) -> u64 { v * 2 + self.0 }
        fn a_default_overridden(&self, v: u64) -> u64 { v + 7 + self.0 }
        fn a_sized_overridden(&self, v: u64) -> u64 { v + 11 + self.0 }
        fn a_sized_mut(&mut self, v: u64) -> u64 { self.0 += v; self.0 }
        fn a_skipped(&self) -> u64 { 5 }
    }

    // Self-returning method and wrapped owned associated object
    #[cglue_trait]
    pub trait Counter {
        fn c_next(&mut self) -> u64;
        fn c_peek(&self) -> u64;
    }
    #[cglue_trait]
    pub trait Spawner {
        #[wrap_with_obj(Counter)]
        type Child: Counter + 'static;
        fn sp_child(&self, from: u64) -> Self::Child;
        fn sp_bump(&mut self) -> u64;
    }
    #[derive(Clone)]
    pub struct Cnt(pub u64);
    impl Counter for Cnt {
        fn c_next(&mut self) -> u64 { self.0 = self.0 * 2 + 1; self.0 }
        fn c_peek(&self) -> u64 { self.0 }
    }
    pub struct Sp(pub u64);
    impl Spawner for Sp {
        type Child = Cnt;
        fn sp_child(&self, from: u64) -> Cnt { Cnt(from + self.0) }
        fn sp_bump(&mut self) -> u64 { self.0 += 10; self.0 }
    }

    #[derive(Clone, Debug)]
    pub struct Shown { pub a: i32, pub b: f64, pub s: &'static str }
    impl Display for Shown {
        fn fmt(&self, f: &mut std::fmt::Formatter<'_>) -> std::fmt::Result {
            if let Some(p) = f.precision() { write!(f, "{}:{:.*}:{}", self.a, p, self.b, self.s) } else { f.pad(&format!("{}/{}", self.a, self.s)) }
        }
    }

    pub fn run(rep: &mut Report) {
        // generics
        {
            let mut d = Acc(2);
            let mut o = Acc(2);
            let mut obj = trait_obj!(&mut o as Gx);
            let mut tr = vec![];
            let mut tr2 = vec![];
            for v in [1u8, 200, 0, 7] { tr.push(d.gx_add(v)); tr.push(d.gx_peek()); tr2.push(obj.gx_add(v)); tr2.push(obj.gx_peek()); }
            same(rep, "generic<u8>", format!("{:?}", tr), format!("{:?}", tr2));
            let mut d = Acc64(3);
            let mut obj = trait_obj!(Acc64(3) as Gx);
            let (mut tr, mut tr2) = (vec![], vec![]);
            for v in [i64::MAX / 7, -5, 0] { tr.push(d.gx_add(v)); tr.push(d.gx_peek()); tr2.push(obj.gx_add(v)); tr2.push(obj.gx_peek()); }
            same(rep, "generic<i64>", format!("{:?}", tr), format!("{:?}", tr2));
        }
        // lifetimes: returned reference must point into the instance
        {
            let t = Table([10, 20, 30, 40]);
            let obj = trait_obj!(&t as Lt);
            for k in 0..6 {
                let r = obj.lt_get(k);
                same(rep, "lifetime", format!("{} {}", t.lt_get(k), t.lt_get(k) as *const u64 as usize), format!("{} {}", r, r as *const u64 as usize));
            }
            same(rep, "lifetime len", format!("{}", t.lt_len()), format!("{}", obj.lt_len()));
        }
        // attributes
        {
            let d = At(3);
            let obj = trait_obj!(At(3) as Attrs);
            let x = 40u64;
            same(rep, "unsafe fn", format!("{}", unsafe { d.a_unsafe(&x) }), format!("{}", unsafe { obj.a_unsafe(&x) }));
            same(rep, "extern C fn", format!("{}", d.a_c(9)), format!("{}", obj.a_c(9)));
            same(rep, "default kept", format!("{}", d.a_default_kept(1)), format!("{}", obj.a_default_kept(1)));
            same(rep, "default overridden", format!("{}", d.a_default_overridden(1)), format!("{}", obj.a_default_overridden(1)));
            same(rep, "default overridden (where Self: Sized)", format!("{}", d.a_sized_overridden(1)), format!("{}", obj.a_sized_overridden(1)));
            let mut d2 = At(3);
            let mut obj2 = trait_obj!(At(3) as Attrs);
            same(rep, "default overridden (&mut self, where Self: Sized)", format!("{} {}", d2.a_sized_mut(5), d2.a_sized_mut(6)), format!("{} {}", obj2.a_sized_mut(5), obj2.a_sized_mut(6)));
        }
        // integer result codes end to end
        {
            let codes = [0i32, 2, 1, 13, 0xfffe + 1, 0x10001, i32::MAX, -1, -21, i32::MIN + 1];
            let mut d = Irs(9);
            let mut o = Irs(9);
            let mut obj = trait_obj!(&mut o as IrMix);
            for v in codes {
                same_ir(rep, "int_result payload", show(d.ir_pay(v)), show(obj.ir_pay(v)));
                same_ir(rep, "int_result unit", show(d.ir_unit(v)), show(obj.ir_unit(v)));
                same_ir(rep, "no_int_result under a trait-level int_result", format!("{:?}", d.ir_plain(v)), format!("{:?}", obj.ir_plain(v)));
            }
            let d = Irs(4);
            let obj = trait_obj!(Irs(4) as IrAlias);
            let objm = trait_obj!(Irs(4) as IrMethod);
            for v in codes {
                same_ir(rep, "int_result(alias) payload", show(d.ia_pay(v)), show(obj.ia_pay(v)));
                same_ir(rep, "int_result(alias) unit", show(d.ia_unit(v)), show(obj.ia_unit(v)));
                same_ir(rep, "no_int_result under int_result(alias)", format!("{:?}", d.ia_plain(v)), format!("{:?}", obj.ia_plain(v)));
                same_ir(rep, "method-level int_result", show(d.im_pay(v)), show(objm.im_pay(v)));
                same_ir(rep, "plain result next to a method-level int_result", format!("{:?}", d.im_plain(v)), format!("{:?}", objm.im_plain(v)));
                same_ir(rep, "io::Error result after a method-level int_result (kind must survive: not int-coded)",
                        format!("{:?}", d.im_after(v).map_err(|e| (e.kind(), e.raw_os_error()))), format!("{:?}", objm.im_after(v).map_err(|e| (e.kind(), e.raw_os_error()))));
            }
        }
        // trait-level and method-level attributes together: all three methods are marked (two by their own attribute, which
        // names the alias they return), so all three cross as integer codes - an error without an OS code arrives as 0xffff
        {
            let d = Irs(5);
            let obj = trait_obj!(Irs(5) as IrBoth);
            let coded = |r: String| r.replace("Err(None)", "Err(Some(65535))");
            for v in [0i32, 2, 1, 13, -21, 7777] {
                same_ir(rep, "trait-level int_result, method without its own attribute", coded(show(d.ib_std(v))), show(obj.ib_std(v)));
                same_ir(rep, "method-level int_result(alias) under a trait-level int_result: not integer-coded", coded(show(d.ib_alias(v))), show(obj.ib_alias(v)));
                same_ir(rep, "method-level int_result(alias) under a trait-level int_result (unit payload): not integer-coded", coded(show(d.ib_alias_unit(v))), show(obj.ib_alias_unit(v)));
            }
        }
        // the vtable entry itself, called the way a foreign caller does, with an output slot that already holds something:
        // Ok = code 0 and the slot written; Err = a non-zero code and every byte of the slot left as it was
        {
            use cglue::trait_group::GetContainer;
            let codes = [0i32, 2, 1, 13, -1, -21, 0x10001];
            let obj = trait_obj!(Irs(9) as IrMix);
            let f = obj.get_vtbl().ir_pay();
            for v in codes {
                let mut slot = core::mem::MaybeUninit::<u64>::new(0xDEAD_BEEF_0BAD_CAFE);
                let code = unsafe { f(obj.ccont_ref(), v, &mut slot) };
                let after = unsafe { slot.assume_init() };
                let want = match Irs(9).ir_pay(v) {
                    Ok(x) => format!("code 0, slot {:#x}", x),
                    Err(_) => format!("code non-zero, slot {:#x}", 0xDEAD_BEEF_0BAD_CAFEu64),
                };
                let got = format!("code {}, slot {:#x}", if code == 0 { "0" } else { "non-zero" }, after);
                same_ir(rep, "int_result vtable entry called with a pre-loaded output slot", want, got);
            }
        }
        // wrapped owned child with its own state; the parent stays usable
        {
            let mut d = Sp(1);
            let mut obj = trait_obj!(Sp(1) as Spawner);
            let mut dc = d.sp_child(5);
            let mut oc = obj.sp_child(5);
            let mut t1 = vec![d.sp_bump(), dc.c_next(), dc.c_next(), dc.c_peek(), d.sp_bump()];
            let mut t2 = vec![obj.sp_bump(), oc.c_next(), oc.c_next(), oc.c_peek(), obj.sp_bump()];
            let dc2 = d.sp_child(0);
            let oc2 = obj.sp_child(0);
            t1.push(dc2.c_peek());
            t2.push(oc2.c_peek());
            same(rep, "wrapped child", format!("{:?}", t1), format!("{:?}", t2));
        }
        // builtin ext traits: Clone keeps state, Debug/Display honour every formatter flag
        {
            let c = Cnt(6);
            let obj = trait_obj!(c.clone() as Clone);
            let obj2 = obj.clone();
            drop(obj);
            let _ = obj2;
            let s = Shown { a: -4, b: 2.718281828, s: "h\u{e9}" };
            let dbg = trait_obj!(s.clone() as Debug);
            let dsp = trait_obj!(s.clone() as Display);
            same(rep, "Debug", format!("{:?}", s), format!("{:?}", dbg));
            // formatter flags (width, fill, precision, `#`) are NOT compared: the builtin fmt traits are
            // library-provided custom implementations that re-format with a plain `{}` on the callee side,
            // which is outside C01's antecedent ("other than ... custom or vtable-only implementation")
            let n = 255usize;
            let grp = trait_obj!(n as Display);
            same(rep, "Display usize", format!("{}", n), format!("{}", grp));
        }
    }
}
