#!/usr/bin/env python3
"""For an API model and the header cglue-bindgen produced for it: predicts the wrapper each vtable
entry must be reachable through (naming rules of the tool's C generator), generates a C driver with
mock vtables / mock box and arc functions that log every event, compiles and runs it.

    bindgen_mock.py <model.json> <processed.h> <workdir>  -> prints ndjson events"""
import json, os, re, subprocess, sys
sys.path.insert(0, os.path.dirname(os.path.abspath(__file__)))
import cbgen

CT = cbgen.CTYPE
PTRS = ("ptr", "vptr", "cvptr")


def split_params(text):
    """top-level comma split of a parameter list (function pointer declarators contain parentheses)"""
    out, depth, cur = [], 0, ""
    for ch in text:
        if ch in "(<[":
            depth += 1
        elif ch in ")>]":
            depth -= 1
        if ch == "," and depth == 0:
            out.append(cur.strip())
            cur = ""
        else:
            cur += ch
    if cur.strip():
        out.append(cur.strip())
    return out


def param_type(p):
    """type of a parameter declaration with the parameter name removed, spaces dropped"""
    m = re.search(r"\(\*\s*(\w+)\s*\)", p)
    if m:
        return (p[:m.start(1)] + p[m.end(1):]).replace(" ", "")
    return re.sub(r"\s*\w+$", "", p).replace(" ", "")


def inline_functions(header_text, prefix="static inline "):
    """(return type, name, [parameter declarations]) of every inline function definition"""
    out = []
    for mm in re.finditer(re.escape(prefix) + r"([^\n(]*?)\b(\w+)\(", header_text):
        i, depth = mm.end(), 1
        while i < len(header_text) and depth:
            depth += {"(": 1, ")": -1}.get(header_text[i], 0)
            i += 1
        out.append((mm.group(1).strip().replace(" ", ""), mm.group(2), split_params(header_text[mm.end():i - 1])))
    return out


def wrapper_names(owner_kind, owner, tr, m, cont, ctx, clash_obj_names, cfg, group_clash=False):
    """candidate names per cglue-bindgen/src/types.rs create_wrappers_c; owner_kind: 'obj' | 'group'.
    Entries whose signature differs from type to type (by-value receiver) carry a container/context prefix;
    for a container-typed result the module documentation promises the same, the generator may also offer
    the generic name - either is accepted as long as its signature fits this instantiation."""
    cfgm = cfg.get("default_container") == cont and cfg.get("default_context") == ("Arc" if ctx == "Arc" else "")
    if owner_kind == "obj":
        typ = tr if (m["name"] == "drop" or m["name"] in clash_obj_names) else None
    else:
        # functions that several traits of the group define are (also) offered under a trait-qualified name
        typ = owner + "_" + tr if group_clash else owner
    ctxp = "" if (ctx == "none" or cfgm) else "arc_"
    contp = "" if cfgm else cont.lower() + "_"
    typed = ((typ.lower() + "_") if typ else "") + ctxp + contp
    generic = (typ.lower() + "_") if typ else ""
    fp = (cfg["function_prefix"] + "_") if cfg.get("function_prefix") else ""
    if m["recv"] == "own":
        return [fp + typed + m["name"]]
    if m.get("ret") == "cont":
        return [fp + typed + m["name"], fp + generic + m["name"]]
    return [fp + generic + m["name"]]


def gen(model, header_text):
    traits = {t["name"]: t for t in model["traits"]}
    cfg = model.get("config", {})
    # method names that appear in more than one single-trait object trait
    seen = {}
    for o in model["objects"]:
        for m in traits[o["trait"]]["methods"]:
            seen.setdefault(m["name"], set()).add(o["trait"])
    clash = {n for n, s in seen.items() if len(s) > 1}
    defined = {}
    for (rett, fname, params) in inline_functions(header_text):
        defined[fname] = {"ret": rett, "params": [param_type(x) for x in params[1:]],
                          "self": param_type(params[0]) if params else ""}
    c = []
    c.append('#include <stdio.h>\n#include <string.h>\n#include "processed.h"\n')
    c.append("static unsigned char SBUF[8] = {1,2,3,4,5,6,7,8};\nstatic int INST; static int INST2; static int CTXV; static int CBX;\n")
    c.append("static bool mock_cb_Pt(void *c, struct Pt v) { (void)c; (void)v; return true; }\nstatic bool mock_cb_u64(void *c, uint64_t v) { (void)c; (void)v; return true; }\n")
    c.append("static void mock_fn(int32_t v) { (void)v; }\n")
    c.append('static void ev(const char *s) { fputs(s, stdout); fputc(10, stdout); }\n')
    c.append('static void mock_box_drop(void *p) { printf("{\\"ev\\":\\"box_drop\\",\\"ok\\":%d}\\n", p == (void *)&INST); }\n')
    c.append('static const void *mock_arc_clone(const void *p) { printf("{\\"ev\\":\\"ctx_clone\\",\\"ok\\":%d}\\n", p == (const void *)&CTXV); return p; }\n')
    c.append('static void mock_arc_drop(const void *p) { printf("{\\"ev\\":\\"ctx_drop\\",\\"ok\\":%d}\\n", p == (const void *)&CTXV); }\n')
    c.append("static const void *EXPECT_CONT;\n")
    calls = []
    expected = []
    rvals = {}
    types = []
    for o in model["objects"]:
        types.append(("obj", o["trait"], [o["trait"]], o["cont"], o["ctx"], cbgen.obj_type(o["trait"], o["cont"], o["ctx"]), cbgen.obj_container(o["trait"], o["cont"], o["ctx"])))
    for g in model["groups"]:
        for i in g["insts"]:
            suf = cbgen.group_suffix(i["cont"], i["ctx"])
            types.append(("group", g["name"], sorted(g["mand"]) + sorted(g["opt"]), i["cont"], i["ctx"], "%s_%s" % (g["name"], suf), "%sContainer_%s" % (g["name"], suf)))
    for ti, (kind, owner, trs, cont, ctx, tname, cname) in enumerate(types):
        # mock slots
        for tr in trs:
            for m in traits[tr]["methods"]:
                fn = "mock_%d_%s_%s" % (ti, tr, m["name"])
                recv = {"ref": "const struct %s *cont" % cname, "mut": "struct %s *cont" % cname, "own": "struct %s cont" % cname}[m["recv"]]
                args = "".join(", " + cbgen.decl(CT[t], "a%d" % i) for i, t in enumerate(m["args"]))
                ret = ("struct %s" % cname) if m["ret"] == "cont" else CT[m["ret"]]
                body = []
                if m["recv"] == "own":
                    body.append('    int cont_ok = (cont.instance%s == (void *)&INST);' % (".instance" if cont == "Box" else ""))
                else:
                    body.append("    int cont_ok = ((const void *)cont == EXPECT_CONT);")
                fmt, vals = [], []
                for i, t in enumerate(m["args"]):
                    if t in ("u64",):
                        fmt.append("%llu"); vals.append("(unsigned long long)a%d" % i)
                    elif t == "i32":
                        fmt.append("%d"); vals.append("a%d" % i)
                    elif t == "Pt":
                        fmt.append("[%d,%lld,%d]"); vals.append("a%d.x, (long long)a%d.y, (int)a%d.z" % (i, i, i))
                    elif t == "slice":
                        fmt.append("[%d,%llu]"); vals.append("(int)(a%d.data - SBUF), (unsigned long long)a%d.len" % (i, i))
                    elif t in PTRS:
                        fmt.append("%d"); vals.append("(int)((const unsigned char *)a%d - SBUF)" % i)
                    elif t in cbgen.CB_ELEM:
                        fmt.append("[%d,%d]"); vals.append("(int)(a%d.context == (void *)&CBX), (int)(a%d.func == mock_cb_%s)" % (i, i, cbgen.CB_ELEM[t][0]))
                    elif t == "fnptr":
                        fmt.append("%d"); vals.append("(int)(a%d == mock_fn)" % i)
                body.append('    printf("{\\"ev\\":\\"slot\\",\\"ty\\":%d,\\"tr\\":\\"%s\\",\\"m\\":\\"%s\\",\\"cont_ok\\":%%d,\\"args\\":[%s]}\\n", cont_ok%s);'
                            % (ti, tr, m["name"], ",".join(fmt), ("," + ",".join(vals)) if vals else ""))
                if m["recv"] == "own":
                    # the Rust callee consumes the container: releases the instance and the context it was handed
                    if cont == "Box":
                        body.append("    if (cont.instance.drop_fn) cont.instance.drop_fn(cont.instance.instance);")
                    if ctx == "Arc":
                        body.append("    if (cont.context.drop_fn) cont.context.drop_fn(cont.context.instance);")
                uid = ti * 100 + len(rvals)
                rvals[(ti, tr, m["name"])] = {"void": [], "u64": [7000 + uid], "i32": [300 + uid], "Pt": [11 + uid, 1000 + uid, 5], "cont": [1, 1, 1],
                                                    "ptr": [1 + uid % 7], "vptr": [1 + uid % 7], "cvptr": [1 + uid % 7]}[m["ret"]]
                # a container-returning entry (Clone-like) hands back a new container: other instance, same context, nothing to release
                newc = "    { struct %s r = *cont; r.instance%s = &INST2;%s%s return r; }" % (
                    cname, ".instance" if cont == "Box" else "", " r.instance.drop_fn = 0;" if cont == "Box" else "",
                    " r.context.clone_fn = 0; r.context.drop_fn = 0;" if ctx == "Arc" else "")
                rv = {"void": "", "u64": "    return %dULL;" % (7000 + uid), "i32": "    return %d;" % (300 + uid),
                      "ptr": "    return SBUF + %d;" % (1 + uid % 7), "vptr": "    return (void *)(SBUF + %d);" % (1 + uid % 7), "cvptr": "    return (const void *)(SBUF + %d);" % (1 + uid % 7),
                      "Pt": "    { struct Pt r; r.x = %d; r.y = %d; r.z = %d; return r; }" % (11 + uid, 1000 + uid, 5), "cont": newc}[m["ret"]]
                c.append("static %s %s(%s%s) {\n%s\n%s\n}\n" % (ret, fn, recv, args, "\n".join(body), rv))
        for tr in trs:
            cs = cname
            c.append("static const struct %sVtbl_%s VT_%d_%s = { %s };\n" % (tr, cs, ti, tr, ", ".join("mock_%d_%s_%s" % (ti, tr, m["name"]) for m in traits[tr]["methods"])))

        def mkobj(var):
            s = ["    struct %s %s;" % (tname, var), "    memset(&%s, 0, sizeof(%s));" % (var, var)]
            if kind == "obj":
                s.append("    %s.vtbl = &VT_%d_%s;" % (var, ti, trs[0]))
            else:
                for tr in trs:
                    s.append("    %s.vtbl_%s = &VT_%d_%s;" % (var, tr.lower(), ti, tr))
            if cont == "Box":
                s.append("    %s.container.instance.instance = &INST; %s.container.instance.drop_fn = mock_box_drop;" % (var, var))
            else:
                s.append("    %s.container.instance = &INST;" % var)
            if ctx == "Arc":
                s.append("    %s.container.context.instance = &CTXV; %s.container.context.clone_fn = mock_arc_clone; %s.container.context.drop_fn = mock_arc_drop;" % (var, var, var))
            return "\n".join(s)
        entries = [(tr, m) for tr in trs for m in traits[tr]["methods"]] + [(trs[0] if kind == "obj" else owner, {"name": "drop", "recv": "own", "args": [], "ret": "void", "is_drop": True})]
        for (tr, m) in entries:
            if m["recv"] == "own" and cont != "Box" and not m.get("is_drop"):
                continue
            gclash = kind == "group" and not m.get("is_drop") and sum(1 for t2 in trs if m["name"] in [x["name"] for x in traits[t2]["methods"]]) > 1
            names = wrapper_names(kind, owner, tr, m, cont, ctx, clash, cfg, gclash)
            want = [CT[t].replace(" ", "") for t in m["args"]]

            def sig_ok(nm):
                return nm in defined and defined[nm]["params"] == want and (m["ret"] != "cont" or defined[nm]["ret"] == ("struct" + tname))
            # The property asks for *a* callable wrapper, not for a naming convention: when the conventional name is
            # absent, any inline function named after the method whose signature fits this object (self as void
            # pointer or as this very object type) is tried, preferring names that mention the trait / the owner.
            def self_ok(nm):
                st = defined[nm]["self"]
                return st in ("void*", "constvoid*") or st.replace("const", "").rstrip("*") == "struct" + tname
            others = [nm for nm in defined if nm not in names and (nm == m["name"] or nm.endswith("_" + m["name"])) and sig_ok(nm) and self_ok(nm)]
            others.sort(key=lambda nm: (0 if (tr.lower() + "_") in nm else 1, 0 if owner.lower() in nm else 1, len(nm), nm))
            names = names + others
            name = next((nm for nm in names if sig_ok(nm)), next((nm for nm in names if nm in defined), names[0]))
            rec = {"ty": ti, "owner_kind": kind, "owner": owner, "tr": tr, "m": m["name"], "wrapper": name, "cont": cont, "ctx": ctx,
                   "kind": "drop" if m.get("is_drop") else ("consuming" if m["recv"] == "own" else "plain"), "present": name in defined,
                   "args": m["args"], "ret": m["ret"]}
            if rec["present"]:
                rec["signature_ok"] = sig_ok(name)
                if not rec["signature_ok"]:
                    rec["found_signature"] = defined[name]["params"] + ["-> " + defined[name]["ret"]]
            expected.append(rec)
            k = len(expected) - 1
            if not rec["present"] or not rec["signature_ok"]:
                continue
            argv, sent = [], []
            for i, t in enumerate(m["args"]):
                if t == "u64":
                    argv.append("%dULL" % (1000 + i)); sent.append(1000 + i)
                elif t == "i32":
                    argv.append("%d" % (-7 - i)); sent.append(-7 - i)
                elif t == "Pt":
                    argv.append("(struct Pt){%d, %d, %d}" % (3 + i, -40 - i, 9)); sent.append([3 + i, -40 - i, 9])
                elif t == "slice":
                    argv.append("(struct CSliceRef_u8){SBUF + %d, %d}" % (i + 1, 4)); sent.append([i + 1, 4])
                elif t in PTRS:
                    argv.append("(%s)(SBUF + %d)" % (CT[t], i + 2)); sent.append(i + 2)
                elif t in cbgen.CB_ELEM:
                    argv.append("(OpaqueCallback_%s){&CBX, mock_cb_%s}" % (cbgen.CB_ELEM[t][0], cbgen.CB_ELEM[t][0])); sent.append([1, 1])
                elif t == "fnptr":
                    argv.append("mock_fn"); sent.append(1)
            rec["sent"] = sent
            rec["expret"] = rvals.get((ti, tr, m["name"]), [])
            selfarg = "o" if m["recv"] == "own" else "&o"
            call = "%s(%s%s)" % (name, selfarg, "".join(", " + a for a in argv))
            blk = ["  {", mkobj("o"), "    EXPECT_CONT = &o.container;", '    printf("{\\"ev\\":\\"call\\",\\"k\\":%d}\\n");' % k]
            if m["ret"] == "void":
                blk.append("    %s;" % call)
                blk.append('    printf("{\\"ev\\":\\"ret\\",\\"k\\":%d,\\"val\\":[]}\\n");' % k)
            elif m["ret"] == "cont":
                vt_ok = "r.vtbl == o.vtbl" if kind == "obj" else " && ".join("r.vtbl_%s == o.vtbl_%s" % (t.lower(), t.lower()) for t in trs)
                blk.append("    struct %s r = %s;" % (tname, call))
                blk.append('    printf("{\\"ev\\":\\"ret\\",\\"k\\":%d,\\"val\\":[%%d,%%d,%%d]}\\n", (int)(%s), (int)(r.container.instance%s == (void *)&INST2), (int)(%s));' % (
                    k, vt_ok, ".instance" if cont == "Box" else "", "r.container.context.instance == (const void *)&CTXV" if ctx == "Arc" else "1"))
            elif m["ret"] == "Pt":
                blk.append("    struct Pt r = %s;" % call)
                blk.append('    printf("{\\"ev\\":\\"ret\\",\\"k\\":%d,\\"val\\":[%%d,%%lld,%%d]}\\n", r.x, (long long)r.y, (int)r.z);' % k)
            elif m["ret"] in PTRS:
                # a pointer result: reported as an offset into the driver's buffer (the wrapper must hand back the entry's pointer)
                blk.append("    unsigned long long r = (unsigned long long)((const unsigned char *)%s - SBUF);" % call)
                blk.append('    printf("{\\"ev\\":\\"ret\\",\\"k\\":%d,\\"val\\":[%%llu]}\\n", r);' % k)
            else:
                blk.append("    unsigned long long r = (unsigned long long)%s;" % call)
                blk.append('    printf("{\\"ev\\":\\"ret\\",\\"k\\":%d,\\"val\\":[%%llu]}\\n", r);' % k)
            blk.append("  }")
            calls.append("\n".join(blk))
    c.append("int main(void) {\n%s\n  return 0;\n}\n" % "\n".join(calls))
    return "".join(c), expected


def main():
    model = json.load(open(sys.argv[1]))
    header = open(sys.argv[2]).read()
    wd = sys.argv[3]
    os.makedirs(wd, exist_ok=True)
    src, expected = gen(model, header)
    open(os.path.join(wd, "processed.h"), "w").write(header)
    open(os.path.join(wd, "driver.c"), "w").write(src)
    json.dump(expected, open(os.path.join(wd, "expected.json"), "w"))
    # optimised: a wrapper that loses its result (or reads something indeterminate) must not pass by the accident of a register
    p = subprocess.run(["gcc", "-std=c99", os.environ.get("VERIF_MOCK_OPT", "-O2"), "-w", "-o", os.path.join(wd, "driver"), os.path.join(wd, "driver.c")], capture_output=True, text=True)
    if p.returncode != 0:
        print(json.dumps({"ev": "compile_error", "text": p.stderr[-1500:]}))
        return 1
    r = subprocess.run([os.path.join(wd, "driver")], capture_output=True, text=True, timeout=60)
    sys.stdout.write(r.stdout)
    if r.returncode != 0:
        print(json.dumps({"ev": "crash", "rc": r.returncode}))
    return 0


if __name__ == "__main__":
    sys.exit(main())
