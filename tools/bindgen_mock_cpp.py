#!/usr/bin/env python3
"""C++ counterpart of bindgen_mock.py: for an API model and the header cglue-bindgen's C++ generator
produced for it, predicts the member function each vtable entry must be reachable through (plain
method name; `<trait>_<name>` when several traits of a group define the name), generates a C++11 driver
with mock vtables / mock box and arc functions that log every event.

In C++ the "drop helper" of an object or group is its destructor: every block that creates an object is
followed by a `drop` invocation whose events are whatever the destructor does when the object leaves its
scope.  A consuming call is reported as returned only after the (moved-from) object has left its scope, so
that a destructor releasing something again is part of the same invocation.

    bindgen_mock_cpp.gen(model, header_text) -> (driver source, expected entries)"""
import re
import cbgen, cbgen_cpp

CT = cbgen_cpp.CPPTYPE
PTRS = ("ptr", "vptr", "cvptr")
CONT_T = {"Box": "CBox<void>", "Mut": "void *", "Ref": "const void *"}
CTX_T = {"Arc": "CArc<void>", "none": "void"}


def struct_body(header, start_pat):
    m = re.search(start_pat, header)
    if not m:
        return None
    end = header.find("\n};", m.end())
    return header[m.end():end]


def members(body):
    out = {}
    if body is None:
        return out
    import bindgen_mock
    for mm in re.finditer(r"inline ([^\n(]*?)\b(\w+)\(", body):
        i, depth = mm.end(), 1
        while i < len(body) and depth:
            depth += {"(": 1, ")": -1}.get(body[i], 0)
            i += 1
        q = re.match(r" (const |&& )?noexcept", body[i:])
        if not q:
            continue
        params = bindgen_mock.split_params(body[mm.end():i - 1])
        out[mm.group(2)] = {"ret": mm.group(1).strip().replace(" ", ""), "params": [bindgen_mock.param_type(x) for x in params], "qual": (q.group(1) or "").strip()}
    return out


def gen(model, header_text):
    traits = {t["name"]: t for t in model["traits"]}
    c = []
    c.append('#include <cstdio>\n#include <cstring>\n#include <utility>\n#include "processed.hpp"\n')
    c.append("static unsigned char SBUF[8] = {1,2,3,4,5,6,7,8};\nstatic int INST; static int INST2; static int CTXV; static int CBX;\n")
    c.append("static bool mock_cb_Pt(void *c, Pt v) { (void)c; (void)v; return true; }\nstatic bool mock_cb_u64(void *c, uint64_t v) { (void)c; (void)v; return true; }\n")
    c.append("static void mock_fn(int32_t v) { (void)v; }\n")
    c.append('static void mock_box_drop(void *p) { printf("{\\"ev\\":\\"box_drop\\",\\"ok\\":%d}\\n", p == (void *)&INST); }\n')
    c.append('static const void *mock_arc_clone(const void *p) { printf("{\\"ev\\":\\"ctx_clone\\",\\"ok\\":%d}\\n", p == (const void *)&CTXV); return p; }\n')
    c.append('static void mock_arc_drop(const void *p) { printf("{\\"ev\\":\\"ctx_drop\\",\\"ok\\":%d}\\n", p == (const void *)&CTXV); }\n')
    c.append("static const void *EXPECT_CONT;\n")
    calls, expected, rvals, types = [], [], {}, []
    for o in model["objects"]:
        types.append(("obj", o["trait"], [o["trait"]], o["cont"], o["ctx"]))
    for g in model["groups"]:
        for i in g["insts"]:
            types.append(("group", g["name"], cbgen_cpp.group_traits(g), i["cont"], i["ctx"]))
    for ti, (kind, owner, trs, cont, ctx) in enumerate(types):
        if kind == "obj":
            tr0 = trs[0]
            c.append("typedef CGlueObjContainer<%s, %s, %sRetTmp<%s>> C%d;\n" % (CONT_T[cont], CTX_T[ctx], tr0, CTX_T[ctx], ti))
            c.append("typedef %sBase<%s, %s> O%d;\n" % (tr0, CONT_T[cont], CTX_T[ctx], ti))
            defined = members(struct_body(header_text, r"struct CGlueTraitObj<T, %sVtbl<CGlueObjContainer<T, C, R>>, C, R> \{" % tr0))
        else:
            c.append("typedef %sContainer<%s, %s> C%d;\n" % (owner, CONT_T[cont], CTX_T[ctx], ti))
            c.append("typedef %s<%s, %s> O%d;\n" % (owner, CONT_T[cont], CTX_T[ctx], ti))
            defined = members(struct_body(header_text, r"\nstruct %s \{" % owner))
        for tr in trs:
            for m in traits[tr]["methods"]:
                fn = "mock_%d_%s_%s" % (ti, tr, m["name"])
                recv = {"ref": "const C%d *cont" % ti, "mut": "C%d *cont" % ti, "own": "C%d cont" % ti}[m["recv"]]
                args = "".join(", " + cbgen.decl(CT[t], "a%d" % i) for i, t in enumerate(m["args"]))
                ret = ("C%d" % ti) if m["ret"] == "cont" else CT[m["ret"]]
                body = []
                if m["recv"] == "own":
                    body.append('    int cont_ok = (cont.instance%s == (void *)&INST);' % (".instance" if cont == "Box" else ""))
                else:
                    body.append("    int cont_ok = ((const void *)cont == EXPECT_CONT);")
                fmt, vals = [], []
                for i, t in enumerate(m["args"]):
                    if t == "u64":
                        fmt.append("%llu"); vals.append("(unsigned long long)a%d" % i)
                    elif t == "i32":
                        fmt.append("%d"); vals.append("a%d" % i)
                    elif t == "Pt":
                        fmt.append("[%d,%lld,%d]"); vals.append("a%d.x, (long long)a%d.y, (int)a%d.z" % (i, i, i))
                    elif t == "slice":
                        fmt.append("[%d,%llu]"); vals.append("(int)(a%d.data - SBUF), (unsigned long long)a%d.len" % (i, i))
                    elif t in PTRS:
                        fmt.append("%d"); vals.append("(int)((const unsigned char *)a%d - SBUF)" % i)
                    elif t in cbgen.CB_ELEM:
                        fmt.append("[%d,%d]"); vals.append("(int)(a%d.context == (void *)&CBX), (int)(a%d.func == mock_cb_%s)" % (i, i, cbgen.CB_ELEM[t][0]))
                    elif t == "fnptr":
                        fmt.append("%d"); vals.append("(int)(a%d == mock_fn)" % i)
                body.append('    printf("{\\"ev\\":\\"slot\\",\\"ty\\":%d,\\"tr\\":\\"%s\\",\\"m\\":\\"%s\\",\\"cont_ok\\":%%d,\\"args\\":[%s]}\\n", cont_ok%s);'
                            % (ti, tr, m["name"], ",".join(fmt), ("," + ",".join(vals)) if vals else ""))
                if m["recv"] == "own":
                    # the Rust callee consumes the container: releases the instance and the context it was handed
                    if cont == "Box":
                        body.append("    if (cont.instance.drop_fn) cont.instance.drop_fn(cont.instance.instance);")
                    if ctx == "Arc":
                        body.append("    if (cont.context.drop_fn) cont.context.drop_fn(cont.context.instance);")
                uid = ti * 100 + len(rvals)
                rvals[(ti, tr, m["name"])] = {"void": [], "u64": [7000 + uid], "i32": [300 + uid], "Pt": [11 + uid, 1000 + uid, 5], "cont": [1, 1, 1],
                                                    "ptr": [1 + uid % 7], "vptr": [1 + uid % 7], "cvptr": [1 + uid % 7]}[m["ret"]]
                newc = "    { C%d r = *cont; r.instance%s = &INST2;%s%s return r; }" % (
                    ti, ".instance" if cont == "Box" else "", " r.instance.drop_fn = 0;" if cont == "Box" else "",
                    " r.context.clone_fn = 0; r.context.drop_fn = 0;" if ctx == "Arc" else "")
                rv = {"void": "", "u64": "    return %dULL;" % (7000 + uid), "i32": "    return %d;" % (300 + uid),
                      "ptr": "    return SBUF + %d;" % (1 + uid % 7), "vptr": "    return (void *)(SBUF + %d);" % (1 + uid % 7), "cvptr": "    return (const void *)(SBUF + %d);" % (1 + uid % 7),
                      "Pt": "    { Pt r; r.x = %d; r.y = %d; r.z = %d; return r; }" % (11 + uid, 1000 + uid, 5), "cont": newc}[m["ret"]]
                c.append("static %s %s(%s%s) {\n%s\n%s\n}\n" % (ret, fn, recv, args, "\n".join(body), rv))
        for tr in trs:
            c.append("static %sVtbl<C%d> VT_%d_%s;\n" % (tr, ti, ti, tr))

        def mkobj(var):
            s = ["    O%d %s;" % (ti, var)]
            for tr in trs:
                for m in traits[tr]["methods"]:
                    s.append("    VT_%d_%s.%s = mock_%d_%s_%s;" % (ti, tr, m["name"], ti, tr, m["name"]))
            if kind == "obj":
                s.append("    %s.vtbl = &VT_%d_%s;" % (var, ti, trs[0]))
            else:
                for tr in trs:
                    s.append("    %s.vtbl_%s = &VT_%d_%s;" % (var, tr.lower(), ti, tr))
            if cont == "Box":
                s.append("    %s.container.instance.instance = &INST; %s.container.instance.drop_fn = mock_box_drop;" % (var, var))
            else:
                s.append("    %s.container.instance = &INST;" % var)
            if ctx == "Arc":
                s.append("    %s.container.context.instance = &CTXV; %s.container.context.clone_fn = mock_arc_clone; %s.container.context.drop_fn = mock_arc_drop;" % (var, var, var))
            return "\n".join(s)

        def drop_rec():
            rec = {"ty": ti, "owner_kind": kind, "owner": owner, "tr": trs[0] if kind == "obj" else owner, "m": "drop", "wrapper": "~" + ("CGlueTraitObj" if kind == "obj" else owner),
                   "cont": cont, "ctx": ctx, "kind": "drop", "present": True, "signature_ok": True, "args": [], "ret": "void", "sent": [], "expret": [], "lang": "cpp"}
            expected.append(rec)
            return len(expected) - 1
        # the destructor on its own
        kd = drop_rec()
        calls.append("  {\n  {\n%s\n    printf(\"{\\\"ev\\\":\\\"call\\\",\\\"k\\\":%d}\\n\");\n  }\n    printf(\"{\\\"ev\\\":\\\"ret\\\",\\\"k\\\":%d,\\\"val\\\":[]}\\n\");\n  }" % (mkobj("o"), kd, kd))
        for tr in trs:
            for m in traits[tr]["methods"]:
                if m["recv"] == "own" and cont != "Box":
                    continue
                gclash = kind == "group" and sum(1 for t2 in trs if m["name"] in [x["name"] for x in traits[t2]["methods"]]) > 1
                name = (tr.lower() + "_" + m["name"]) if gclash else m["name"]
                want0 = [CT[t].replace(" ", "") for t in m["args"]]
                wq0 = {"ref": "const", "mut": "", "own": "&&"}[m["recv"]]
                if not (name in defined and defined[name]["params"] == want0 and defined[name]["qual"] == wq0):
                    # no naming convention is demanded: any member named after the method with a fitting signature will do
                    others = sorted((nm for nm in defined if (nm == m["name"] or nm.endswith("_" + m["name"]))
                                     and defined[nm]["params"] == want0 and defined[nm]["qual"] == wq0),
                                    key=lambda nm: (0 if (tr.lower() + "_") in nm else 1, len(nm), nm))
                    if others:
                        name = others[0]
                rec = {"ty": ti, "owner_kind": kind, "owner": owner, "tr": tr, "m": m["name"], "wrapper": name, "cont": cont, "ctx": ctx,
                       "kind": "consuming" if m["recv"] == "own" else "plain", "present": name in defined, "args": m["args"], "ret": m["ret"], "lang": "cpp"}
                if rec["present"]:
                    want = [CT[t].replace(" ", "") for t in m["args"]]
                    wq = {"ref": "const", "mut": "", "own": "&&"}[m["recv"]]
                    rec["signature_ok"] = defined[name]["params"] == want and defined[name]["qual"] == wq
                    if not rec["signature_ok"]:
                        rec["found_signature"] = defined[name]["params"] + [defined[name]["qual"]]
                expected.append(rec)
                k = len(expected) - 1
                if not rec["present"] or not rec["signature_ok"]:
                    continue
                argv, sent = [], []
                for i, t in enumerate(m["args"]):
                    if t == "u64":
                        argv.append("%dULL" % (1000 + i)); sent.append(1000 + i)
                    elif t == "i32":
                        argv.append("%d" % (-7 - i)); sent.append(-7 - i)
                    elif t == "Pt":
                        argv.append("mkpt(%d, %d, %d)" % (3 + i, -40 - i, 9)); sent.append([3 + i, -40 - i, 9])
                    elif t == "slice":
                        argv.append("CSliceRef<uint8_t>((const char *)SBUF + %d, %d)" % (i + 1, 4)); sent.append([i + 1, 4])
                    elif t in PTRS:
                        argv.append("(%s)(SBUF + %d)" % (CT[t], i + 2)); sent.append(i + 2)
                    elif t in cbgen.CB_ELEM:
                        argv.append("mkcb_%s()" % cbgen.CB_ELEM[t][0]); sent.append([1, 1])
                    elif t == "fnptr":
                        argv.append("mock_fn"); sent.append(1)
                rec["sent"] = sent
                rec["expret"] = rvals.get((ti, tr, m["name"]), [])
                recvx = "std::move(o)." if m["recv"] == "own" else "o."
                call = "%s%s(%s)" % (recvx, name, ", ".join(argv))
                retdecl = {"void": "", "Pt": "    Pt r; memset(&r, 0, sizeof(r));", "u64": "    unsigned long long r = 0;", "i32": "    unsigned long long r = 0;",
                           "ptr": "    unsigned long long r = 0;", "vptr": "    unsigned long long r = 0;", "cvptr": "    unsigned long long r = 0;",
                           "cont": "    int r0 = 0, r1 = 0, r2 = 0;"}[m["ret"]]
                vt_ok = "rr.vtbl == o.vtbl" if kind == "obj" else " && ".join("rr.vtbl_%s == o.vtbl_%s" % (t.lower(), t.lower()) for t in trs)
                retprint = {"cont": '    printf("{\\"ev\\":\\"ret\\",\\"k\\":%d,\\"val\\":[%%d,%%d,%%d]}\\n", r0, r1, r2);' % k, "void": '    printf("{\\"ev\\":\\"ret\\",\\"k\\":%d,\\"val\\":[]}\\n");' % k,
                            "Pt": '    printf("{\\"ev\\":\\"ret\\",\\"k\\":%d,\\"val\\":[%%d,%%lld,%%d]}\\n", r.x, (long long)r.y, (int)r.z);' % k}.get(
                                m["ret"], '    printf("{\\"ev\\":\\"ret\\",\\"k\\":%d,\\"val\\":[%%llu]}\\n", r);' % k)
                assign = ("    { O%d rr = %s; r0 = (int)(%s); r1 = (int)(rr.container.instance%s == (void *)&INST2); r2 = (int)(%s); }" % (
                    ti, call, vt_ok, ".instance" if cont == "Box" else "", "rr.container.context.instance == (const void *)&CTXV" if ctx == "Arc" else "1")) if m["ret"] == "cont" else ("    %s;" % call) if m["ret"] == "void" else ("    r = (unsigned long long)((const unsigned char *)%s - SBUF);" % call if m["ret"] in PTRS else "    r = (unsigned long long)%s;" % call if m["ret"] != "Pt" else "    r = %s;" % call)
                blk = ["  {", retdecl, "  {", mkobj("o"), "    EXPECT_CONT = &o.container;", '    printf("{\\"ev\\":\\"call\\",\\"k\\":%d}\\n");' % k, assign]
                if m["recv"] == "own":
                    # returned only when the moved-from object is gone
                    blk += ["  }", retprint, "  }"]
                else:
                    kd = drop_rec()
                    blk += [retprint, '    printf("{\\"ev\\":\\"call\\",\\"k\\":%d}\\n");' % kd, "  }",
                            '    printf("{\\"ev\\":\\"ret\\",\\"k\\":%d,\\"val\\":[]}\\n");' % kd, "  }"]
                calls.append("\n".join(blk))
    c.append("static Pt mkpt(int x, long long y, int z) { Pt p; p.x = x; p.y = y; p.z = (uint8_t)z; return p; }\n")
    for nm, _ in sorted({cbgen.CB_ELEM[cb] for cb in cbgen.callback_kinds(model)}):
        ety = {"Pt": "Pt", "u64": "uint64_t"}[nm]
        c.append("static OpaqueCallback<%s> mkcb_%s() { OpaqueCallback<%s> cb; cb.context = &CBX; cb.func = mock_cb_%s; return cb; }\n" % (ety, nm, ety, nm))
    c.append("int main(void) {\n%s\n  return 0;\n}\n" % "\n".join(calls))
    return "".join(c), expected
