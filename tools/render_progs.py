#!/usr/bin/env python3
"""Renders the definitions enumerated by spec/Shapes.tla into a Rust crate: for every definition a
#[cglue_trait] trait, a logging implementor and a driver that calls the method directly and through
every container kind the receiver admits, and compares.

    render_progs.py <defs.jsonl> <out_dir> [--lint]

--lint renders only the trait definitions (for `gen expand` + the FFI-lint crate of C03/C04)."""
import json, os, sys

RECV_DECL = {"ref": "&self", "mut": "&mut self", "own": "self", "pinref": "self: Pin<&Self>", "pinmut": "self: Pin<&mut Self>"}
ARG_TY = {"none": None, "i64": "i64", "cstruct": "Pt", "ref": "&u64", "mutref": "&mut u64", "slice": "&[u8]",
          "mutslice": "&mut [u8]", "str": "&str", "opt": "Option<u64>", "optnpo": "Option<&u64>", "optptr": "Option<*const u8>",
          "optmut": "Option<&mut u64>", "slice64": "&[u64]", "mutslice64": "&mut [u64]", "slicezst": "&[()]", "optstruct": "Option<Pt>", "rawptr": "*const u8",
          "result": "Result<u64, u64>", "into": "impl Into<u64>", "callback": "OpaqueCallback<u64>", "iter": "CIterator<u64>", "iterq": "CIterator<u64>",
          "aval": "Self::Item", "aref": "&Self::Item", "aslice": "&[Self::Item]", "aopt": "Option<Self::Item>", "ares": "Result<Self::Item, u64>"}
# Option / Result written as paths (the generator recognises the type by its last segment)
SPELLED_ARG = {"optabs": ("opt", "::core::option::Option<u64>"), "optstd": ("opt", "std::option::Option<u64>"), "resabs": ("result", "::core::result::Result<u64, u64>")}
SPELLED_RET = {"optabs": ("opt", "::core::option::Option<u64>"), "resabs": ("result", "::std::result::Result<u64, ()>")}
for _k, (_b, _t) in SPELLED_ARG.items():
    ARG_TY[_k] = _t
# shapes over an unwrapped associated type (`type Item;`, implemented as u64)
ASSOC = ("aval", "aref", "aslice", "aopt", "ares")
RET_TY = {"unit": None, "i64": "i64", "cstruct": "Pt", "slice": "&[u8]", "mutslice": "&mut [u8]", "str": "&str",
          "opt": "Option<u64>", "optnpo": "Option<&u64>", "optptr": "Option<*const u8>", "result": "Result<u64, ()>", "resunit": "Result<(), ()>",
          "refret": "&u64", "mutrefret": "&mut u64", "optstruct": "Option<Pt>", "resio": "Result<u64, std::io::Error>",
          "resneg": "Result<u64, NegErr>"}

for _k, (_b, _t) in SPELLED_RET.items():
    RET_TY[_k] = _t
# a one-parameter alias named like the int_result identifier (declared inside the definition's module)
RET_TY["res1"] = "Result<u64>"
RES1_ALIAS = "    pub type Result<T> = core::result::Result<T, NegErr>;\n"

# callee: compute digest `d` of the received argument, log it (and its address), write through &mut shapes
ARG_BODY = {
    "none": "let d = 0i64;",
    "i64": "let d = a; log(d);",
    "cstruct": "let d = (a.x as i64) * 1000 + a.y + a.z as i64; log(d);",
    "ref": "let d = *a as i64; log(d); log(a as *const u64 as i64);",
    "mutref": "let d = *a as i64; log(d); log(a as *const u64 as i64); *a = a.wrapping_mul(2).wrapping_add(1);",
    "slice": "let d = a.iter().map(|&b| b as i64).sum::<i64>() + a.len() as i64 * 1000; log(d); log(a.as_ptr() as i64);",
    "mutslice": "let d = a.iter().map(|&b| b as i64).sum::<i64>() + a.len() as i64 * 1000; log(d); log(a.as_ptr() as i64); for b in a.iter_mut() { *b = b.wrapping_add(1); }",
    "str": "let d = a.bytes().map(|b| b as i64).sum::<i64>() + a.len() as i64 * 1000; log(d); log(a.as_ptr() as i64);",
    "opt": "let d = match a { None => -1, Some(v) => (v % 100000) as i64 }; log(d);",
    "optnpo": "let d = match a { None => -1, Some(v) => *v as i64 }; log(d); log(a.map(|v| v as *const u64 as i64).unwrap_or(0));",
    "optptr": "let d = match a { None => -1, Some(p) => unsafe { *p as i64 * 7 + *p.add(3) as i64 } }; log(d); log(a.map(|p| p as i64).unwrap_or(0));",
    "optmut": "let d = match &a { None => -1, Some(v) => **v as i64 }; log(d); log(a.as_ref().map(|v| &**v as *const u64 as i64).unwrap_or(0)); if let Some(v) = a { *v = v.wrapping_mul(3).wrapping_add(2); }",
    "slice64": "let d = a.iter().map(|&b| (b % 1000) as i64).sum::<i64>() + a.len() as i64 * 1000; log(d); log(a.as_ptr() as i64);",
    "slicezst": "let d = a.len() as i64 * 1000 + 7; log(d); log(a.as_ptr() as i64);",
    "mutslice64": "let d = a.iter().map(|&b| (b % 1000) as i64).sum::<i64>() + a.len() as i64 * 1000; log(d); log(a.as_ptr() as i64); for b in a.iter_mut() { *b = b.wrapping_add(3); }",
    "optstruct": "let d = match a { None => -1, Some(p) => (p.x as i64) * 1000 + p.y + p.z as i64 }; log(d);",
    "rawptr": "let d = if a.is_null() { -1 } else { unsafe { *a as i64 * 7 + *a.add(3) as i64 } }; log(d); log(a as i64);",
    "result": "let d = match a { Ok(v) => v as i64, Err(e) => -(e as i64) }; log(d);",
    "into": "let v: u64 = a.into(); let d = v as i64; log(d);",
    "callback": "let mut a = a; let base = (self.st.get() % 50) as u64; let n = (0..3u64).map(|i| base + i).feed_into_mut(&mut a); let d = n as i64; log(d);",
    "iter": "let d = a.map(|v| v as i64).sum::<i64>(); log(d);",
    # two batches: read to the end of the first, then poll on (the source is not fused)
    "iterq": "let mut a = a; let d1 = a.by_ref().map(|v| v as i64).sum::<i64>(); let d2 = a.by_ref().map(|v| v as i64).sum::<i64>(); let d = d1 * 1000 + d2; log(d);",
}
ARG_BODY.update({"aval": "let d = (a % 100000) as i64; log(d);", "aref": ARG_BODY["ref"], "aslice": ARG_BODY["slice64"],
                 "aopt": ARG_BODY["opt"], "ares": ARG_BODY["result"]})
for _k, (_b, _t) in SPELLED_ARG.items():
    ARG_BODY[_k] = ARG_BODY[_b]
THIS_REF = {"ref": "self", "mut": "&*self", "pinref": "self.get_ref()", "pinmut": "self.into_ref().get_ref()"}
THIS_MUT = {"mut": "self", "pinmut": "self.get_mut()"}


def ret_expr(ret, recv):
    if ret == "res1":
        return ret_expr("resneg", recv)
    if ret in SPELLED_RET:
        return ret_expr(SPELLED_RET[ret][0], recv)
    tr = THIS_REF.get(recv, "self")
    tm = THIS_MUT.get(recv, "self")
    return {
        "unit": "()",
        "i64": "s2 + 11",
        "cstruct": "Pt { x: s2 as i32, y: s2 * 2, z: (s2 % 251) as u8 }",
        "slice": "{ let this = %s; let n = (s2 %% 5) as usize; log(this.buf.as_ptr() as i64 - this as *const Imp as i64); &this.buf[..n.min(4)] }" % tr,
        "mutslice": "{ let this = %s; let n = (s2 %% 5) as usize; log(this.buf.as_ptr() as i64 - this as *const Imp as i64); &mut this.buf[..n.min(4)] }" % tm,
        "str": "{ let this = %s; let n = [0usize, 1, 3, 4, 7][(s2 %% 5) as usize]; log(this.tbuf.as_ptr() as i64 - this as *const Imp as i64); std::str::from_utf8(&this.tbuf[..n]).unwrap() }" % tr,
        "opt": "if s2 % 2 == 0 { Some(s2 as u64) } else { None }",
        "optnpo": "{ let this = %s; if s2 %% 2 == 0 { log(&this.cell as *const u64 as i64 - this as *const Imp as i64); Some(&this.cell) } else { None } }" % tr,
        "optptr": "if s2 % 2 == 0 { log(1); Some(&self.cell as *const u64 as *const u8) } else { log(0); None }",
        "refret": "{ let this = %s; log(&this.cell as *const u64 as i64 - this as *const Imp as i64); &this.cell }" % tr,
        "mutrefret": "{ let this = %s; log(&this.cell as *const u64 as i64 - &*this as *const Imp as i64); &mut this.cell }" % tm,
        "optstruct": "if s2 % 2 == 0 { Some(Pt { x: s2 as i32, y: s2 * 2, z: (s2 % 251) as u8 }) } else { None }",
        "result": "if s2 % 2 == 0 { Ok(s2 as u64) } else { Err(()) }",
        "resunit": "if s2 % 2 == 0 { Ok(()) } else { Err(()) }",
        "resneg": "if s2 % 2 == 0 { Ok(s2 as u64) } else { Err(NegErr { code: -2 - (s2 % 5) as i32 }) }",
        # an operating-system error with a negative raw code (the shipped IntError impl for std::io::Error)
        "resio": "if s2 % 2 == 0 { Ok(s2 as u64) } else { Err(std::io::Error::from_raw_os_error(-1 - (s2 % 4000) as i32)) }",
    }[ret]


# caller: digest of the returned value into Vec<i64> `rd` (self-relative offsets for borrowed data)
RET_DIGEST = {
    "unit": "let rd: Vec<i64> = vec![];",
    "i64": "let rd: Vec<i64> = vec![r];",
    "cstruct": "let rd: Vec<i64> = vec![r.x as i64, r.y, r.z as i64];",
    "slice": "let mut rd: Vec<i64> = vec![r.len() as i64, r.as_ptr() as i64 - imp_addr]; rd.extend(r.iter().map(|&b| b as i64));",
    "mutslice": "let mut rd: Vec<i64> = vec![r.len() as i64, r.as_ptr() as i64 - imp_addr]; rd.extend(r.iter().map(|&b| b as i64)); for b in r.iter_mut() { *b = b.wrapping_add(9); }",
    "str": "let mut rd: Vec<i64> = vec![r.len() as i64, r.as_ptr() as i64 - imp_addr]; rd.extend(r.bytes().map(|b| b as i64)); let str_ptr = r.as_ptr() as i64;",
    "opt": "let rd: Vec<i64> = match r { None => vec![-1], Some(v) => vec![1, v as i64] };",
    "optnpo": "let rd: Vec<i64> = match r { None => vec![-1], Some(v) => vec![1, *v as i64, v as *const u64 as i64 - imp_addr] };",
    "optptr": "let rd: Vec<i64> = match r { None => vec![-1], Some(p) => vec![1, (!p.is_null()) as i64] };",
    "refret": "let rd: Vec<i64> = vec![*r as i64, r as *const u64 as i64 - imp_addr];",
    "mutrefret": "let rd: Vec<i64> = vec![*r as i64, r as *const u64 as i64 - imp_addr]; *r = r.wrapping_add(5);",
    "optstruct": "let rd: Vec<i64> = match r { None => vec![-1], Some(p) => vec![1, p.x as i64, p.y, p.z as i64] };",
    "result": "let rd: Vec<i64> = match r { Ok(v) => vec![0, v as i64], Err(()) => vec![1] };",
    "resunit": "let rd: Vec<i64> = match r { Ok(()) => vec![0], Err(()) => vec![1] };",
    "resneg": "let rd: Vec<i64> = match r { Ok(v) => vec![0, v as i64], Err(e) => vec![1, e.code as i64] };",
    "resio": "let rd: Vec<i64> = match r { Ok(v) => vec![0, v as i64], Err(e) => vec![1, e.raw_os_error().map(|c| c as i64).unwrap_or(i64::MIN)] };",
}

for _k, (_b, _t) in SPELLED_RET.items():
    RET_DIGEST[_k] = RET_DIGEST[_b]
RET_DIGEST["res1"] = RET_DIGEST["resneg"]

# caller: argument set-up for variant v (0/1): declares locals, `sent_d` (digest), `sent_addr` (0 if n/a), the
# expression to pass, and a post-check expression producing Vec<i64> `post` (state of what the callee may write)
def arg_setup(arg, v):
    if arg == "none":
        return "let sent_d = 0i64; let sent_addr = 0i64;", "", "let post: Vec<i64> = vec![];"
    if arg in SPELLED_ARG:
        return arg_setup(SPELLED_ARG[arg][0], v)
    if arg == "aval":
        val = ["u64::MAX", "41"][v]
        return "let av: u64 = %s; let sent_d = (av %% 100000) as i64; let sent_addr = 0i64;" % val, "av", "let post: Vec<i64> = vec![];"
    if arg in ("aref", "aslice", "aopt", "ares"):
        return arg_setup({"aref": "ref", "aslice": "slice64", "aopt": "opt", "ares": "result"}[arg], v)
    if arg == "i64":
        val = ["i64::MIN + 1", "41"][v]
        return "let av: i64 = %s; let sent_d = av; let sent_addr = 0i64;" % val, "av", "let post: Vec<i64> = vec![];"
    if arg == "cstruct":
        val = ["Pt { x: -3, y: 9, z: 200 }", "Pt { x: i32::MAX, y: i64::MIN / 2000, z: 0 }"][v]
        return "let av = %s; let sent_d = (av.x as i64) * 1000 + av.y + av.z as i64; let sent_addr = 0i64;" % val, "av", "let post: Vec<i64> = vec![];"
    if arg == "ref":
        val = ["77u64", "0u64"][v]
        return "let av: u64 = %s; let sent_d = av as i64; let sent_addr = &av as *const u64 as i64;" % val, "&av", "let post: Vec<i64> = vec![av as i64];"
    if arg == "mutref":
        val = ["77u64", "u64::MAX / 4"][v]
        return "let mut av: u64 = %s; let sent_d = av as i64; let sent_addr = &av as *const u64 as i64;" % val, "&mut av", "let post: Vec<i64> = vec![av as i64];"
    if arg in ("slice", "mutslice"):
        # variant 0 is an *empty* slice in the middle of a live buffer: its address is meaningful
        rng = ["[2..2]", "[..]"][v]
        mut = "mut " if arg == "mutslice" else ""
        amp = ("&mut av%s" if arg == "mutslice" else "&av%s") % rng
        return ("let %sav: Vec<u8> = vec![1u8, 2, 250]; let sent_d = av%s.iter().map(|&b| b as i64).sum::<i64>() + av%s.len() as i64 * 1000; let sent_addr = av%s.as_ptr() as i64;" % (mut, rng, rng, rng),
                amp, "let post: Vec<i64> = av.iter().map(|&b| b as i64).collect();")
    if arg == "str":
        rng = ["[1..1]", "[..]"][v]
        # (the whole string ends with a NUL character: a &str may contain one anywhere)
        return ("let av: String = String::from(\"a\\u{e9}\\u{10348}\\0\"); let sent_d = av%s.bytes().map(|b| b as i64).sum::<i64>() + av%s.len() as i64 * 1000; let sent_addr = av%s.as_ptr() as i64;" % (rng, rng, rng),
                "&av%s" % rng, "let post: Vec<i64> = av.bytes().map(|b| b as i64).collect();")
    if arg == "opt":
        val = ["None", "Some(u64::MAX)"][v]
        return "let av: Option<u64> = %s; let sent_d = match av { None => -1, Some(v) => (v %% 100000) as i64 }; let sent_addr = 0i64;" % val, "av", "let post: Vec<i64> = vec![];"
    if arg == "optnpo":
        val = ["None", "Some(&cellv)"][v]
        return ("let cellv: u64 = 5; let av: Option<&u64> = %s; let sent_d = match av { None => -1, Some(v) => *v as i64 }; let sent_addr = av.map(|v| v as *const u64 as i64).unwrap_or(0);" % val,
                "av", "let post: Vec<i64> = vec![cellv as i64];")
    if arg == "optptr":
        val = ["None", "Some(pbuf.as_ptr())"][v]
        return ("let pbuf: [u8; 4] = [1, 2, 3, 4]; let av: Option<*const u8> = %s; let sent_d = match av { None => -1, Some(p) => unsafe { *p as i64 * 7 + *p.add(3) as i64 } }; let sent_addr = av.map(|p| p as i64).unwrap_or(0);" % val,
                "av", "let post: Vec<i64> = vec![];")
    if arg == "optmut":
        val = ["None", "Some(&mut cellv)"][v]
        return ("let mut cellv: u64 = 5; let sent_addr = %s; let av: Option<&mut u64> = %s; let sent_d = match &av { None => -1, Some(v) => **v as i64 };" % (["0i64", "&cellv as *const u64 as i64"][v], val),
                "av", "let post: Vec<i64> = vec![cellv as i64];")
    if arg == "slice64":
        rng = ["[1..1]", "[..]"][v]
        return ("let av: Vec<u64> = vec![u64::MAX, 2, 250]; let sent_d = av%s.iter().map(|&b| (b %% 1000) as i64).sum::<i64>() + av%s.len() as i64 * 1000; let sent_addr = av%s.as_ptr() as i64;" % (rng, rng, rng),
                "&av%s" % rng, "let post: Vec<i64> = vec![];")
    if arg == "mutslice64":
        rng = ["[1..1]", "[..]"][v]
        return ("let mut av: Vec<u64> = vec![u64::MAX, 2, 250]; let sent_d = av%s.iter().map(|&b| (b %% 1000) as i64).sum::<i64>() + av%s.len() as i64 * 1000; let sent_addr = av%s.as_ptr() as i64;" % (rng, rng, rng),
                "&mut av%s" % rng, "let post: Vec<i64> = av.iter().map(|&b| (b % 100000) as i64).collect();")
    if arg == "slicezst":
        # zero-sized elements: the length is the only content
        rng = ["[2..2]", "[..]"][v]
        return ("let av: Vec<()> = vec![(); 5]; let sent_d = av%s.len() as i64 * 1000 + 7; let sent_addr = av%s.as_ptr() as i64;" % (rng, rng),
                "&av%s" % rng, "let post: Vec<i64> = vec![];")
    if arg == "optstruct":
        val = ["None", "Some(Pt { x: -3, y: 9, z: 200 })"][v]
        return "let av: Option<Pt> = %s; let sent_d = match av { None => -1, Some(p) => (p.x as i64) * 1000 + p.y + p.z as i64 }; let sent_addr = 0i64;" % val, "av", "let post: Vec<i64> = vec![];"
    if arg == "rawptr":
        val = ["std::ptr::null()", "pbuf.as_ptr()"][v]
        return ("let pbuf: [u8; 4] = [1, 2, 3, 4]; let av: *const u8 = %s; let sent_d = if av.is_null() { -1 } else { unsafe { *av as i64 * 7 + *av.add(3) as i64 } }; let sent_addr = av as i64;" % val,
                "av", "let post: Vec<i64> = vec![];")
    if arg == "result":
        val = ["Ok(3)", "Err(9)"][v]
        return "let av: core::result::Result<u64, u64> = %s; let sent_d = match av { Ok(v) => v as i64, Err(e) => -(e as i64) }; let sent_addr = 0i64;" % val, "av", "let post: Vec<i64> = vec![];"
    if arg == "into":
        val = ["7u32", "u32::MAX"][v]
        return "let av: u32 = %s; let sent_d = av as i64; let sent_addr = 0i64;" % val, "av", "let post: Vec<i64> = vec![];"
    if arg == "callback":
        stop = [0, 2][v]
        return ("let mut got: Vec<u64> = vec![]; let mut ncalls = 0usize; let stop_at = %dusize; let mut cbf = |x: u64| { ncalls += 1; got.push(x); !(stop_at > 0 && ncalls >= stop_at) }; "
                "let sent_d = if stop_at == 0 { 3 } else { stop_at as i64 }; let sent_addr = 0i64;" % stop,
                "(&mut cbf).into()", "let post: Vec<i64> = got.iter().map(|&x| x as i64).collect();")
    if arg == "iterq":
        val = ["vec![None, Some(3u64)]", "vec![Some(5u64), Some(6), None, Some(7), Some(8)]"][v]
        sent = ["3i64", "11i64 * 1000 + 15"][v]
        return ("let mut q: std::collections::VecDeque<Option<u64>> = %s.into_iter().collect(); let sent_d = %s; let sent_addr = 0i64; let mut it = std::iter::from_fn(|| q.pop_front().flatten());" % (val, sent),
                "(&mut it).into()", "let post: Vec<i64> = vec![];")
    if arg == "iter":
        val = ["vec![]", "vec![5u64, 6, 7]"][v]
        return ("let items: Vec<u64> = %s; let sent_d = items.iter().map(|&x| x as i64).sum::<i64>(); let sent_addr = 0i64; let mut it = items.iter().copied();" % val,
                "(&mut it).into()", "let post: Vec<i64> = vec![it.len() as i64];")
    raise ValueError(arg)


CONTAINERS = {"ref": ["box", "ref", "mut", "arcsome", "ctxbox"], "pinref": ["box", "ref", "mut", "arcsome", "ctxbox"],
              "mut": ["box", "mut", "ctxbox"], "pinmut": ["box", "mut", "ctxbox"], "own": ["box", "ctxbox"]}


def call_expr(recv, target, argx, mname="m"):
    a = argx
    if recv in ("ref", "mut", "own"):
        return "%s.%s(%s)" % (target, mname, a)
    if recv == "pinref":
        return "Pin::new(&%s).%s(%s)" % (target, mname, a)
    return "Pin::new(&mut %s).%s(%s)" % (target, mname, a)


def method_sig(d, mname="m"):
    aty = ARG_TY[d["arg"]]
    rty = RET_TY[d["ret"]]
    if d["ret"] == "res1" and aty and aty.startswith("Result<"):
        # the module has its own one-parameter `Result<T>` alias (as with `use std::io::Result`): the two-parameter type
        # has to be written with its path there
        aty = "core::result::" + aty
    return "fn %s(%s%s)%s" % (mname, RECV_DECL[d["recv"]], (", a: " + aty) if aty else "", (" -> " + rty) if rty else "")


# group containers: the trait is the optional member of a group G { Mk; optional T }
GROUP_CONTAINERS = {"ref": ["grpbox", "grpref", "grpmut", "grpas"], "pinref": ["grpbox", "grpref", "grpmut"],
                    "mut": ["grpbox", "grpmut", "grpas"], "pinmut": ["grpbox", "grpmut"], "own": ["grpbox"]}

# forwarding (`#[cglue_forward]`, `Fwd`) exists for by-reference receivers only
# (a boxed `Fwd<&Imp>` is not offered: Imp holds a Cell, `&Imp` is not Send and the library rejects CBox<!Send>)
FWD_CONTAINERS = {"ref": ["fwdmut", "fwdobj"], "mut": ["fwdmut", "fwdobj"]}


def forwardable(d):
    # the generated `impl T for Fwd<CGlueO>` has no `CGlueT: 'a` bound, so a trait whose method returns data
    # borrowed from `self` with an elided lifetime does not compile under #[cglue_forward] (E0311): a limitation
    # of the generator, outside every quantifier (programs that do not compile)
    return d["recv"] in FWD_CONTAINERS and d["ret"] not in ("slice", "mutslice", "str", "optnpo", "refret", "mutrefret")


def uses_assoc(d):
    return d["arg"] in ASSOC


def render_trait(k, d):
    sig = method_sig(d)
    ir = "    #[int_result]\n" if d["ir"] else ""
    fw = "    #[cglue_forward]\n" if forwardable(d) else ""
    at = "        type Item;\n" if uses_assoc(d) else ""
    alias = RES1_ALIAS if d["ret"] == "res1" else ""
    return "%s    #[cglue_trait]\n%s%s    pub trait T {\n%s        %s;\n    }\n" % (alias, fw, ir, at, sig), sig


def method_impl(d, sig, salt=0):
    body = ARG_BODY[d["arg"]]
    return ("        %s {\n            self.check();\n            %s\n            let s = self.st.get();\n"
            "            let s2 = (s * 3 + d.rem_euclid(7) + 1 + %d) %% 1000003;\n            self.st.set(s2);\n            log(s2);\n            %s\n        }\n"
            % (sig, body, salt, ret_expr(d["ret"], d["recv"])))


def render_def(k, d):
    out = []
    out.append("pub mod d%d {\n    use super::*;\n" % k)
    tr, sig = render_trait(k, d)
    out.append(tr)
    out.append("    impl T for Imp {\n%s%s    }\n" % ("        type Item = u64;\n" if uses_assoc(d) else "", method_impl(d, sig)))
    # the same trait as the optional member of a group: reached through cast! / as_ref! / as_mut! of the group
    # (cglue_trait_group! does not accept a trait with an unwrapped associated type - E0107 - so no group there)
    grp = not uses_assoc(d)
    if grp:
        out.append("    #[cglue_trait]\n    pub trait Mk {\n        fn mk(&self) -> i64;\n    }\n    impl Mk for Imp {\n        fn mk(&self) -> i64 { 7 }\n    }\n")
        out.append("    cglue_trait_group!(G, Mk, { T });\n    cglue_impl_group!(Imp, G, { T });\n")
    # driver
    out.append("    pub fn run(rep: &mut Report) {\n")
    out.append(driver_blocks(k, d, "m", CONTAINERS[d["recv"]] + (FWD_CONTAINERS[d["recv"]] if forwardable(d) else []) + (GROUP_CONTAINERS[d["recv"]] if grp else [])))
    out.append("    }\n}\n")
    return "".join(out)


def driver_blocks(k, d, mname, containers):
    out = []
    for v in (0, 1):
        for s0 in (2, 5):
            setup, argx, post = arg_setup(d["arg"], v)
            def block(tag, mk, target, drop_after):
                b = []
                b.append("        {\n")
                b.append("            %s\n" % mk)
                b.append("            %s\n" % setup)
                b.append("            let _ = take_log();\n")
                b.append("            let%s r = %s;\n" % (" mut" if d["ret"] == "mutslice" else "", call_expr(d["recv"], target, argx, mname)))
                b.append("            %s\n" % RET_DIGEST[d["ret"]])
                if d["ret"] == "str":
                    b.append("            let _ = str_ptr;\n")
                b.append("            let lg = take_log();\n")
                b.append("            %s\n" % post)
                b.append("            %s\n" % drop_after)
                b.append("            rep.case(%d, \"%s\", %d, %d, %s, sent_d, sent_addr, rd, lg, post);\n" % (k, tag, v, s0, "false" if d["arg"] == "none" else "true"))
                b.append("        }\n")
                return "".join(b)
            mutkw = "mut " if d["recv"] in ("mut", "pinmut") else ""
            # direct call
            out.append(block("direct", "let %simp = Imp::new(%d); let imp_addr = &imp as *const Imp as i64;" % (mutkw, s0), "imp", ""))
            for cont in containers:
                om = "mut " if d["recv"] in ("mut", "pinmut") else ""
                if cont == "box":
                    mk = "let b = Box::new(Imp::new(%d)); let imp_addr = &*b as *const Imp as i64; let %sobj = trait_obj!(CBox::<Imp>::from(b) as T);" % (s0, om)
                elif cont == "ctxbox":
                    mk = ("let b = Box::new(Imp::new(%d)); let imp_addr = &*b as *const Imp as i64; let keep = std::sync::Arc::new(0u8); "
                          "let ctx = CArc::<u8>::from(keep.clone()).into_opaque(); let %sobj = trait_obj!((CBox::<Imp>::from(b), ctx) as T);" % (s0, om))
                elif cont == "ref":
                    mk = "let imp0 = Imp::new(%d); let imp_addr = &imp0 as *const Imp as i64; let %sobj = trait_obj!(&imp0 as T);" % (s0, om)
                elif cont == "mut":
                    mk = "let mut imp0 = Imp::new(%d); let imp_addr = &imp0 as *const Imp as i64; let %sobj = trait_obj!(&mut imp0 as T);" % (s0, om)
                elif cont == "grpbox":
                    mk = ("let b = Box::new(Imp::new(%d)); let imp_addr = &*b as *const Imp as i64; let g = group_obj!(CBox::<Imp>::from(b) as G); "
                          "let %sobj = cast!(g impl T).expect(\"cast\");" % (s0, om))
                elif cont == "grpref":
                    mk = "let imp0 = Imp::new(%d); let imp_addr = &imp0 as *const Imp as i64; let g = group_obj!(&imp0 as G); let %sobj = cast!(g impl T).expect(\"cast\");" % (s0, om)
                elif cont == "grpmut":
                    mk = "let mut imp0 = Imp::new(%d); let imp_addr = &imp0 as *const Imp as i64; let g = group_obj!(&mut imp0 as G); let %sobj = cast!(g impl T).expect(\"cast\");" % (s0, om)
                elif cont == "grpas":
                    if d["recv"] == "mut":
                        mk = ("let b = Box::new(Imp::new(%d)); let imp_addr = &*b as *const Imp as i64; let mut g = group_obj!(CBox::<Imp>::from(b) as G); "
                              "let obj = as_mut!(g impl T).expect(\"as_mut\");" % s0)
                    else:
                        mk = ("let b = Box::new(Imp::new(%d)); let imp_addr = &*b as *const Imp as i64; let g = group_obj!(CBox::<Imp>::from(b) as G); "
                              "let obj = as_ref!(g impl T).expect(\"as_ref\");" % s0)
                elif cont == "fwdref":
                    mk = "let imp0 = Imp::new(%d); let imp_addr = &imp0 as *const Imp as i64; let %sobj = trait_obj!(CBox::from(Fwd(&imp0)) as T);" % (s0, om)
                elif cont == "fwdmut":
                    mk = "let mut imp0 = Imp::new(%d); let imp_addr = &imp0 as *const Imp as i64; let %sobj = trait_obj!(CBox::from(Fwd(&mut imp0)) as T);" % (s0, om)
                elif cont == "fwdobj":
                    # an object over a forwarded reference to another object: two dispatches to reach the instance
                    mk = ("let mut imp0 = Imp::new(%d); let imp_addr = &imp0 as *const Imp as i64; let mut inner = trait_obj!(&mut imp0 as T); "
                          "let %sobj = trait_obj!(CBox::from(Fwd(&mut inner)) as T);" % (s0, om))
                else:
                    mk = "let a0 = CArcSome::from(Imp::new(%d)); let imp_addr = &*a0 as *const Imp as i64; let %sobj = trait_obj!(a0 as T);" % (s0, om)
                drop_after = "" if d["recv"] == "own" else ("drop(g);" if cont == "grpas" else "drop(obj);")
                if cont == "ctxbox":
                    drop_after += " rep.ctx(%d, std::sync::Arc::strong_count(&keep));" % k
                out.append(block(cont, mk, "obj", drop_after))
    return "".join(out)


def render_combo(k, ds):
    """a multi-method trait: three definitions of the grammar in one vtable, so that a call reaching the
    wrong slot changes the logged state trajectory (each method adds its own salt)"""
    out = ["pub mod d%d {\n    use super::*;\n    #[cglue_trait]\n    pub trait T {\n" % k]
    if any(uses_assoc(d) for d in ds):
        out.append("        type Item;\n")
    for j, d in enumerate(ds):
        out.append("        %s;\n" % method_sig(d, "m%d" % j))
    out.append("    }\n    impl T for Imp {\n")
    if any(uses_assoc(d) for d in ds):
        out.append("        type Item = u64;\n")
    for j, d in enumerate(ds):
        out.append(method_impl(d, method_sig(d, "m%d" % j), salt=17 * (j + 1)))
    out.append("    }\n    pub fn run(rep: &mut Report) {\n")
    # containers every receiver of the trait admits
    conts = [c for c in CONTAINERS["ref"] if all(c in CONTAINERS[d["recv"]] for d in ds)]
    for j, d in enumerate(ds):
        out.append(driver_blocks(k * 10 + j, d, "m%d" % j, conts))
    out.append("    }\n}\n")
    return "".join(out)


PRELUDE = r'''// generated by tools/render_progs.py from spec/Shapes.tla — do not edit
#![allow(unused_variables, unused_mut, unused_imports, dead_code, clippy::all)]
use cglue::prelude::v1::*;
use cglue::*;
use std::cell::{Cell, RefCell};
use std::pin::Pin;

#[repr(C)]
#[derive(Clone, Copy, PartialEq, Debug)]
pub struct Pt {
    pub x: i32,
    pub y: i64,
    pub z: u8,
}

/// a user error type with negative integer codes (errno style)
#[repr(C)]
#[derive(Clone, Copy, PartialEq, Debug)]
pub struct NegErr {
    pub code: i32,
}
impl cglue::result::IntError for NegErr {
    fn into_int_err(self) -> std::num::NonZeroI32 {
        std::num::NonZeroI32::new(self.code).unwrap()
    }
    fn from_int_err(err: std::num::NonZeroI32) -> Self {
        NegErr { code: err.get() }
    }
}

thread_local! { static LOG: RefCell<Vec<i64>> = RefCell::new(Vec::new()); }
pub fn log(v: i64) {
    LOG.with(|l| l.borrow_mut().push(v));
}
pub fn take_log() -> Vec<i64> {
    LOG.with(|l| std::mem::take(&mut *l.borrow_mut()))
}

pub struct Imp {
    pub magic: u32,
    pub st: Cell<i64>,
    pub buf: [u8; 4],
    pub tbuf: [u8; 7],
    pub cell: u64,
}
impl Imp {
    pub fn new(s0: i64) -> Self {
        Imp { magic: 0xFEED, st: Cell::new(s0), buf: [10, 20, 30, 40], tbuf: [0x61, 0xC3, 0xA9, 0x00, 0xE2, 0x82, 0xAC], cell: 4242 }
    }
    pub fn check(&self) {
        if self.magic != 0xFEED {
            log(-999_999);
        }
    }
}
impl Drop for Imp {
    fn drop(&mut self) {
        self.magic = 0xDEAD;
        DROPS.with(|d| d.set(d.get() + 1));
    }
}
thread_local! { static DROPS: Cell<usize> = Cell::new(0); }

/// Collects one record per (definition, container, variant, initial state) and compares every
/// opaque call with the direct call of the same case.
pub struct Report {
    pub cases: usize,
    pub failures: Vec<String>,
    direct: std::collections::HashMap<(usize, usize, i64), (Vec<i64>, Vec<i64>, Vec<i64>)>,
}
impl Report {
    pub fn new() -> Self {
        Report { cases: 0, failures: vec![], direct: Default::default() }
    }
    fn fail(&mut self, class: &str, def: usize, cont: &str, v: usize, s0: i64, msg: String) {
        if self.failures.len() < 200 {
            self.failures.push(format!("{{\"class\":\"{}\",\"def\":{},\"cont\":\"{}\",\"variant\":{},\"s0\":{},\"msg\":\"{}\"}}", class, def, cont, v, s0, msg));
        }
    }
    #[allow(clippy::too_many_arguments)]
    pub fn case(&mut self, def: usize, cont: &str, v: usize, s0: i64, has_arg: bool, sent_d: i64, sent_addr: i64, rd: Vec<i64>, lg: Vec<i64>, post: Vec<i64>) {
        self.cases += 1;
        // C02: what arrived is what was sent (digest first, then the address for by-reference shapes)
        if lg.is_empty() {
            self.fail("c01", def, cont, v, s0, "method body was not reached".into());
            return;
        }
        if lg.iter().any(|&x| x == -999_999) {
            self.fail("c01", def, cont, v, s0, "call reached a destroyed instance".into());
        }
        if has_arg && lg[0] != sent_d {
            self.fail("c02", def, cont, v, s0, format!("argument digest received {} sent {}", lg[0], sent_d));
        }
        if sent_addr != 0 && (lg.len() < 3 || lg[1] != sent_addr) {
            self.fail("c02", def, cont, v, s0, format!("argument address received {} sent {}", lg.get(1).copied().unwrap_or(0), sent_addr));
        }
        // normalise the log for comparison with the direct call: drop absolute argument addresses
        let mut norm = lg.clone();
        if sent_addr != 0 && norm.len() >= 2 {
            norm.remove(1);
        }
        if cont == "direct" {
            self.direct.insert((def, v, s0), (rd, norm, post));
            return;
        }
        let (drd, dlg, dpost) = match self.direct.get(&(def, v, s0)) {
            Some(x) => x.clone(),
            None => {
                self.fail("c01", def, cont, v, s0, "no direct call recorded".into());
                return;
            }
        };
        // C01: same results, same state trajectory, called exactly once
        if rd != drd {
            self.fail("c01", def, cont, v, s0, format!("result through the object {:?} differs from the direct call {:?}", rd, drd));
            if norm == dlg {
                // the callee did exactly what it does in the direct call: the value was altered on its way back (C02)
                self.fail("c02", def, cont, v, s0, format!("result altered crossing the boundary: arrived {:?}, the callee returned {:?}", rd, drd));
            }
        }
        if norm != dlg {
            self.fail("c01", def, cont, v, s0, format!("callee log through the object {:?} differs from the direct call {:?} (wrong method, lost update or double call)", norm, dlg));
        }
        // C02: writes made by the callee are visible to the caller
        if post != dpost {
            self.fail("c02", def, cont, v, s0, format!("caller-visible state after the call {:?} differs from the direct call {:?}", post, dpost));
        }
    }
    pub fn ctx(&mut self, def: usize, count: usize) {
        if count != 1 {
            self.fail("c07", def, "ctxbox", 0, 0, format!("context count {} after the object is gone", count));
        }
    }
}
'''

MAIN = r'''
fn main() {
    let mut rep = Report::new();
%s
    let made_dropped = DROPS.with(|d| d.get());
    println!("{{\"summary\":\"progs\",\"defs\":%d,\"cases\":{},\"failures\":{},\"first_failures\":[{}],\"imps_dropped\":{}}}",
             rep.cases, rep.failures.len(), rep.failures.iter().take(40).cloned().collect::<Vec<_>>().join(","), made_dropped);
}
'''


def main():
    defs_path, out_dir = sys.argv[1], sys.argv[2]
    lint = "--lint" in sys.argv
    data = json.loads(open(defs_path).read())
    defs = sorted(data["defs"], key=lambda x: json.dumps(x["d"], sort_keys=True))
    os.makedirs(os.path.join(out_dir, "src"), exist_ok=True)
    index = []
    if lint:
        parts = ["pub use cglue::prelude::v1::*;\npub use cglue::*;\npub use std::pin::Pin;\n#[repr(C)]\n#[derive(Clone, Copy)]\npub struct Pt { pub x: i32, pub y: i64, pub z: u8 }\n#[repr(C)]\n#[derive(Clone, Copy)]\npub struct NegErr { pub code: i32 }\nimpl cglue::result::IntError for NegErr {\n    fn into_int_err(self) -> std::num::NonZeroI32 { std::num::NonZeroI32::new(self.code).unwrap() }\n    fn from_int_err(err: std::num::NonZeroI32) -> Self { NegErr { code: err.get() } }\n}\n"]
        for k, e in enumerate(defs):
            tr, _ = render_trait(k, e["d"])
            parts.append("pub mod d%d {\n    use super::*;\n%s}\n" % (k, tr))
            index.append({"k": k, "d": e["d"], "sig": e["sig"]})
        # inside the antecedent, beyond single methods: temporary-return structures (wrapped associated returns), groups with
        # their containers and cast variants, a group-wrapped return - "every generated object, group, container and
        # temporary-return structure ... has a defined C representation"
        parts.append("""pub mod d8001 {
    use super::*;
    #[cglue_trait]
    pub trait In { fn iv(&self) -> u64; }
    #[cglue_trait]
    pub trait T {
        #[wrap_with_obj(In)]
        type Own: In + 'static;
        #[wrap_with_obj_ref(In)]
        type RefT: In + 'static;
        #[wrap_with_obj_mut(In)]
        type MutT: In + 'static;
        fn own(&self) -> Self::Own;
        fn r(&self) -> &Self::RefT;
        fn m(&mut self) -> &mut Self::MutT;
    }
}
pub mod d8002 {
    use super::*;
    #[cglue_trait]
    pub trait Ma { fn a(&self) -> u64; }
    #[cglue_trait]
    pub trait Oa { fn b(&self, x: &[u8]) -> Option<u64>; }
    #[cglue_trait]
    pub trait Ob { fn c(&mut self, s: &str) -> Result<u64, u64>; }
    cglue_trait_group!(G, Ma, { Oa, Ob });
    #[cglue_trait]
    pub trait T {
        #[wrap_with_group(G)]
        type Grp: Ma + 'static;
        #[wrap_with_group_ref(G)]
        type GrpRef: Ma + 'static;
        fn grp(&self) -> Self::Grp;
        fn grp_ref(&self) -> &Self::GrpRef;
    }
}
""")
        # methods the user declared `extern "C"` themselves, over the shapes the generator wraps: the vtable entry and the
        # generated wrapper still have to use the C-representable forms (the user's own declaration is theirs to answer for)
        parts.append("""pub mod d8003 {
    use super::*;
    #[cglue_trait]
    pub trait T {
        extern "C" fn e_slice(&self, a: &[u32]) -> u32;
        extern "C" fn e_mslice(&mut self, a: &mut [u8]);
        extern "C" fn e_str(&self, a: &str) -> u64;
        extern "C" fn e_opt(&self, a: Option<u64>) -> Option<u32>;
        extern "C" fn e_res(&self, a: Result<u64, u64>) -> Result<u32, u32>;
        extern "C" fn e_rstr(&self) -> &str;
        extern "C" fn e_rslice(&self) -> &[u8];
        extern "C" fn e_leaf(&self, a: u32, b: Pt) -> u64;
    }
}
""")
        index.append({"k": 8003, "extra": True, "user_abi": True, "d": {"recv": "ref", "arg": "wrapped shapes", "ret": "methods declared extern \"C\" by the user", "ir": False}, "sig": None,
                      "probe_types": ["crate::d8003::TBox<'static>", "crate::d8003::TRef<'static>", "crate::d8003::TArcBox<'static>"]})
        # Option around cglue's own containers: multi-word #[repr(C)] structs, not pointer wrappers - `Option<CBox<T>>` has no
        # C representation however non-null its first field is, and has to cross as COption like any other Option
        parts.append("""pub mod d8004 {
    use super::*;
    #[cglue_trait]
    pub trait T {
        fn put(&mut self, a: Option<CBox<'static, u32>>) -> u32;
        fn shared(&self) -> Option<CArcSome<u32>>;
        fn shared_in(&self, a: Option<CArcSome<u32>>) -> Option<CBox<'static, u32>>;
        fn ctx(&self, a: Option<CArc<u32>>) -> u64;
        fn sl(&self, a: Option<CSliceRef<'static, u8>>) -> Option<CSliceBox<'static, u8>>;
    }
}
""")
        index.append({"k": 8004, "extra": True, "d": {"recv": "ref", "arg": "Option around CBox / CArcSome / CArc / CSliceRef", "ret": "Option around CArcSome / CBox / CSliceBox", "ir": False}, "sig": None,
                      "probe_types": ["crate::d8004::TBox<'static>", "crate::d8004::TRef<'static>"]})
        index.append({"k": 8001, "extra": True, "d": {"recv": "ref", "arg": "none", "ret": "wrapped objects (owned, by reference, by mutable reference)", "ir": False}, "sig": None,
                      "probe_types": ["crate::d8001::InBox<'static>"]})
        index.append({"k": 8002, "extra": True, "d": {"recv": "ref", "arg": "none", "ret": "group with two optional traits; group-wrapped returns", "ir": False}, "sig": None,
                      "probe_types": ["crate::d8002::GBox<'static>", "crate::d8002::GArcBox<'static>", "crate::d8002::GRef<'static>", "crate::d8002::GMut<'static>",
                                      "crate::d8002::MaBox<'static>", "crate::d8002::ObMut<'static>"]})
        # canaries: shapes that are *not* C-representable leaves (outside C03's antecedent); the FFI lint
        # must fire on them, which shows that the lint is active on these expansions
        parts.append("pub mod d9001 {\n    use super::*;\n    #[cglue_trait]\n    pub trait T {\n        fn m(&self, a: (u8, u8)) -> u8;\n    }\n}\n")
        parts.append("pub mod d9002 {\n    use super::*;\n    #[cglue_trait]\n    pub trait T {\n        fn m(&self, a: fn(u8) -> u8) -> u8;\n    }\n}\n")
        index.append({"k": 9001, "canary": True, "d": {"recv": "ref", "arg": "tuple", "ret": "i64", "ir": False}, "sig": None})
        index.append({"k": 9002, "canary": True, "d": {"recv": "ref", "arg": "rust_fn", "ret": "i64", "ir": False}, "sig": None})
        open(os.path.join(out_dir, "src", "defs.rs"), "w").write("".join(parts))
    else:
        parts = [PRELUDE]
        calls = []
        for k, e in enumerate(defs):
            parts.append(render_def(k, e["d"]))
            calls.append("    d%d::run(&mut rep);" % k)
            index.append({"k": k, "d": e["d"], "sig": e["sig"]})
        # multi-method traits built from consecutive triples of non-int_result definitions
        plain = [e["d"] for e in defs if not e["d"]["ir"]]
        ncombo = 0
        base = 100000
        for i in range(0, len(plain) - 2, 3):
            ds = plain[i:i + 3]
            parts.append(render_combo(base + ncombo, ds))
            calls.append("    d%d::run(&mut rep);" % (base + ncombo))
            index.append({"k": base + ncombo, "combo": ds})
            ncombo += 1
        parts.append(open(os.path.join(os.path.dirname(os.path.abspath(__file__)), "progs_extras.rs")).read())
        calls.append("    extras::run(&mut rep);")
        parts.append(MAIN % ("\n".join(calls), len(defs)))
        open(os.path.join(out_dir, "src", "main.rs"), "w").write("".join(parts))
        open(os.path.join(out_dir, "Cargo.toml"), "w").write('''[package]
name = "progs"
version = "0.0.0"
edition = "2018"

[workspace]

[dependencies]
cglue = { path = "/repo/cglue" }

[profile.dev]
opt-level = 0
debug = 0
''')
    json.dump(index, open(os.path.join(out_dir, "index.json"), "w"))
    print(len(defs))


if __name__ == "__main__":
    main()
