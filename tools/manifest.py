#!/usr/bin/env python3
"""Regenerates MANIFEST.json from the table below (single source of truth for the interface)."""
import json, os
V = os.path.dirname(os.path.dirname(os.path.abspath(__file__)))
BASELINE = ("cd /repo && cargo nextest run --workspace --no-fail-fast --tool-config-file pb:/w/lib/nextest.toml "
            "--profile pb --test-threads 8 --offline || cargo test --workspace --no-fail-fast --offline")

CHECKS = {
 "C11": dict(
    text="TLC exhaustively checks spec/CVec.tla (ideal Vec semantics with element identities, drop ledger and capacity rule) on a bounded alphabet; every behaviour of the generator config is replayed on the real cglue::vec::CVec for 4 element types with per-step comparison of contents, drop counts, call outcome, allocator ledger and stored-function call counts; seeded random driver traces of the real CVec are validated event by event by TLC against the same actions (Trace_CVec). Later rounds: CVec::default for empty vectors without a buffer; simulated behaviours as independent traces.",
    note="Trusted: TLC, the adapter's projection (rt/src/vecad.rs), the ledger allocator. Capacities are never compared. Bounds in evidence.tlc_runs; memory-safety symptoms only as far as counters/ledger/guards expose them.",
    technique="TLA+ spec + TLC exhaustive model check; TLC-generated behaviours replayed on the implementation; implementation traces validated against the spec by TLC",
    design="DESIGN.md §5 C11"),
}

CHECKS["C10"] = dict(
    text="TLC exhaustively checks spec/CArc.tla (pool of CArc/CArcSome/opaque/Option/std-Arc handles over counted allocations, per-thread slot ownership, stored clone/drop function call counts) for all interleavings of 2 threads; every generated behaviour is replayed on real cglue::arc handles with each operation executed on the OS thread the spec names; -simulate behaviours of depth 40; random driver traces validated by TLC (Trace_CArc); free-running mode: 3 OS threads operate concurrently on their own handles of shared allocations, TLC validates a completion-ordered linearisation and compares the whole observable state after the threads have joined. Later rounds: reference transposes (From<&CArc> / From<&mut CArc>), into_arc, simulated behaviours as independent traces.",
    note="Trusted: TLC, rt/src/arcad.rs projection (Arc::strong_count of a retained Arc, destructor counters, interposed clone_fn/drop_fn via the C layout). Interleaving granularity is one public operation.",
    technique="TLA+ spec + TLC exhaustive model check over thread interleavings; behaviour replay on real threads; trace validation by TLC",
    design="DESIGN.md §5 C10")
CHECKS["C19"] = dict(
    text="TLC exhaustively checks spec/Waker.tla (original waker count/wakes, shared records, foreign waker slots owned by threads, polls) and shows that the pre-fix deviation violates ReleasedAtMostOnce; every generated behaviour is replayed through opaque Future, Stream and Sink objects whose poll executes the script step by step so other threads' operations interleave with the poll; simulate behaviours of depth 60; random traces validated by TLC. Later rounds: two caller wakers (successive polls come with different wakers; a retained foreign waker must wake the one it was cloned from) and Waker!seen: the reference count the original observes at the instant it is woken (a wake must run while the clone it goes through is still held). Round 7: the by-value wake is two actions (FWakeBegin: the caller's wake function is entered; FWakeEnd: it returns and the handle is given up) with arbitrary operations of the same thread (re-entrantly, from inside the wake function) and of other threads in between; the adapter holds the original's wake function open and executes the nested commands from inside it.",
    note="Trusted: TLC, rt/src/wakerad.rs (counting Arc waker with 64 spare references so a double release is a count, Waker::data() for record identity). Found and fixed F1 (see known_findings.json).",
    technique="TLA+ spec + TLC exhaustive model check (ideal and deviation configs); behaviour replay through opaque Future/Stream/Sink; trace validation by TLC",
    design="DESIGN.md §5 C19, §6 F1")

CHECKS["C14"] = dict(
    text="spec/CString.tla states the buffer discipline (prefix before first NUL + exactly one NUL, one heap block of exactly that size per string, content equality); TLC checks WellFormed/OneBufferEach in every state while enumerating the complete bounded input space (all words of <=3 (thorough 4) characters over {NUL,'a',U+E9,U+20AC,U+10348}) x the three constructors and all operation sequences over representative inputs; every behaviour is replayed on the real ReprCString/ReprCStr with the ledger allocator reporting the block size behind the pointer, leaks, mismatched frees and guard damage; random traces validated by TLC. Later rounds: ReprCStr equality/hash for equal texts and inequality with a proper extension.",
    note="Trusted: TLC, rt/src/cstrad.rs, the ledger allocator (block sizes, guard bytes). Found and fixed F3 (known_findings.json).",
    technique="TLA+ spec; TLC enumeration of the bounded input space with invariants; behaviour replay against the implementation with allocator ledger; trace validation by TLC",
    design="DESIGN.md §5 C14, §6 F3")

CHECKS["C12"] = dict(
    text="spec/Views.tla states that every conversion between Rust slices and CSliceRef/CSliceMut is the identity on (address, length, contents), that writes through mutable views land in the buffer, and that Option/Result/tuple <-> COption/CResult/CTupN keep variant and payload with payloads destroyed exactly once; spec/Utf8.tla is the RFC 3629 byte-class recogniser. TLC enumerates all chains of the stated depth and all byte strings of length <=4 over a 19-byte boundary alphabet (137 561 strings) with the predicted verdict; each is executed on the real types (4 element types incl. ZST and a 3-byte struct) and compared step by step. Later rounds: &mut str <-> CSliceMut<u8> (From, into_mut_str, into_str, TryFrom) for every valid string of the UTF-8 enumeration; CResult::ok, COption/CResult::as_mut assignment, COption::default, unwrap paths (Views!ResOk, ReplaceMut, DefaultOpt).",
    note="Trusted: TLC, rt/src/viewsad.rs. Spec->impl direction only (pure conversions; no implementation traces).",
    technique="TLA+ specs; TLC enumeration of the bounded input/chain space with predicted observations; replay on the implementation",
    design="DESIGN.md §5 C12")
CHECKS["C13"] = dict(
    text="spec/IntRes.tla models encoder/decoder with an explicit caller-owned output slot; TLC checks ZeroIffOk, SlotDiscipline, ReadOnlyOnZero, OsRoundTrip and NoErrorEncodesToZero on every script over the representative i32 code set and all shipped error flavours; every script is replayed on cglue::result (slot pre-filled with a byte pattern so an untouched slot is observable, droppable success payloads); random traces over random i32 codes are validated by TLC; thorough sweeps all 2^32 OS codes natively against the closed form transcribed from the spec. Trait-level int_result methods are exercised by the grammar harness when present in evidence.trait_level. Later rounds (program space, extras): int_result at trait and method level, #[no_int_result], #[int_result(Alias)], unit and payload results, positive and negative OS codes, an unmarked io::Error result after a marked method (must not be int-coded); every argument shape on an int_result method.",
    note="Trusted: TLC, rt/src/intresad.rs. TLC integers are 32-bit, hence the native sweep for the full code space.",
    technique="TLA+ spec with action properties checked by TLC; script replay on the implementation; trace validation by TLC",
    design="DESIGN.md §5 C13")
CHECKS["C15"] = dict(
    text="TLC exhaustively checks spec/Feed.tla (source iterator, CIterator wrapper, closure/Vec/Extend sinks, stop positions, feed_into/feed_into_mut/Extend, item identities with destructor counts) and generates every behaviour of the stated depth plus long simulated ones; each is replayed on the real OpaqueCallback/FeedCallback/FromExtend/CIterator with per-step comparison of sink contents, invocation counts, reported counts, remaining source items and drop counts; random traces validated by TLC. Later rounds: sources lent by reference (FeedRef: what was not offered must still be in the source), C-style callbacks (Callback::new + extern \"C\" fn), as_citer. Round 8: non-fused sources (Feed!Refill): the wrapped iterator must yield again after it has reported the end once the source has more.",
    note="Trusted: TLC, rt/src/feedad.rs, ledger allocator.",
    technique="TLA+ spec + TLC exhaustive model check; behaviour replay; trace validation by TLC",
    design="DESIGN.md §5 C15")

_OBJ_NOTE = "Trusted: TLC, rt/src/objad.rs (projection through the objects' own id methods, payload registers read from live payload memory, Weak::strong_count for contexts, ledger allocator). Reference trait family harness/objfam; bounds in evidence.tlc_runs."
CHECKS["C06"] = dict(
    text="TLC exhaustively checks spec/CGlueObj.tla (payloads with identity and drop counters, handles of kind box/mut/ref/arcsome viewed as single-trait object, group, cast or final variant, contexts, six-step by-value call) for DropAtMostOnce, NoDangling, OwnedExactlyOnce, BorrowNeverFrees; every behaviour of depth 2 over the full alphabet and thousands of simulated behaviours of depth 12 are replayed on real cglue objects built with trait_obj!/group_obj!/cast!/into!/as_ref!/as_mut!/upcast/Clone/wrapped children/by-value calls, comparing per step payload states, drop counts, handles and at quiescence the allocator ledger; the same executions are logged and validated by TLC (Trace_CGlueObj) with every invariant evaluated per state. Later rounds: typed CBox/CSliceBox lifecycle (spec/Boxes.tla, incl. zero-sized payloads and empty boxed slices), ob_try (see C07).",
    note=_OBJ_NOTE, technique="TLA+ spec + TLC exhaustive model check; behaviour replay on real objects; trace validation by TLC", design="DESIGN.md §5 C06")
CHECKS["C07"] = dict(
    text="As C06 on the same specification, for CtxCountExact, CtxReleasedIffUnreferenced, CtxNotEarly, CtxAliveInCall and NoCtxLeak, with a deviation config that must (and does) violate NoCtxLeak. Context counts are read after every step; by-value calls on objects that hold the last context reference are run through an interposed vtable slot so that callee entry/exit, body, payload destructor and context destructor become trace events, and TLC accepts a context-destructor event only after the callee has returned. The borrowed-child context leak is reported as known finding F2. Later rounds: a fallible by-value call returning Result<wrapped child, ()> (Ob::ob_try: ob_try_ok / ob_try_err) in the object family and in CGlueObj.tla. Round 8: lending (GAT) owned child, CGlueObj!KidView: the context count observed while the lent object lives is part of the action's outcome.",
    note=_OBJ_NOTE + " Known finding F2 listed in known_findings.json.", technique="TLA+ spec + TLC model check (ideal + deviation); behaviour replay; fine-grained trace validation by TLC with an interposed vtable", design="DESIGN.md §5 C07, §6 F2")
CHECKS["C01"] = dict(
    text="Call histories: spec/CGlueObj.tla gives every method of the reference family its own non-idempotent effect modulo 61; all behaviours of depth 2 and simulated behaviours of depth 12 (objects, groups, every successful cast/final view, clones, children, borrowed and boxed and Arc-held instances, with and without context) are replayed on the real objects and the returned value, the payload's register (read from its memory) and the instance reached (read through the object) are compared after every call; traces validated by TLC. Program space (all trait shapes of the grammar) is covered when evidence.program_space reports it. Later rounds: see C02 for the widened program space (forwarding and group containers, new shapes); extras: default bodies behind `where Self: Sized`, int_result family; ob_try in the object family. Simulated behaviours are independent traces (Gen_* fin step, four seeds). Round 8: borrowed wrapped children selected by argument (two inner values, fixed and selecting accessors: CGlueObj!KidBorrowed sel) - which inner value a by-reference wrapper reaches is decided by the call that returned it.",
    note=_OBJ_NOTE, technique="TLA+ spec + TLC; behaviour replay; trace validation by TLC", design="DESIGN.md §5 C01")
CHECKS["C08"] = dict(
    text="Group casts on spec/CGlueObj.tla: CastIff and SameInstance are checked by TLC; check/as_ref/as_mut/cast/into/upcast for 8 requested sets over a group with 5 optional traits and 6 implementing types (distinct enabled sets) on Box/Mut/Ref containers are replayed on the real macros with verdict, dispatch target and follow-up calls compared; failing cast/into must drop the container exactly once. The exhaustive n<=4 matrix is covered when evidence.cast_matrix reports it.",
    note=_OBJ_NOTE, technique="TLA+ spec + TLC; behaviour replay; trace validation by TLC", design="DESIGN.md §5 C08")

CHECKS["C09"] = dict(
    text="spec/SendSync.tla states Rust's auto-trait rules for every typed instance handle and the bounds the library actually writes for each opaque conversion; TLC enumerates the complete finite matrix ({instance, Fwd, object, group} x {&T, &mut T, CBox, CSliceBox, CArc, CArcSome} x 4 payload classes x {Send, Sync}) with both predictions. A probe crate built against /repo evaluates the real Send/Sync/Opaquable facts of every cell in one build; the verdict per cell is the property's own predicate on the observed facts (opaque has the marker and the instance handle lacks it); disagreement with the spec's implementation rules is model drift. The 27 violating conversion cells (upstream issue #18) are listed one by one as known findings F4. Round 2/3: the same matrix also compares every TYPED smart pointer (CBox, CSliceBox, CArc, CArcSome) with Rust's rule for the std handle it is built from, and every typed object/group/Fwd with its instance handle: a wrapper that claims a marker its source lacks is a violation.",
    note="Trusted: TLC, rustc's trait solver (the executed oracle), the inherent-const probe (self-checked on u64/Rc/Cell). Level: complete enumeration of a finite matrix.",
    technique="TLA+ rule model enumerated by TLC; compiler-evaluated probe matrix compared per cell",
    design="DESIGN.md §5 C09, §6 F4")

CHECKS["C02"] = dict(
    text="spec/Shapes.tla enumerates the single-method trait grammar (5 receivers x 14 argument shapes x 10 return shapes x int_result, minus combinations Rust or the generator cannot express) with the C signature predicted for each; every definition is rendered into a trait, a logging implementor and a driver, compiled against /repo and executed directly and through every admissible container (Box, Box+Arc context, &, &mut, CArcSome) with two values per shape (empty/extreme included): the digest and address logged by the callee must equal what the caller sent, returned values/borrows must equal the direct call's, and callee writes through &mut shapes must be visible to the caller. Later rounds added: forwarding containers (CBox<Fwd<&mut T>>, CBox<Fwd<&mut object>>), group containers (the trait as optional member reached through cast!/as_ref!/as_mut!), argument shapes Option<&mut T>, &[u64], &[()] (zero-sized elements), Option<struct>, raw pointer, Option<raw pointer>; return shapes &T, &mut T, Option<struct>, Result<u64, io::Error> with negative OS codes under int_result; a result that differs while the callee's log is identical counts as altered on the way back.",
    note="Trusted: TLC (enumeration), tools/render_progs.py (renderer), rustc. Quick = pairwise slice of the grammar (129 definitions), thorough = full grammar (644).",
    technique="TLA+ grammar enumerated by TLC; each enumerated program compiled and executed against the implementation (translation of spec states into programs)",
    design="DESIGN.md §5 C02")
CHECKS["C03"] = dict(
    text="spec/Shapes.tla states (ASSUME AllFfiSafe) that every C type the generator is documented to produce for the grammar is C-representable and predicts each slot's signature; every enumerated definition is expanded by the real cglue-gen (linked as a library), written out as ordinary source and compiled with rustc's improper_ctypes / improper_ctypes_definitions lints on vtable fields, wrapper functions and concrete Box/ArcBox/Ref/Mut instantiations; every generated struct and every public wrapper type in cglue/src is scanned for #[repr(C)]/#[repr(transparent)]/#[repr(u8)]; vtable entries must be extern \"C\". Two non-C shapes (tuple, Rust-ABI fn pointer) are canaries that the lint is live. Signature differences from the prediction are model drift, not alarms. Later rounds: every argument shape also on a method that uses integer result codes (quick selection); shapes listed under C02. Round 7: the documented shapes over an unwrapped associated type (Self::Item, &Self::Item, &[Self::Item], Option<Self::Item>, Result<Self::Item,_>; generic vtable parameter).",
    note="Trusted: rustc's FFI lints (the final judge), syn-based scan in harness/gen. Quick = pairwise slice, thorough = full grammar.",
    technique="TLA+ grammar enumerated by TLC with predicted signatures; real generator expansion judged by the compiler's FFI lint",
    design="DESIGN.md §5 C03")

CHECKS["C04"] = dict(
    text="spec/Layout.tla defines the documented layout (vtable = methods in declaration order; group = mandatory vtables by name, optional vtables by name/alias, container {instance, context, temporaries}) and TLC checks (ASSUME OrderInvariant) that it does not depend on listing order while enumerating every listing order of every group set over a pool of traits whose declaration order is not alphabetical. The real generator expands the definitions in repeated fresh processes (identical layout tables required), the field tables are compared with the predicted order, and a compiled crate reads real trait objects and group objects as raw words: vtable word k = k-th method's function pointer, group words = per-trait vtable pointers in the predicted order (null for absent optionals) followed by the instance, and concrete vs opaque forms have identical size, alignment and bits. Later rounds: mixed-case trait names (byte order), attribute-bearing methods (#[vtbl_only] slots stay in declaration order, #[skip_func] methods are not exported). Round 7: Layout!ContainerWords - word offsets of instance, context and temporary storage over the full product instance{CBox,&} x context{none,CArc} x storage{none, wrapped reference}, read from real single-trait objects (Arc payload pointer and wrapped-reference object found at the predicted words).",
    note="Trusted: TLC, harness/gen (syn field tables), the raw-word reader. Cross-crate/plugin sides are exercised by C05.",
    technique="TLA+ layout function checked for order-invariance and enumerated by TLC; generator output and raw object words compared with the prediction",
    design="DESIGN.md §5 C04")

CHECKS["C20"] = dict(
    text="spec/LayoutCheck.tla defines the C-visible interface of a trait/group, the verdict of comparing two builds and the verdict algebra; TLC checks the algebra laws and that, over the enumerated single-edit variants (add/remove/rename/reorder a method, change an argument or return type, receiver kind, int_result, add an argument; documentation, default bodies and skip_func methods; group traits added, removed, replaced, relisted), Valid is predicted exactly for interface-preserving edits. Every variant is rendered into its own module of a crate built with the layout_checks feature and compared with cglue's compare_layouts in both directions; missing descriptions must give Unknown; VerifyLayout::and is compared with the model on all 9 pairs. Later rounds: the base trait has four methods (ref, mut, ref/Result, by-value) and every per-method edit is applied at every position; group edits include a changed method inside a mandatory, an optional and the last optional member trait; is_valid_strict / is_valid_relaxed per verdict. Round 7: methods whose arguments/returns are the library's generic wrappers (OpaqueCallback, CIterator, slice, Option, CVec, CTup2, CBox) with element-type edits in first/second argument and return position.",
    note="Trusted: TLC, abi_stable's layout comparison (the executed oracle), the renderer. Complete enumeration of the listed edit kinds on one base definition.",
    technique="TLA+ interface/verdict model enumerated by TLC; each (definition, edit) pair compiled and compared at run time",
    design="DESIGN.md §5 C20")

CHECKS["C16"] = dict(
    text="No new model: every behaviour TLC generates from spec/CVec.tla that a C caller can provoke and every behaviour of spec/CArc.tla is replayed with the mutations performed by a C driver (cview/cview.c, compiled with gcc -std=c99 and linked into the adapter) that knows only the published field layouts - vector push/pop/insert/remove/reserve/write/release through {data, len, capacity, drop_fn, reserve_fn} for four element types of different size and alignment, arc clone/release through {instance, clone_fn, drop_fn} - and the resulting state is projected through the Rust API and compared with the specification's expectation step by step (plus allocator ledger). Box release, slice reads/writes, the callback feed loop, iterator advance and the option/result tags are checked differentially against the corresponding Rust operation. Later rounds: the reserve postcondition (capacity - len >= n) is asserted through the C layout; vectors of heap-owning and zero-sized droppable elements are released from C (drop ledger of CVec.tla); option/result with payloads narrower than the tag (sizes, every byte of the tag, values built by C).",
    note="Trusted: TLC (behaviour generation), gcc, the hand-written C declarations (from the property statement). Thorough adds the release build.",
    technique="TLC-generated behaviours of the runtime specs replayed through a C driver operating the published layouts; differential C-vs-Rust scripts",
    design="DESIGN.md §5 C16")

CHECKS["C05"] = dict(
    text="No separate model: the specifications already checked by TLC for C06/C07/C11 (spec/CGlueObj.tla, spec/CVec.tla) are bound to a two-module configuration. A plugin (cdylib with its own ledger allocator) and the host adapter are built by separate cargo invocations from a matrix of installed toolchains x debug/release x -Zrandomize-layout seeds; every object, group, vector and arc is created inside the plugin through extern \"C\" constructors returning #[repr(C)] values, and the TLC-generated behaviours are replayed with all calls, casts, clones, by-value calls and destruction issued by the host. Besides the per-step comparison with the specification, the host's ledger must see no free of memory it did not allocate and the plugin's live-block count must return to its base (memory released by the module that allocated it). Later rounds: vectors with capacity 0 (CVec::default) created in the plugin and first grown in the host; clones made in the host of plugin-created vectors. Round 7: a second exhaustive configuration with failing casts (MC_CGlueObj_cast.cfg); vectors, boxed slices and boxes of ReprCString (elements own memory of the creating module) made by one module and destroyed by the other, both directions; callbacks and iterators in all four creator/user combinations. Later still: spec/Modules.tla states memory ownership between modules (every block ends in a free that reaches the allocator that handed it out, with the allocated size; each module is balanced at every quiescent marker); TLC checks it and shows that the foreign_free deviation violates NoForeignFree. The tagging allocators of host and plugin record what they are asked to do on one shared clock during every cross-module replay and script, and TLC validates the merged log (Trace_Modules) event by event.",
    note="Trusted: TLC, both adapters, the ledger allocators. Quick = 2 module pairs (stable-debug x nightly-release-randomized, both directions); thorough = 8 pairs over 6 build variants.",
    technique="TLC-generated behaviours of the object/vector specifications replayed across a matrix of separately compiled module pairs with tagging allocators; TLA+ spec of memory ownership between modules (Modules.tla) model-checked and used to validate the merged allocator logs recorded from the real code",
    design="DESIGN.md §5 C05")

CHECKS["C17"] = dict(
    text="spec/Bindgen.tla enumerates API models (objects of three traits over Box/Mut/Ref x no/Arc context, groups with clashing function names, tool configurations incl. default container/context and function prefix, foreign declarations, context-generic structures) and defines the lifecycle of one wrapper invocation as a C or C++ caller observes it. Each selected model is rendered into a cbindgen-shaped C header, processed by the real cglue-bindgen built from /repo (fake cbindgen on PATH), compiled with a generated driver whose mock vtables and mock box/arc functions log every event, and the concatenated event log is validated by TLC (Trace_Bindgen): the wrapper of every vtable entry must reach exactly that entry of that object with &container first and its own arguments unchanged, return the entry's result, and consuming wrappers / drop helpers must clone the context before the call and release instance and context exactly once (GuardAlive invariant). Entries without a callable wrapper are violations. Later rounds: container-returning (Clone-like) entries, callbacks of struct and primitive elements, function-pointer arguments, same-name same-shape functions at different vtable positions; wrappers are looked up by the naming convention first and then by method name + fitting signature (the property asks for a callable wrapper, not for a name). Found and fixed F9 F10 F11 as well. Round 8: pointer-valued results (void *, const void *, typed) incl. consuming entries (trait Tf); drivers compiled with -Werror=return-type.",
    note="Trusted: TLC, tools/cbgen.py (synthetic headers: cbindgen is not installed), the mock callee. C and C++ generators (C++ headers by tools/cbgen_cpp.py; in C++ the destructor is the drop helper). Found and fixed F7 and F5 (known_findings.json).",
    technique="TLA+ model space enumerated by TLC; real tool run on rendered headers; mock-vtable execution traces validated by TLC",
    design="DESIGN.md §5 C17", category="model_checking")
CHECKS["C18"] = dict(
    text="Same model space and tool run as C17. For every selected model the processed header must be accepted by gcc and clang (-std=c99 -fsyntax-only; g++ and clang++ -std=c++11 for the C++ header of the same model), be byte-identical across repeated fresh-process runs (5 quick / 30 thorough), and still contain the declarations that do not belong to CGlue constructs (incl. decoys named like CGlue patterns) unmodified and in order; argument-splitting cases check that everything after `--` except the output path reaches cbindgen and that the processed header lands in the output path. Later rounds: the alphabet of C17; the full repetition count is spent on the richest + covering models. Found and fixed F8 and F11 as well. Round 8: the determinism repetitions run over Bindgen!OutputHistory (output path absent / holding a longer / a shorter earlier header).",
    note="Trusted: tools/cbgen.py (synthetic headers), gcc/clang/g++/clang++. C and C++ generators; the spec contributes the model space. Found and fixed F6 (known_findings.json).",
    technique="TLA+ model space enumerated by TLC; real tool run on rendered headers judged by C compilers, repeated-run hashing and declaration diff",
    design="DESIGN.md §5 C18", category="model_checking")

NOT_YET = {}

def main():
    props = [json.loads(l) for l in open(os.path.join(V, "properties.jsonl"))]
    checks, na = [], []
    for p in props:
        pid = p["id"]
        if pid in CHECKS:
            c = CHECKS[pid]
            checks.append({
                "property_id": pid,
                "quick_cmd": "python3 tools/check.py %s --tier quick" % pid,
                "thorough_cmd": "python3 tools/check.py %s --tier thorough" % pid,
                "evidence_file": "/verif/evidence/%s.json" % pid,
                "replay_cmd_template": "python3 tools/check.py %s --replay {path}" % pid,
                "engine": "tlc+harness",
                "level_claimed": {"category": c.get("category", "model_checking"), "text": c["text"], "design_ref": c["design"]},
                "level_note": c["note"],
                "technique": c["technique"],
            })
        else:
            na.append({"property_id": pid, "reason": NOT_YET.get(pid, "check not built yet in this round; planned (DESIGN.md §5) — nothing is claimed for it")})
    m = {
        "version": 1,
        "setup_cmd": "python3 tools/setup.py",
        "hooks": {"guard": "cglue_verif", "enable": "none needed: no hooks are compiled into /repo (RUSTFLAGS=--cfg cglue_verif is reserved)",
                  "baseline_off_cmd": BASELINE, "source_commits": [], "add_only": True},
        "engines": [{"name": "tlc+harness", "path": "tools/check.py", "serves_properties": sorted(CHECKS),
                     "kind_free_text": "explicit TLA+ specifications checked with TLC; bound to the code by replaying TLC-generated behaviours on the real cglue and validating implementation traces with TLC"}],
        "checks": checks,
        "not_applicable": na,
        "notes": "exit 0 = held on everything explored; exit 1 + VIOLATION line = violated; exit 2 = tool error (nothing claimed). KNOWN-FINDING lines per known_findings.json.",
    }
    with open(os.path.join(V, "MANIFEST.json"), "w") as f:
        json.dump(m, f, indent=1)

if __name__ == "__main__":
    main()
