#!/usr/bin/env python3
"""Entry point: python3 tools/check.py <property id> [--tier quick|thorough] [--replay <path>]"""
import argparse, importlib, os, sys, traceback
sys.path.insert(0, os.path.dirname(os.path.abspath(__file__)))
import lib


def main():
    ap = argparse.ArgumentParser()
    ap.add_argument("prop")
    ap.add_argument("--tier", default=os.environ.get("VERIF_TIER", "quick"), choices=["quick", "thorough"])
    ap.add_argument("--replay", default=None)
    a = ap.parse_args()
    prop = a.prop.upper()
    try:
        mod = importlib.import_module("props." + prop.lower())
    except ImportError as e:
        lib.tool_error(prop, a.tier, "no check module: %s" % e)
    try:
        if a.replay:
            mod.replay(a.replay)
        else:
            mod.run(a.tier)
    except lib.ToolError as e:
        lib.tool_error(prop, a.tier, str(e))
    except SystemExit:
        raise
    except Exception:
        traceback.print_exc()
        lib.tool_error(prop, a.tier, "internal error")


if __name__ == "__main__":
    main()
