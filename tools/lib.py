"""Shared machinery for /verif checks: TLC runner, harness builder, adapter runner, evidence
writer, known-findings protocol and the exit protocol (0 ok / 1 VIOLATION / 2 tool error)."""
import json, os, re, shutil, subprocess, sys, time, hashlib

VERIF = os.path.dirname(os.path.dirname(os.path.abspath(__file__)))
SPEC = os.path.join(VERIF, "spec")
HARNESS = os.path.join(VERIF, "harness")
WORK = os.path.join(VERIF, "work")
EVID = os.path.join(VERIF, "evidence")
REPO = os.environ.get("VERIF_REPO", "/repo")
NCPU = os.cpu_count() or 4


class ToolError(Exception):
    pass


def log(*a):
    print(*a, file=sys.stderr, flush=True)


def workdir(name):
    d = os.path.join(WORK, name)
    os.makedirs(d, exist_ok=True)
    return d


def seed():
    try:
        return int(os.environ.get("VERIF_SEED", "1"))
    except ValueError:
        return 1


# --------------------------------------------------------------------------------------------
# TLC
# --------------------------------------------------------------------------------------------
class TlcResult:
    def __init__(self):
        self.rc = None
        self.generated = 0
        self.distinct = 0
        self.depth = 0
        self.out = ""
        self.violation = None  # text of "Invariant X is violated" etc.
        self.coverage = {}
        self.wall = 0.0

    @property
    def ok(self):
        return self.rc == 0 and self.violation is None


def run_tlc(module, cfg, name=None, workers=8, timeout=900, env=None, simulate=None,
            coverage=False, heap="4g", out_path=None, depth_first=False, seed_=None):
    """Run TLC on spec/<module>.tla with spec/<cfg>. Returns TlcResult; raises ToolError on
    timeouts, parse errors and the like (anything that is not a verdict)."""
    name = name or cfg.replace(".cfg", "")
    meta = os.path.join(WORK, "tlc_" + name)
    shutil.rmtree(meta, ignore_errors=True)
    os.makedirs(meta, exist_ok=True)
    out_path = out_path or os.path.join(WORK, name + ".tlc.out")
    jopts = "-Xss1g -Xmx%s" % heap
    if depth_first:
        jopts += " -Dtlc2.tool.queue.IStateQueue=StateDeque"
    e = dict(os.environ)
    e["JAVA_TOOL_OPTIONS"] = jopts
    if env:
        e.update(env)
    cmd = ["timeout", str(timeout), "java", "-XX:+UseParallelGC", "-cp",
           "/opt/veriftools/tla/tla2tools.jar:/opt/veriftools/tla/CommunityModules-deps.jar",
           "tlc2.TLC", "-workers", str(workers), "-metadir", meta, "-cleanup",
           "-noGenerateSpecTE", "-config", os.path.join(SPEC, cfg)]
    if coverage:
        cmd += ["-coverage", "1"]
    if simulate:
        cmd += ["-simulate", simulate]
    if seed_ is not None:
        cmd += ["-seed", str(seed_)]
    cmd += [os.path.join(SPEC, module + ".tla")]
    t0 = time.time()
    with open(out_path, "w") as f:
        p = subprocess.run(cmd, stdout=f, stderr=subprocess.STDOUT, env=e, cwd=SPEC)
    r = TlcResult()
    r.wall = time.time() - t0
    r.rc = p.returncode
    r.out = out_path
    shutil.rmtree(meta, ignore_errors=True)
    tail = _tail(out_path, 400)
    m = re.findall(r"(\d[\d,]*) states generated, (\d[\d,]*) distinct states found", tail)
    if m:
        r.generated = int(m[-1][0].replace(",", ""))
        r.distinct = int(m[-1][1].replace(",", ""))
    m = re.findall(r"depth of the complete state graph search is (\d+)", tail)
    if m:
        r.depth = int(m[-1])
    if p.returncode == 124:
        raise ToolError("TLC timed out after %ss on %s" % (timeout, cfg))
    head = _head(out_path, 200) + tail
    for pat in (r"Error: Invariant (\S+) is violated", r"Error: Action property (\S+) is violated",
                r"Error: Temporal properties were violated", r"Error: Deadlock reached",
                r"Error: The postcondition has been violated", r"Postcondition \w+ .* is false", r"Assumption .* is false",
                r"Error: Property (\S+) is violated"):
        mm = re.search(pat, head)
        if mm:
            r.violation = mm.group(0)
            break
    if r.violation is None and p.returncode != 0:
        # parse errors, evaluation errors: not a verdict
        raise ToolError("TLC failed (rc=%s) on %s: %s" % (p.returncode, cfg, _errlines(head)))
    if coverage:
        r.coverage = parse_coverage(out_path)
    return r


def _tail(path, n):
    with open(path, "rb") as f:
        f.seek(0, 2)
        size = f.tell()
        f.seek(max(0, size - 200000))
        data = f.read().decode("utf-8", "replace")
    return "\n".join(data.splitlines()[-n:])


def _head(path, n):
    out = []
    with open(path, "r", errors="replace") as f:
        for i, l in enumerate(f):
            if i >= n:
                break
            if len(l) < 2000:
                out.append(l.rstrip("\n"))
    return "\n".join(out)


def _errlines(text):
    ls = [l for l in text.splitlines() if "rror" in l or "xception" in l]
    return " | ".join(ls[:6])[:1500]


def parse_coverage(path):
    """Action name -> (distinct, total) from `-coverage 1` output (last block)."""
    cov = {}
    pat = re.compile(r"^<(\w+) line (\d+), col \d+ to line \d+, col \d+ of module (\w+)>: (\d+):(\d+)")
    with open(path, "r", errors="replace") as f:
        for l in f:
            m = pat.match(l)
            if m:
                cov["%s@%s:%s" % (m.group(1), m.group(3), m.group(2))] = (int(m.group(4)), int(m.group(5)))
    return cov


def extract_replays(out_path, dest, tag="REPLAY", limit=None):
    """Unwrap `<<"REPLAY", "<escaped json>">>` lines printed by a Gen_* config into a jsonl file
    (at most `limit` of them: -simulate prints many more behaviours than asked for)."""
    n = 0
    prefix = '<<"%s", ' % tag
    with open(out_path, "r", errors="replace") as f, open(dest, "w") as g:
        for l in f:
            if l.startswith(prefix):
                body = l.rstrip("\n")[len(prefix):-2]
                s = json.loads(body)
                g.write(s + "\n")
                n += 1
                if limit is not None and n >= limit:
                    break
    return n


def sany(module):
    p = subprocess.run(["tla-sany", os.path.join(SPEC, module + ".tla")], capture_output=True, text=True, cwd=SPEC)
    if p.returncode != 0 or "Fatal" in p.stdout or "*** Errors" in p.stdout:
        raise ToolError("SANY rejected %s: %s" % (module, p.stdout[-800:]))


# --------------------------------------------------------------------------------------------
# cargo / adapters
# --------------------------------------------------------------------------------------------
def cargo_env(extra=None):
    e = dict(os.environ)
    e["CARGO_NET_OFFLINE"] = "true"
    e.pop("RUSTFLAGS", None)
    if extra:
        e.update(extra)
    return e


def cargo_build(pkg, bins=None, release=False, cwd=None, features=None, target_dir=None,
                toolchain=None, env=None, timeout=1800, quiet=True):
    """Build a harness package against /repo's current working tree. Returns dir with binaries.
    A compile error in /repo or the harness is a tool error unless the caller says otherwise."""
    cwd = cwd or HARNESS
    cmd = ["cargo"] + (["+" + toolchain] if toolchain else []) + ["build", "--offline", "-p", pkg]
    if release:
        cmd.append("--release")
    for b in bins or []:
        cmd += ["--bin", b]
    if features:
        cmd += ["--features", features]
    if target_dir:
        cmd += ["--target-dir", target_dir]
    p = subprocess.run(cmd, cwd=cwd, env=cargo_env(env), capture_output=True, text=True, timeout=timeout)
    if p.returncode != 0:
        raise ToolError("cargo build failed for %s:\n%s" % (pkg, p.stderr[-3000:]))
    td = target_dir or os.path.join(cwd, "target")
    return os.path.join(td, "release" if release else "debug")


def run_adapter(cmd, timeout=600, env=None, cwd=None):
    """Run an adapter child. Returns (rc, summary_json_or_None, stdout_text). A crash (signal) or a
    timeout is reported through rc (negative / 124) and left to the caller to classify."""
    try:
        p = subprocess.run(cmd, capture_output=True, text=True, timeout=timeout, env=env, cwd=cwd)
    except subprocess.TimeoutExpired:
        return 124, None, ""
    summ = None
    for l in reversed(p.stdout.splitlines()):
        l = l.strip()
        if l.startswith("{") and '"summary"' in l:
            try:
                summ = json.loads(l)
            except ValueError:
                pass
            break
    if p.returncode != 0:
        log(p.stderr[-2000:])
    return p.returncode, summ, p.stdout


# --------------------------------------------------------------------------------------------
# known findings, verdicts, evidence
# --------------------------------------------------------------------------------------------
def known_findings(prop):
    path = os.path.join(VERIF, "known_findings.json")
    if not os.path.exists(path):
        return []
    with open(path) as f:
        data = json.load(f)
    return [k for k in data.get("findings", []) if k.get("property") == prop and k.get("status") == "known"]


class Check:
    """Collects what a check run did and finishes with the exit protocol."""

    def __init__(self, prop, tier):
        self.prop = prop
        self.tier = tier
        self.t0 = time.time()
        self.cov = {"samples": [], "states": 0, "transitions": 0, "traces_validated_against_impl": 0,
                    "model_drift": [], "tlc_runs": [], "known_findings_seen": []}
        self.assumptions = []
        self.violations = []  # (message, replay_path)
        self.known_seen = {}
        self.level = "model_checking"
        os.makedirs(EVID, exist_ok=True)

    # -- bookkeeping -------------------------------------------------------------------------
    def add_tlc(self, label, r, exhaustive=True):
        self.cov["states"] += r.distinct
        self.cov["transitions"] += r.generated
        self.cov["tlc_runs"].append({"config": label, "distinct_states": r.distinct,
                                     "states_generated": r.generated, "depth": r.depth,
                                     "wall_s": round(r.wall, 1), "exhaustive": exhaustive})

    def sample(self, s):
        if len(self.cov["samples"]) < 6:
            self.cov["samples"].append(s)

    def drift(self, msg):
        log("MODEL-DRIFT:", msg)
        if len(self.cov["model_drift"]) < 50:
            self.cov["model_drift"].append(msg)

    def violation(self, msg, replay_obj=None, replay_path=None):
        if replay_path is None:
            d = os.path.join(WORK, "replay")
            os.makedirs(d, exist_ok=True)
            h = hashlib.sha1((msg + json.dumps(replay_obj, sort_keys=True, default=str)).encode()).hexdigest()[:10]
            replay_path = os.path.join(d, "%s_%s.json" % (self.prop, h))
            with open(replay_path, "w") as f:
                json.dump({"property": self.prop, "message": msg, "replay": replay_obj}, f, indent=1, default=str)
        self.violations.append((msg, replay_path))
        log("violation:", msg[:600])

    def known(self, finding_id, text):
        """A disagreement explained by a listed known finding."""
        if finding_id not in self.known_seen:
            self.known_seen[finding_id] = text

    def classify(self, msg, replay_obj, site):
        """Route a property disagreement: listed known finding (by site key) or violation."""
        for k in known_findings(self.prop):
            if k.get("site") == site:
                self.known(k["id"], k["what"])
                return "known"
        self.violation(msg, replay_obj)
        return "violation"

    # -- finishing ---------------------------------------------------------------------------
    def finish(self, extra_cov=None):
        if extra_cov:
            self.cov.update(extra_cov)
        self.cov["known_findings_seen"] = sorted(self.known_seen)
        if not self.cov["samples"]:
            self.cov["samples"] = ["(no sample recorded)"]
        ev = {"property_id": self.prop, "tier": self.tier, "seed": seed(), "level": self.level,
              "coverage": self.cov, "assumptions": self.assumptions,
              "wall_s": round(time.time() - self.t0, 1), "violations": len(self.violations)}
        with open(os.path.join(EVID, self.prop + ".json"), "w") as f:
            json.dump(ev, f, indent=1, default=str)
        for fid, text in sorted(self.known_seen.items()):
            print("KNOWN-FINDING: property=%s %s" % (self.prop, text))
        if self.violations:
            for msg, path in self.violations[:10]:
                print("VIOLATION property=%s replay=%s" % (self.prop, path))
                print("  " + msg[:1000])
            sys.exit(1)
        print("OK property=%s tier=%s wall=%.0fs" % (self.prop, self.tier, time.time() - self.t0))
        sys.exit(0)


def tool_error(prop, tier, msg):
    """Exit 2: nothing is claimed about the property."""
    print("TOOL-ERROR property=%s: %s" % (prop, msg))
    sys.exit(2)


def split_file(path, parts, prefix):
    """Split a jsonl file into `parts` files round-robin; returns the paths."""
    outs = [open("%s.%d" % (prefix, i), "w") for i in range(parts)]
    with open(path) as f:
        for i, l in enumerate(f):
            outs[i % parts].write(l)
    for o in outs:
        o.close()
    return ["%s.%d" % (prefix, i) for i in range(parts)]


def run_parallel(cmds, timeout=900, env=None):
    """Run adapter commands concurrently; returns list of (rc, summary, stdout)."""
    procs = [subprocess.Popen(c, stdout=subprocess.PIPE, stderr=subprocess.PIPE, text=True, env=env) for c in cmds]
    res = []
    for p in procs:
        try:
            out, err = p.communicate(timeout=timeout)
            rc = p.returncode
        except subprocess.TimeoutExpired:
            p.kill()
            out, err = p.communicate()
            rc = 124
        summ = None
        for l in reversed(out.splitlines()):
            if l.startswith("{") and '"summary"' in l:
                try:
                    summ = json.loads(l)
                except ValueError:
                    pass
                break
        if rc != 0:
            log(err[-1500:])
        res.append((rc, summ, out))
    return res


# --------------------------------------------------------------------------------------------
# the standard three-step pipeline for runtime modules
# --------------------------------------------------------------------------------------------
def mc_step(c, module, cfg, workers=8, timeout=3000, what="spec"):
    r = run_tlc(module, cfg, workers=workers, timeout=timeout)
    if r.violation:
        c.violation("%s violates its own invariant: %s (TLC output %s)" % (what, r.violation, r.out), {"tlc_out": r.out})
        c.finish()
    c.add_tlc(cfg, r)
    return r


def gen_step(c, module, cfg, name, simulate=None, workers=8, timeout=3000, seed_=None, tag="REPLAY", limit=None):
    wd = workdir(c.prop.lower())
    out = os.path.join(wd, name + ".gen.out")
    jsonl = os.path.join(wd, name + ".jsonl")
    if simulate and simulate.startswith("num="):
        # One -simulate run resolves an existential choice (which method, which handle) in a way that is strongly
        # correlated within the run: with a single seed whole branches of an action never appear.  Several runs
        # with different seeds, half the number each, concatenated.
        n = int(simulate.split("=")[1].split(",")[0])
        base = seed_ if seed_ is not None else seed()
        nb = 0
        with open(jsonl, "w") as dst:
            for k in range(4):
                g = run_tlc(module, cfg, name="%s_s%d" % (name, k), workers=workers, timeout=timeout, out_path=out,
                            simulate="num=%d" % max(1, (n + 1) // 2), seed_=base + k)
                part = jsonl + ".s%d" % k
                got = extract_replays(out, part, tag=tag, limit=None if limit is None else max(1, limit // 4))
                os.remove(out)
                with open(part) as src:
                    for l in src:
                        dst.write(l)
                os.remove(part)
                nb += got
    else:
        g = run_tlc(module, cfg, name=name, workers=workers, timeout=timeout, out_path=out, simulate=simulate, seed_=seed_)
        nb = extract_replays(out, jsonl, tag=tag, limit=limit)
        os.remove(out)
    if nb == 0:
        raise ToolError("generator %s produced no behaviours" % cfg)
    if not simulate:
        c.add_tlc(cfg, g)
    else:
        c.cov["tlc_runs"].append({"config": cfg, "simulate": simulate, "behaviours": nb, "exhaustive": False})
    with open(jsonl) as f:
        first = json.loads(f.readline())
        c.sample(first if len(json.dumps(first)) < 4000 else first[:3])
    return jsonl, nb


def replay_step(c, rt, module_args, jsonl, extra_args=(), parts=4, label="", what="implementation diverges from the specification", mode="replay", keep=False):
    pieces = split_file(jsonl, parts, jsonl + ".part")
    # "{part}" in an extra argument stands for the piece's own file name (per-process output files)
    cmds = [[rt] + list(module_args) + [mode, p] + [a.replace("{part}", p) for a in extra_args] for p in pieces]
    tb = ts = 0
    for (rc, summ, out), p in zip(run_parallel(cmds, timeout=3000), pieces):
        if rc == 2 or rc == 124:
            raise ToolError("adapter reported a tool error / timed out (rc=%s) on %s: %s" % (rc, p, out[-300:]))
        if rc != 0 or summ is None:
            # UB in the code under test can kill the child: find the behaviour that did it
            e2 = dict(os.environ); e2["VERIF_BISECT"] = "1"
            pr = subprocess.run([rt] + list(module_args) + [mode, p] + list(extra_args), capture_output=True, text=True, env=e2)
            idx = [int(l.split()[1]) for l in pr.stderr.splitlines() if l.startswith("BEH ")]
            beh = None
            if idx:
                with open(p) as f:
                    for i, l in enumerate(f):
                        if i == idx[-1]:
                            beh = json.loads(l)
            c.violation("the real code crashed the replay child (rc=%s) %s on behaviour %s" % (rc, label, json.dumps(beh)[:600]),
                        {"beh": beh, "adapter": list(module_args) + [mode] + list(extra_args), "crash_rc": rc})
            continue
        tb += summ["behaviours"]
        ts += summ["steps"]
        for f in summ["first_failures"][:1]:
            f["adapter"] = list(module_args) + [mode] + list(extra_args)
            c.violation("%s %s at step %s: %s" % (what, label, f["step"], f["msg"]), f)
    for p in pieces:
        os.remove(p)
    return tb, ts


def trace_step(c, rt, module_args, trace_module, trace_cfg, nfiles, events, extra_args=(), what="implementation trace rejected by the specification"):
    wd = workdir(c.prop.lower())
    s = seed()
    cmds, paths = [], []
    for i in range(nfiles):
        path = os.path.join(wd, "%s_%d.ndjson" % (trace_module, i))
        cmds.append([rt] + list(module_args) + ["trace", path, "--seed", str(s * 1000 + i), "--events", str(events)] + list(extra_args))
        paths.append(path)
    ok = 0
    for (rc, summ, out), path in zip(run_parallel(cmds, timeout=3000), paths):
        if rc == 2 or rc == 124:
            raise ToolError("trace driver reported a tool error / timed out (rc=%s)" % rc)
        if rc != 0:
            c.violation("trace driver crashed rc=%s while driving the real code" % rc, {"trace": path, "cmd": cmds[0]})
            continue
        r = run_tlc(trace_module, trace_cfg, name="%s_%s" % (trace_module, os.path.basename(path)),
                    workers=1, env={"TRACE": path}, depth_first=True, timeout=1200)
        nev = sum(1 for _ in open(path))
        if r.violation or r.distinct < nev + 1:
            line = r.depth
            evs = open(path).read().splitlines()
            bad = evs[line - 1] if 0 < line <= len(evs) else ""
            c.violation("%s at event %d: %s [%s]" % (what, line, bad[:500], r.violation), None, replay_path=path)
        else:
            ok += nev
            c.cov["traces_validated_against_impl"] += 1
            c.add_tlc("%s(%s)" % (trace_cfg, os.path.basename(path)), r, exhaustive=False)
            if c.cov.get("trace_sample") is None:
                with open(path) as f:
                    f.readline()
                    c.cov["trace_sample"] = json.loads(f.readline())
    return ok


def replay_one(c, rt, module_args, path, trace_module=None, trace_cfg=None):
    """Generic --replay: an ndjson trace goes back through TLC, a behaviour file through the adapter."""
    if path.endswith(".ndjson"):
        r = run_tlc(trace_module, trace_cfg, name="trace_replay", workers=1, env={"TRACE": path}, depth_first=True)
        nev = sum(1 for _ in open(path))
        if r.violation or r.distinct < nev + 1:
            c.violation("trace rejected at event %d" % r.depth, None, replay_path=path)
    else:
        obj = json.load(open(path))
        rep = obj["replay"]
        tmp = os.path.join(workdir(c.prop.lower()), "one.jsonl")
        with open(tmp, "w") as f:
            f.write(json.dumps(rep["beh"]) + "\n")
        args = rep.get("adapter", list(module_args) + ["replay"])
        modes = [a for a in args if a in ("replay", "utf8")]
        mode = modes[0] if modes else "replay"
        cut = args.index(mode) if mode in args else None
        pre = args if cut is None else args[:cut]
        post = [] if cut is None else args[cut + 1:]
        rc, summ, out = run_adapter([rt] + list(pre) + [mode, tmp] + list(post))
        if rc != 0 or summ is None or summ["failures"]:
            c.violation("replayed behaviour still fails: %s" % (summ and summ["first_failures"]), None, replay_path=path)
    c.finish({"evaluations": 1, "distinct_nontrivial": 1})
