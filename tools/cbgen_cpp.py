#!/usr/bin/env python3
"""cbgen_cpp: renders an API model (same JSON as cbgen.py) into a header in the shape cbindgen 0.20
produces in C++ mode for cglue types (templates, `using` aliases) - the input of cglue-bindgen's C++
generator (cglue-bindgen/src/codegen/cpp.rs).

The shape is reconstructed from the tool's own regular expressions and from
examples/pregen-headers/bindings.hpp with the tool's additions removed.  In C++ mode every CGlue type
is a template, so the header does not depend on which (container, context) pairs the API uses; those
are chosen by the caller (the driver instantiates Box/Mut/Ref x CArc<void>/void).  The API always has
one entry point with a `MaybeUninit<..>` out-parameter (as `load_plugin` in the upstream example), which
is what makes cbindgen emit the `MaybeUninit` forward declaration the tool turns into `RustMaybeUninit`.
"""
import json, sys
import cbgen

CPPTYPE = {"u64": "uint64_t", "i32": "int32_t", "Pt": "Pt", "slice": "CSliceRef<uint8_t>", "ptr": "const uint8_t *", "void": "void", "vptr": "void *", "cvptr": "const void *",
           "fnptr": "void (*)(int32_t)", "cbPt": "OpaqueCallback<Pt>", "cbu64": "OpaqueCallback<uint64_t>", "cbraw": "Callback<void, uint64_t>", "cont": "CGlueC"}

GROUP_DOC = """/**
 * Trait group potentially implementing `%s` traits.
 *
 * Optional traits are not implemented here, however. There are numerous conversion
 * functions available for safely retrieving a concrete collection of traits.
 *
 * `check_impl_` functions allow to check if the object implements the wanted traits.
 *
 * `into_impl_` functions consume the object and produce a new final structure that
 * keeps only the required information.
 *
 * `cast_impl_` functions merely check and transform the object into a type that can
 *be transformed back into `%s` without losing data.
 *
 * `as_ref_`, and `as_mut_` functions obtain references to safe objects, but do not
 * perform any memory transformations either. They are the safest to use, because
 * there is no risk of accidentally consuming the whole object.
 */
"""
CONT_DOC = """/**
 * Simple CGlue trait object container.
 *
 * This is the simplest form of container, represented by an instance, clone context, and
 * temporary return context.
 */
"""


def proto(m):
    recv = {"ref": "const CGlueC *cont", "mut": "CGlueC *cont", "own": "CGlueC cont"}[m["recv"]]
    args = "".join(", " + cbgen.decl(CPPTYPE[t], cbgen.pname(i)) for i, t in enumerate(m["args"]))
    ret = CPPTYPE[m["ret"]]
    return "%s%s(*%s)(%s%s);" % (ret, "" if ret.endswith("*") else " ", m["name"], recv, args)


def group_traits(g):
    return sorted(g["mand"]) + sorted(g["opt"])


def render(model):
    out = []
    out.append("#include <cstdarg>\n#include <cstdint>\n#include <cstdlib>\n#include <ostream>\n#include <new>\n\n")
    foreign = model.get("foreign", False)
    traits = {t["name"]: t for t in model["traits"]}
    used = cbgen.used_traits(model)
    if foreign:
        out.append("/**\n * A user structure whose name resembles a CGlue pattern.\n */\nstruct FooVtbl {\n    int32_t a;\n    int32_t b;\n};\n\n")
    out.append("template<typename T = void>\nstruct MaybeUninit;\n\n")
    out.append("struct Pt {\n    int32_t x;\n    int64_t y;\n    uint8_t z;\n};\n\n")
    out.append("/**\n * Wrapper around const slices.\n */\ntemplate<typename T>\nstruct CSliceRef {\n    const T *data;\n    uintptr_t len;\n};\n\n")
    out.append("/**\n * FFI-safe box\n */\ntemplate<typename T>\nstruct CBox {\n    T *instance;\n    void (*drop_fn)(T*);\n};\n\n")
    out.append("/**\n * FFI-Safe Arc\n */\ntemplate<typename T>\nstruct CArc {\n    const T *instance;\n    const T *(*clone_fn)(const T*);\n    void (*drop_fn)(const T*);\n};\n\n")
    if cbgen.callback_kinds(model):
        out.append("/**\n * FFI compatible callback.\n */\ntemplate<typename T, typename F>\nstruct Callback {\n    T *context;\n    bool (*func)(T*, F);\n};\n\n")
        out.append("template<typename T>\nusing OpaqueCallback = Callback<void, T>;\n\n")
    if foreign:
        out.append("struct BarRetTmp_x {\n    uint64_t keep;\n};\n\n")
    for t in sorted(used):
        out.append(cbgen.ZST_RETTMP_DOC + "template<typename CGlueCtx = void>\nstruct %sRetTmp;\n\n" % t)
    emitted_vtbl = set()

    def vtbl(t):
        if t in emitted_vtbl:
            return
        emitted_vtbl.add(t)
        fns = "\n".join("    " + proto(m) for m in traits[t]["methods"])
        out.append(cbgen.VTBL_DOC % t + "template<typename CGlueC>\nstruct %sVtbl {\n%s\n};\n\n" % (t, fns))
    for g in model["groups"]:
        allt = group_traits(g)
        tmps = "".join("\n    %sRetTmp<CGlueCtx> ret_tmp_%s;" % (t, t.lower()) for t in allt)
        out.append("template<typename CGlueInst, typename CGlueCtx>\nstruct %sContainer {\n    CGlueInst instance;\n    CGlueCtx context;%s\n};\n\n" % (g["name"], tmps))
        for t in allt:
            vtbl(t)
        ptrs = "".join("    const %sVtbl<%sContainer<CGlueInst, CGlueCtx>> *vtbl_%s;\n" % (t, g["name"], t.lower()) for t in allt)
        out.append(GROUP_DOC % (" + ".join(allt), g["name"]) + "template<typename CGlueInst, typename CGlueCtx>\nstruct %s {\n%s    %sContainer<CGlueInst, CGlueCtx> container;\n};\n\n" % (g["name"], ptrs, g["name"]))
        out.append("/**\n * Boxed %s with a reference counted context.\n */\ntemplate<typename CGlueT, typename CGlueArcTy>\nusing %sBaseArcBox = %s<CBox<CGlueT>, CArc<CGlueArcTy>>;\n\n" % (g["name"], g["name"], g["name"]))
        out.append("using %sArcBox = %sBaseArcBox<void, void>;\n\n" % (g["name"], g["name"]))
    out.append(CONT_DOC + "template<typename T, typename C, typename R>\nstruct CGlueObjContainer {\n    T instance;\n    C context;\n    R ret_tmp;\n};\n\n")
    for o in model["objects"]:
        vtbl(o["trait"])
    out.append(cbgen.OBJ_DOC + "template<typename T, typename V, typename C, typename R>\nstruct CGlueTraitObj {\n    const V *vtbl;\n    CGlueObjContainer<T, C, R> container;\n};\n\n")
    done = set()
    for o in model["objects"]:
        tr = o["trait"]
        if tr in done:
            continue
        done.add(tr)
        out.append("/**\n * Base CGlue trait object for trait %s.\n */\ntemplate<typename CGlueInst, typename CGlueCtx>\nusing %sBase = CGlueTraitObj<CGlueInst, %sVtbl<CGlueObjContainer<CGlueInst, CGlueCtx, %sRetTmp<CGlueCtx>>>, CGlueCtx, %sRetTmp<CGlueCtx>>;\n\n" % (tr, tr, tr, tr, tr))
        out.append("/**\n * CtxBoxed CGlue trait object for trait %s with context.\n */\ntemplate<typename CGlueT, typename CGlueCtx>\nusing %sBaseCtxBox = %sBase<CBox<CGlueT>, CGlueCtx>;\n\n" % (tr, tr, tr))
        out.append("/**\n * Boxed CGlue trait object for trait %s with a [`CArc`](cglue::arc::CArc) reference counted context.\n */\ntemplate<typename CGlueT, typename CGlueC>\nusing %sBaseArcBox = %sBaseCtxBox<CGlueT, CArc<CGlueC>>;\n\n" % (tr, tr, tr))
        out.append("/**\n * Opaque Boxed CGlue trait object for trait %s with a [`CArc`](cglue::arc::CArc) reference counted context.\n */\nusing %sArcBox = %sBaseArcBox<void, void>;\n\n" % (tr, tr, tr))
    if cbgen.holder(model) and model["objects"][0]["cont"] == "Box" and model["objects"][0]["ctx"] == "Arc":
        # a user structure that holds an object by value (known finding F14: the tool appends the CGlueTraitObj
        # specialisations at the end of the file, after this implicit instantiation)
        out.append("/**\n * A user structure that holds an object by value.\n */\nstruct UserHolder {\n    %sArcBox held;\n    int32_t n;\n};\n\n" % model["objects"][0]["trait"])
    out.append("extern \"C\" {\n\n")
    if foreign:
        out.append("/**\n * An unrelated user function.\n */\nint32_t user_function_Container(FooVtbl v, BarRetTmp_x w);\n\n")
    first = model["objects"][0]["trait"] if model["objects"] else None
    if first:
        out.append("int32_t api_entry(uint64_t x, MaybeUninit<%sArcBox> *ok_out);\n\n" % first)
    else:
        out.append("int32_t api_entry(uint64_t x, MaybeUninit<Pt> *ok_out);\n\n")
    out.append("} // extern \"C\"\n")
    return "".join(out)


if __name__ == "__main__":
    model = json.load(open(sys.argv[1]))
    sys.stdout.write(render(model))
