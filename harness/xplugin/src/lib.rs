//! C05: the plugin side.  Built by a separate cargo invocation (other toolchain, optimisation level,
//! repr(Rust) layout seed) with its own global allocator; everything it exports is `extern "C"` over
//! `#[repr(C)]` types.
use cglue::arc::CArc;
use cglue::trait_group::c_void;
use cglue::vec::CVec;
use objfam::ctor::{self, EnvPay, Made, ObjUnion};
use objfam::Core;
use vkit::ledger::{self, Ledger};
use vkit::payload;

#[global_allocator]
static GLOBAL: Ledger = Ledger;

static INFO: &[u8] = concat!(env!("XP_BUILD_INFO"), "\0").as_bytes();

#[no_mangle]
pub extern "C" fn xp_build_info() -> *const std::os::raw::c_char {
    ledger::track_all(true);
    INFO.as_ptr() as *const _
}
#[no_mangle]
pub extern "C" fn xp_mk_owned(kind: u32, t: u32, tr: u32, pt: u32, id: usize, v: i64, has_ctx: bool, ctx: CArc<c_void>) -> Made {
    ledger::track_all(true);
    let c = if has_ctx { Some(ctx) } else { std::mem::forget(ctx); None };
    ctor::mk_owned(kind, t, tr, pt, id, v, c)
}
#[no_mangle]
pub unsafe extern "C" fn xp_mk_borrowed(kind: u32, t: u32, tr: u32, env: *mut EnvPay, has_ctx: bool, ctx: CArc<c_void>) -> ObjUnion {
    let c = if has_ctx { Some(ctx) } else { std::mem::forget(ctx); None };
    ctor::mk_borrowed(kind, t, tr, &mut *env, c)
}
#[no_mangle]
pub extern "C" fn xp_env_new(pt: u32, id: usize, v: i64) -> *mut EnvPay {
    ledger::track_all(true);
    Box::into_raw(Box::new(EnvPay::new(pt, id, v)))
}
#[no_mangle]
pub unsafe extern "C" fn xp_env_core(p: *mut EnvPay) -> *const Core {
    (*p).core() as *const Core
}
#[no_mangle]
pub unsafe extern "C" fn xp_env_drop(p: *mut EnvPay) {
    drop(Box::from_raw(p));
}
#[no_mangle]
pub extern "C" fn xp_pay_drops(id: usize) -> u32 {
    payload::drops(id)
}
#[no_mangle]
pub extern "C" fn xp_pay_created(id: usize) -> u32 {
    payload::created(id)
}
#[no_mangle]
pub extern "C" fn xp_pay_next_id() -> usize {
    payload::next_id()
}
#[no_mangle]
pub extern "C" fn xp_pay_reset() {
    payload::reset_ids()
}
#[no_mangle]
pub extern "C" fn xp_pay_uad() -> usize {
    payload::use_after_drop()
}
#[no_mangle]
pub extern "C" fn xp_ledger_live() -> usize {
    ledger::live()
}
#[no_mangle]
pub extern "C" fn xp_ledger_anoms() -> usize {
    ledger::anomaly_count()
}

// ---- runtime types created on this side ----
#[no_mangle]
pub extern "C" fn xp_vec_u64(n: usize, cap: usize, first: u64) -> CVec<u64> {
    ledger::track_all(true);
    let mut v: Vec<u64> = Vec::with_capacity(cap.max(n));
    for i in 0..n {
        v.push(first + i as u64);
    }
    CVec::from(v)
}
#[repr(C)]
pub struct ArcPay {
    pub alloc: usize,
    pub magic: u32,
}
static ARC_DROPS: [std::sync::atomic::AtomicUsize; 8] = {
    const Z: std::sync::atomic::AtomicUsize = std::sync::atomic::AtomicUsize::new(0);
    [Z; 8]
};
impl Drop for ArcPay {
    fn drop(&mut self) {
        ARC_DROPS[self.alloc % 8].fetch_add(1, std::sync::atomic::Ordering::SeqCst);
    }
}
#[no_mangle]
pub extern "C" fn xp_arc_new(alloc: usize) -> CArc<ArcPay> {
    ledger::track_all(true);
    ARC_DROPS[alloc % 8].store(0, std::sync::atomic::Ordering::SeqCst);
    CArc::from(ArcPay { alloc, magic: 0xA11C })
}
#[no_mangle]
pub extern "C" fn xp_arc_drops(alloc: usize) -> usize {
    ARC_DROPS[alloc % 8].load(std::sync::atomic::Ordering::SeqCst)
}

// ---- values whose elements own memory of this module (no release function of their own) ----
use cglue::boxed::{CBox, CSliceBox};
use cglue::callback::OpaqueCallback;
use cglue::iter::CIterator;
use cglue::repr_cstring::ReprCString;
use cglue::slice::CSliceRef;

pub fn xp_text(i: usize) -> String {
    format!("s{}-\u{e9}\u{20ac}-{}", i, "x".repeat(i % 5))
}
#[no_mangle]
pub extern "C" fn xp_vec_str(n: usize) -> CVec<ReprCString> {
    ledger::track_all(true);
    let v: Vec<ReprCString> = (0..n).map(|i| ReprCString::from(xp_text(i))).collect();
    CVec::from(v)
}
/// a vector created by the other module: read here, destroyed here (through the functions it carries)
#[no_mangle]
pub extern "C" fn xp_vec_str_consume(v: CVec<ReprCString>) -> u64 {
    ledger::track_all(true);
    let mut sum = 0u64;
    for (i, s) in v.iter().enumerate() {
        let t: &str = s.as_ref();
        sum += t.len() as u64 * 1000 + (t == xp_text(i)) as u64;
    }
    drop(v);
    sum
}
#[no_mangle]
pub extern "C" fn xp_box_str(i: usize) -> CBox<'static, ReprCString> {
    ledger::track_all(true);
    CBox::from(ReprCString::from(xp_text(i)))
}
#[no_mangle]
pub extern "C" fn xp_box_str_consume(b: CBox<'static, ReprCString>) -> u64 {
    ledger::track_all(true);
    let t: &str = (*b).as_ref();
    let r = t.len() as u64;
    drop(b);
    r
}
#[no_mangle]
pub extern "C" fn xp_slicebox(n: usize) -> CSliceBox<'static, ReprCString> {
    ledger::track_all(true);
    let v: Vec<ReprCString> = (0..n).map(|i| ReprCString::from(xp_text(i))).collect();
    CSliceBox::from(v.into_boxed_slice())
}
static STATIC_BYTES: [u8; 5] = [9, 8, 7, 6, 5];
#[no_mangle]
pub extern "C" fn xp_slice_static() -> CSliceRef<'static, u8> {
    CSliceRef::from(&STATIC_BYTES[..])
}
/// an iterator created here is drained by a callback created in the other module
#[no_mangle]
pub extern "C" fn xp_feed(n: u64, stride: u64, mut cb: OpaqueCallback<u64>) -> usize {
    ledger::track_all(true);
    use cglue::callback::FeedCallback;
    (0..n).map(|i| i * stride + 1).feed_into_mut(&mut cb)
}
/// an iterator created in the other module is drained here
#[no_mangle]
pub extern "C" fn xp_sum_iter(it: CIterator<u64>) -> u64 {
    ledger::track_all(true);
    it.fold(0u64, |a, b| a.wrapping_mul(31).wrapping_add(b))
}
/// a callback and an iterator created here are handed to a function of the other module
#[no_mangle]
pub extern "C" fn xp_lend(n: u64, stop_at: usize, user: extern "C" fn(CIterator<u64>, OpaqueCallback<u64>) -> u64, seen: &mut u64) -> u64 {
    ledger::track_all(true);
    let mut got: Vec<u64> = vec![];
    let mut it = (0..n).map(|i| i * 3 + 2);
    let r = {
        let mut f = |x: u64| { got.push(x); !(stop_at > 0 && got.len() >= stop_at) };
        let cb: OpaqueCallback<u64> = (&mut f).into();
        let cit: CIterator<u64> = (&mut it).into();
        user(cit, cb)
    };
    *seen = got.iter().fold(0u64, |a, b| a.wrapping_mul(31).wrapping_add(*b)) + got.len() as u64 * 1_000_000;
    r
}

// ---- allocator event log of this module (spec/Modules.tla) ----
#[no_mangle]
pub extern "C" fn xp_events(on: bool, clock: usize) {
    ledger::events(on, clock);
}
#[no_mangle]
pub extern "C" fn xp_copy_events(out: *mut ledger::Ev, cap: usize) -> usize {
    ledger::copy_events(out, cap)
}
#[no_mangle]
pub extern "C" fn xp_mark(code: usize) {
    ledger::mark(code);
}
#[no_mangle]
pub extern "C" fn xp_events_pause() {
    ledger::events_pause();
}
#[no_mangle]
pub extern "C" fn xp_drain_events(out: *mut ledger::Ev, cap: usize) -> usize {
    ledger::drain_events(out, cap)
}
