//! Evaluates, for every opaque-conversion rule x payload class, whether the typed handle and its
//! opaque form are Send / Sync and whether the conversion exists at all — in one build, without
//! compile failures: an inherent associated const (bounded impl) shadows a blanket trait const.
#![allow(dead_code)]
use cglue::arc::{CArc, CArcSome};
use cglue::boxed::{CBox, CSliceBox};
use cglue::forward::Fwd;
use cglue::trait_group::{NoContext, Opaquable};
use cglue::*;
use std::cell::Cell;
use std::marker::PhantomData;
use std::rc::Rc;

pub struct SS(pub u64);
pub struct SO(pub Cell<u64>);
pub struct YO(pub PhantomData<std::sync::MutexGuard<'static, ()>>, pub u64);
pub struct NN(pub Rc<u64>);

#[cglue_trait]
pub trait Tr {
    fn f(&self) -> u64;
}
impl Tr for SS { fn f(&self) -> u64 { self.0 } }
impl Tr for SO { fn f(&self) -> u64 { self.0.get() } }
impl Tr for YO { fn f(&self) -> u64 { self.1 } }
impl Tr for NN { fn f(&self) -> u64 { *self.0 } }

cglue_trait_group!(Gr, Tr, {});
cglue_impl_group!(SS, Gr, {});
cglue_impl_group!(SO, Gr, {});
cglue_impl_group!(YO, Gr, {});
cglue_impl_group!(NN, Gr, {});

struct PS<T: ?Sized>(PhantomData<T>);
trait Fallback {
    const SEND: bool = false;
    const SYNC: bool = false;
    const OPQ: bool = false;
    const OSEND: bool = false;
    const OSYNC: bool = false;
}
impl<T: ?Sized> Fallback for PS<T> {}
impl<T: ?Sized + Send> PS<T> { const SEND: bool = true; }
impl<T: ?Sized + Sync> PS<T> { const SYNC: bool = true; }
impl<T: Opaquable> PS<T> { const OPQ: bool = true; }
struct PQS<T: ?Sized>(PhantomData<T>);
struct PQY<T: ?Sized>(PhantomData<T>);
impl<T: ?Sized> Fallback for PQS<T> {}
impl<T: ?Sized> Fallback for PQY<T> {}
impl<T: Opaquable> PQS<T> where T::OpaqueTarget: Send { const OSEND: bool = true; }
impl<T: Opaquable> PQY<T> where T::OpaqueTarget: Sync { const OSYNC: bool = true; }

macro_rules! cell {
    ($out:ident, $w:expr, $i:expr, $p:expr, $t:ty) => {
        $out.push(serde_json::json!({"w": $w, "i": $i, "p": $p, "exists": true,
            "base": {"Send": <PS<$t>>::SEND, "Sync": <PS<$t>>::SYNC},
            "conv": <PS<$t>>::OPQ,
            "opaque": {"Send": <PQS<$t>>::OSEND, "Sync": <PQY<$t>>::OSYNC}}));
    };
}
macro_rules! na {
    ($out:ident, $w:expr, $i:expr, $p:expr) => {
        $out.push(serde_json::json!({"w": $w, "i": $i, "p": $p, "exists": false}));
    };
}
macro_rules! payload_cells {
    ($out:ident, $p:expr, $P:ty) => {
        cell!($out, "inst", "ref", $p, &'static $P);
        cell!($out, "inst", "mut", $p, &'static mut $P);
        cell!($out, "inst", "cbox", $p, CBox<'static, $P>);
        cell!($out, "inst", "cslicebox", $p, CSliceBox<'static, $P>);
        cell!($out, "inst", "carc", $p, CArc<$P>);
        cell!($out, "inst", "carcsome", $p, CArcSome<$P>);
        cell!($out, "fwd", "ref", $p, Fwd<&'static $P>);
        cell!($out, "fwd", "mut", $p, Fwd<&'static mut $P>);
        cell!($out, "fwd", "cbox", $p, Fwd<CBox<'static, $P>>);
        cell!($out, "fwd", "cslicebox", $p, Fwd<CSliceBox<'static, $P>>);
        cell!($out, "fwd", "carc", $p, Fwd<CArc<$P>>);
        cell!($out, "fwd", "carcsome", $p, Fwd<CArcSome<$P>>);
        cell!($out, "obj", "ref", $p, TrBase<'static, &'static $P, NoContext>);
        cell!($out, "obj", "mut", $p, TrBase<'static, &'static mut $P, NoContext>);
        cell!($out, "obj", "cbox", $p, TrBase<'static, CBox<'static, $P>, NoContext>);
        na!($out, "obj", "cslicebox", $p);
        na!($out, "obj", "carc", $p);
        cell!($out, "obj", "carcsome", $p, TrBase<'static, CArcSome<$P>, NoContext>);
        cell!($out, "group", "ref", $p, GrBase<'static, &'static $P, NoContext>);
        cell!($out, "group", "mut", $p, GrBase<'static, &'static mut $P, NoContext>);
        cell!($out, "group", "cbox", $p, GrBase<'static, CBox<'static, $P>, NoContext>);
        na!($out, "group", "cslicebox", $p);
        na!($out, "group", "carc", $p);
        cell!($out, "group", "carcsome", $p, GrBase<'static, CArcSome<$P>, NoContext>);
    };
}

/// library types that are neither objects, groups nor smart pointers (outside C09): the wrapper next to the std type
/// it is a view of / built from.  Reported as information.
macro_rules! view {
    ($out:ident, $i:expr, $p:expr, $t:ty, $std:ty) => {
        $out.push(serde_json::json!({"w": "view", "i": $i, "p": $p, "exists": true,
            "base": {"Send": <PS<$t>>::SEND, "Sync": <PS<$t>>::SYNC},
            "std": {"Send": <PS<$std>>::SEND, "Sync": <PS<$std>>::SYNC},
            "conv": false, "opaque": {"Send": false, "Sync": false}}));
    };
}
macro_rules! view_cells {
    ($out:ident, $p:expr, $P:ty) => {
        view!($out, "csliceref", $p, cglue::slice::CSliceRef<'static, $P>, &'static [$P]);
        view!($out, "cslicemut", $p, cglue::slice::CSliceMut<'static, $P>, &'static mut [$P]);
        view!($out, "cvec", $p, cglue::vec::CVec<$P>, Vec<$P>);
        view!($out, "coption", $p, cglue::option::COption<$P>, Option<$P>);
        view!($out, "cresult", $p, cglue::result::CResult<$P, u8>, Result<$P, u8>);
        view!($out, "ctup2", $p, cglue::tuple::CTup2<$P, u8>, ($P, u8));
        view!($out, "callback", $p, cglue::callback::OpaqueCallback<'static, $P>, &'static mut (dyn FnMut($P) -> bool + Send));
        view!($out, "citerator", $p, cglue::iter::CIterator<'static, $P>, &'static mut (dyn Iterator<Item = $P> + Send));
    };
}

// ---- what `handle.into_opaque()` written as a METHOD CALL resolves to (inherent methods and auto-ref take part in the
// resolution, trait bounds of one impl do not decide it alone): the type of the result and its markers, read off the value
// by auto-ref specialisation ----
struct W<T>(T);
trait SendYes { fn v_send(&self) -> bool { true } }
impl<T: Send> SendYes for W<T> {}
trait SendNo { fn v_send(&self) -> bool { false } }
impl<T> SendNo for &W<T> {}
trait SyncYes { fn v_sync(&self) -> bool { true } }
impl<T: Sync> SyncYes for W<T> {}
trait SyncNo { fn v_sync(&self) -> bool { false } }
impl<T> SyncNo for &W<T> {}
fn tname<T>(_: &T) -> &'static str { std::any::type_name::<T>() }

macro_rules! mcall {
    ($out:ident, $i:expr, $p:expr, $h:expr) => {{
        let h = $h;
        let r = h.into_opaque();
        let name = tname(&r);
        let w = W(r);
        let (s, y) = ((&w).v_send(), (&w).v_sync());
        // the result may own a payload that must not be dropped on this thread's exit path twice: just leak it
        std::mem::forget(w);
        $out.push(serde_json::json!({"w": "mcall", "i": $i, "p": $p, "exists": true, "result": name,
            "base": {"Send": false, "Sync": false}, "conv": false, "opaque": {"Send": s, "Sync": y}}));
    }};
}
macro_rules! mcall_cells {
    ($out:ident, $p:expr, $mk:expr) => {
        mcall!($out, "ref", $p, &*Box::leak(Box::new($mk)));
        mcall!($out, "mut", $p, &mut *Box::leak(Box::new($mk)));
        mcall!($out, "cbox", $p, CBox::from($mk));
        mcall!($out, "cslicebox", $p, CSliceBox::from(vec![$mk].into_boxed_slice()));
        mcall!($out, "carc", $p, CArc::from($mk));
        mcall!($out, "carcsome", $p, CArcSome::from($mk));
    };
}

fn main() {
    let mut out: Vec<serde_json::Value> = vec![];
    mcall_cells!(out, "SendSync", SS(1));
    mcall_cells!(out, "SendOnly", SO(Cell::new(1)));
    mcall_cells!(out, "SyncOnly", YO(PhantomData, 1));
    mcall_cells!(out, "Neither", NN(Rc::new(1)));
    view_cells!(out, "SendSync", SS);
    view_cells!(out, "SendOnly", SO);
    view_cells!(out, "SyncOnly", YO);
    view_cells!(out, "Neither", NN);
    payload_cells!(out, "SendSync", SS);
    payload_cells!(out, "SendOnly", SO);
    payload_cells!(out, "SyncOnly", YO);
    payload_cells!(out, "Neither", NN);
    // sanity of the probe itself
    assert!(<PS<u64>>::SEND && <PS<u64>>::SYNC && !<PS<Rc<u64>>>::SEND && !<PS<Cell<u64>>>::SYNC && <PS<Cell<u64>>>::SEND);
    assert!(!<PS<YO>>::SEND && <PS<YO>>::SYNC);
    println!("{}", serde_json::to_string(&out).unwrap());
}
