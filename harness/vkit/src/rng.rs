//! Tiny deterministic PRNG (splitmix64 / xorshift*), so drivers need no external crate.

#[derive(Clone)]
pub struct Rng(u64);

impl Rng {
    pub fn new(seed: u64) -> Self {
        let mut r = Rng(seed ^ 0x9E37_79B9_7F4A_7C15);
        r.next();
        r
    }
    pub fn next(&mut self) -> u64 {
        self.0 = self.0.wrapping_add(0x9E37_79B9_7F4A_7C15);
        let mut z = self.0;
        z = (z ^ (z >> 30)).wrapping_mul(0xBF58_476D_1CE4_E5B9);
        z = (z ^ (z >> 27)).wrapping_mul(0x94D0_49BB_1331_11EB);
        z ^ (z >> 31)
    }
    /// uniform in `0..n` (n > 0)
    pub fn below(&mut self, n: usize) -> usize {
        (self.next() % n as u64) as usize
    }
    pub fn range(&mut self, lo: i64, hi: i64) -> i64 {
        lo + (self.next() % ((hi - lo + 1) as u64)) as i64
    }
    pub fn chance(&mut self, num: u64, den: u64) -> bool {
        self.next() % den < num
    }
    pub fn pick<'a, T>(&mut self, xs: &'a [T]) -> &'a T {
        &xs[self.below(xs.len())]
    }
}
