//! Payloads with identity: every value has a small integer id, a global per-id drop counter and a
//! magic word that is overwritten on drop, so that double drops, leaks and use-after-drop become
//! *observations* (counts, anomalies) rather than crashes.

use std::sync::atomic::{AtomicU32, AtomicUsize, Ordering::SeqCst};

pub const MAX_ID: usize = 1 << 16;
const Z: AtomicU32 = AtomicU32::new(0);
static DROPS: [AtomicU32; MAX_ID] = [Z; MAX_ID];
static CREATED: [AtomicU32; MAX_ID] = [Z; MAX_ID];
static USE_AFTER_DROP: AtomicUsize = AtomicUsize::new(0);
static NEXT_ID: AtomicUsize = AtomicUsize::new(1);

pub const LIVE_MAGIC: u32 = 0x11FE_C0DE;
pub const DEAD_MAGIC: u32 = 0xDEAD_DEAD;

pub fn reset_ids() {
    let n = NEXT_ID.swap(1, SeqCst).min(MAX_ID);
    for i in 0..n {
        DROPS[i].store(0, SeqCst);
        CREATED[i].store(0, SeqCst);
    }
    USE_AFTER_DROP.store(0, SeqCst);
}

/// Set the id the next fresh value (created by `Clone` and the like) will get.
pub fn set_next_id(id: usize) {
    NEXT_ID.store(id, SeqCst);
}
pub fn next_id() -> usize {
    NEXT_ID.load(SeqCst)
}
pub fn fresh_id() -> usize {
    let id = NEXT_ID.fetch_add(1, SeqCst);
    assert!(id < MAX_ID, "payload id space exhausted");
    id
}
pub fn note_created(id: usize) {
    CREATED[id].fetch_add(1, SeqCst);
    // keep NEXT_ID above every id handed out explicitly
    let mut cur = NEXT_ID.load(SeqCst);
    while cur <= id {
        match NEXT_ID.compare_exchange(cur, id + 1, SeqCst, SeqCst) {
            Ok(_) => break,
            Err(c) => cur = c,
        }
    }
}
/// Context destructors that have run so far (bumped by the context type of the object adapter) and, for the step in
/// progress, its value when the step began: a payload destructor that runs after a context destructor of the SAME step
/// was destroyed too late ("the context ... stays alive until the last such object is gone" - the instance goes first).
pub static CTX_RELEASES: std::sync::atomic::AtomicUsize = std::sync::atomic::AtomicUsize::new(0);
pub static STEP_EPOCH: std::sync::atomic::AtomicUsize = std::sync::atomic::AtomicUsize::new(0);
pub static LATE_PAYLOAD_DROPS: std::sync::atomic::AtomicUsize = std::sync::atomic::AtomicUsize::new(0);
pub fn note_drop(id: usize) {
    DROPS[id].fetch_add(1, SeqCst);
    if CTX_RELEASES.load(SeqCst) != STEP_EPOCH.load(SeqCst) {
        LATE_PAYLOAD_DROPS.fetch_add(1, SeqCst);
    }
}
pub fn drops(id: usize) -> u32 {
    DROPS[id].load(SeqCst)
}
pub fn created(id: usize) -> u32 {
    CREATED[id].load(SeqCst)
}
pub fn use_after_drop() -> usize {
    USE_AFTER_DROP.load(SeqCst)
}
pub fn note_use_after_drop() {
    USE_AFTER_DROP.fetch_add(1, SeqCst);
}
/// ids in `1..next_id()` that were created, as `(id, drops)`.
pub fn drop_table() -> Vec<(usize, u32)> {
    (1..next_id().min(MAX_ID))
        .filter(|&i| created(i) > 0)
        .map(|i| (i, drops(i)))
        .collect()
}

/// Heap-owning payload: identity, a value register, a heap block (so leaks show up in the ledger).
#[repr(C)]
#[derive(Debug)]
pub struct Heavy {
    pub id: u32,
    pub magic: u32,
    pub val: i64,
    pub heap: Box<u64>,
}

impl Heavy {
    pub fn new(id: usize, val: i64) -> Self {
        note_created(id);
        Heavy {
            id: id as u32,
            magic: LIVE_MAGIC,
            val,
            heap: Box::new(0x5EED_0000 + id as u64),
        }
    }
    pub fn check(&self) -> bool {
        let ok = self.magic == LIVE_MAGIC && *self.heap == 0x5EED_0000 + self.id as u64;
        if !ok {
            note_use_after_drop();
        }
        ok
    }
}

impl Clone for Heavy {
    fn clone(&self) -> Self {
        self.check();
        Heavy::new(fresh_id(), self.val)
    }
}

impl Drop for Heavy {
    fn drop(&mut self) {
        if self.magic != LIVE_MAGIC {
            note_use_after_drop();
        }
        note_drop(self.id as usize);
        self.magic = DEAD_MAGIC;
    }
}

/// Zero-sized payload with a destructor: only the *number* of drops is observable.
pub struct Zst;
static ZST_DROPS: AtomicUsize = AtomicUsize::new(0);
static ZST_MADE: AtomicUsize = AtomicUsize::new(0);
impl Zst {
    pub fn new() -> Self {
        ZST_MADE.fetch_add(1, SeqCst);
        Zst
    }
    pub fn made() -> usize {
        ZST_MADE.load(SeqCst)
    }
    pub fn dropped() -> usize {
        ZST_DROPS.load(SeqCst)
    }
    pub fn reset() {
        ZST_MADE.store(0, SeqCst);
        ZST_DROPS.store(0, SeqCst);
    }
}
impl Default for Zst {
    fn default() -> Self {
        Zst::new()
    }
}
impl Clone for Zst {
    fn clone(&self) -> Self {
        Zst::new()
    }
}
impl Drop for Zst {
    fn drop(&mut self) {
        ZST_DROPS.fetch_add(1, SeqCst);
    }
}
