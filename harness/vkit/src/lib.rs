//! Shared verification kit: ledger allocator, payloads with identity, tiny PRNG, JSON helpers.
//!
//! Everything here is deliberately free of heap allocation on the paths that run inside the
//! global allocator, and turns undefined behaviour symptoms (double free, free with a different
//! layout, write past the end, use after drop) into *recorded anomalies* instead of crashes
//! wherever that is possible.

pub mod ledger;
pub mod payload;
pub mod rng;

pub use serde_json::{json, Map, Value};

use std::io::{BufRead, Write};

/// Read all non-empty lines of a file (behaviour files are one JSON document per line).
pub fn read_lines(path: &str) -> Vec<String> {
    let f = std::fs::File::open(path).unwrap_or_else(|e| {
        eprintln!("TOOL-ERROR cannot open {}: {}", path, e);
        std::process::exit(2)
    });
    std::io::BufReader::new(f)
        .lines()
        .map(|l| l.unwrap())
        .filter(|l| !l.trim().is_empty())
        .collect()
}

/// Line-buffered ndjson writer.
pub struct NdJson {
    out: std::io::BufWriter<std::fs::File>,
    pub lines: usize,
}

impl NdJson {
    pub fn create(path: &str) -> Self {
        let f = std::fs::File::create(path).unwrap_or_else(|e| {
            eprintln!("TOOL-ERROR cannot create {}: {}", path, e);
            std::process::exit(2)
        });
        Self {
            out: std::io::BufWriter::new(f),
            lines: 0,
        }
    }
    pub fn emit(&mut self, v: &Value) {
        serde_json::to_writer(&mut self.out, v).unwrap();
        self.out.write_all(b"\n").unwrap();
        self.lines += 1;
    }
    pub fn flush(&mut self) {
        self.out.flush().unwrap();
    }
}

/// Run `f`, turning a panic into `Err(message)`; the default panic hook is silenced while it runs.
pub fn catch<R>(f: impl FnOnce() -> R) -> Result<R, String> {
    use std::panic::{catch_unwind, AssertUnwindSafe};
    match catch_unwind(AssertUnwindSafe(f)) {
        Ok(r) => Ok(r),
        Err(e) => {
            let msg = if let Some(s) = e.downcast_ref::<&str>() {
                s.to_string()
            } else if let Some(s) = e.downcast_ref::<String>() {
                s.clone()
            } else {
                "panic".to_string()
            };
            Err(msg)
        }
    }
}

pub fn silence_panics() {
    std::panic::set_hook(Box::new(|_| {}));
}

/// Result record of a replay run, printed as the last stdout line of an adapter.
pub fn summary(kind: &str, n: usize, steps: usize, failures: &[Value], extra: Value) {
    let v = json!({"summary": kind, "behaviours": n, "steps": steps,
                   "failures": failures.len(), "first_failures": failures.iter().take(40).collect::<Vec<_>>(),
                   "extra": extra});
    println!("{}", v);
}

pub fn arg_after(args: &[String], flag: &str) -> Option<String> {
    args.iter()
        .position(|a| a == flag)
        .and_then(|i| args.get(i + 1).cloned())
}

/// Progress marker for crash bisection: with VERIF_BISECT set, the index of the behaviour about to
/// run is written to stderr, so that after a crash the driver knows which one killed the child.
/// In bisect mode (VERIF_BISECT): the operation about to be executed, so that a crash can be attributed to it.
pub fn mark_op(op: &str) {
    if std::env::var_os("VERIF_BISECT").is_some() {
        eprintln!("OP {}", op);
    }
}
pub fn mark(bi: usize) {
    static ON: std::sync::atomic::AtomicUsize = std::sync::atomic::AtomicUsize::new(2);
    let mut on = ON.load(std::sync::atomic::Ordering::Relaxed);
    if on == 2 {
        on = if std::env::var_os("VERIF_BISECT").is_some() { 1 } else { 0 };
        ON.store(on, std::sync::atomic::Ordering::Relaxed);
    }
    if on == 1 {
        eprintln!("BEH {}", bi);
    }
}
