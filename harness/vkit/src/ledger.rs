//! Ledger allocator: a `GlobalAlloc` that records every block in a lock-protected, statically
//! allocated open-addressing table, pads each block with a non-zero guard, poisons and quarantines
//! freed *tracked* blocks, and records anomalies instead of crashing:
//!
//! * `unknown_free`    — pointer never allocated here (foreign module / garbage)
//! * `double_free`     — pointer already freed (still in quarantine)
//! * `layout_mismatch` — freed with a size/align different from the allocation's
//! * `guard_corrupt`   — bytes after the block were overwritten
//!
//! "Tracked" = allocated while the current thread is inside `track(..)`; only tracked blocks count
//! towards `live()`, so the harness' own bookkeeping allocations do not disturb the balance.

use std::alloc::{GlobalAlloc, Layout, System};
use std::cell::Cell;
use std::sync::atomic::{AtomicBool, AtomicU64, AtomicUsize, Ordering::*};

const SLOTS: usize = 1 << 20;
const GUARD: usize = 16;
const GUARD_BYTE: u8 = 0xA5;
const POISON: u8 = 0xDD;
const JUNK: u8 = 0x55;
const QUARANTINE_MAX_BLOCK: usize = 1 << 16;
const QUARANTINE_MAX_TOTAL: usize = 256 << 20;
// quarantined blocks keep their table entry; the quarantine is a FIFO ring: when it is full the oldest
// block is really freed (and its entry tombstoned), so long runs neither fill the table nor lose the
// use-after-free / double-free detection for recently freed blocks
const QCAP: usize = 1 << 16;
static mut QRING: [(usize, usize, u32); QCAP] = [(0, 0, 0); QCAP];
static mut QHEAD: usize = 0;
static mut QLEN: usize = 0;

#[derive(Clone, Copy)]
struct Entry {
    ptr: usize, // 0 = empty, 1 = tombstone
    size: usize,
    align: u32,
    tracked: bool,
    freed: bool,
    serial: u64,
}

const EMPTY: Entry = Entry {
    ptr: 0,
    size: 0,
    align: 0,
    tracked: false,
    freed: false,
    serial: 0,
};

static mut TABLE: [Entry; SLOTS] = [EMPTY; SLOTS];
static LOCK: AtomicBool = AtomicBool::new(false);
static SERIAL: AtomicU64 = AtomicU64::new(0);
static LIVE: AtomicUsize = AtomicUsize::new(0);
static LIVE_BYTES: AtomicUsize = AtomicUsize::new(0);
static TRACKED_ALLOCS: AtomicUsize = AtomicUsize::new(0);
static TRACKED_FREES: AtomicUsize = AtomicUsize::new(0);
static QUARANTINED: AtomicUsize = AtomicUsize::new(0);
static USED: AtomicUsize = AtomicUsize::new(0);

const MAX_ANOM: usize = 256;
#[derive(Clone, Copy)]
pub struct Anomaly {
    pub kind: u8,
    pub ptr: usize,
    pub a: usize,
    pub b: usize,
}
static mut ANOMS: [Anomaly; MAX_ANOM] = [Anomaly {
    kind: 0,
    ptr: 0,
    a: 0,
    b: 0,
}; MAX_ANOM];
static N_ANOM: AtomicUsize = AtomicUsize::new(0);

thread_local! {
    static TRACK: Cell<u32> = const { Cell::new(0) };
}

// ---- event log (spec/Modules.tla): what this module's allocator was asked to do, in the order of a clock that can
// be shared with the allocator of another module of the same process ----
pub const EV_ALLOC: u8 = 1;
pub const EV_FREE: u8 = 2;
pub const EV_UNKNOWN_FREE: u8 = 3;
pub const EV_DOUBLE_FREE: u8 = 4;
pub const EV_MISMATCH: u8 = 5;
pub const EV_MARK: u8 = 9;
#[repr(C)]
#[derive(Clone, Copy, Debug)]
pub struct Ev {
    pub seq: u64,
    pub kind: u8,
    pub ptr: usize,
    pub size: usize,
    pub serial: u64,
}
const EVCAP: usize = 1 << 17;
static mut EVS: [Ev; EVCAP] = [Ev { seq: 0, kind: 0, ptr: 0, size: 0, serial: 0 }; EVCAP];
static N_EV: AtomicUsize = AtomicUsize::new(0);
static EV_ON: AtomicBool = AtomicBool::new(false);
static OWN_CLOCK: AtomicU64 = AtomicU64::new(1);
static CLOCK: AtomicUsize = AtomicUsize::new(0);

fn ev(kind: u8, ptr: usize, size: usize, serial: u64) {
    if !EV_ON.load(Relaxed) {
        return;
    }
    let c = CLOCK.load(Relaxed);
    let clock: &AtomicU64 = if c == 0 { &OWN_CLOCK } else { unsafe { &*(c as *const AtomicU64) } };
    let seq = clock.fetch_add(1, SeqCst);
    let i = N_EV.fetch_add(1, SeqCst);
    if i < EVCAP {
        unsafe { EVS[i] = Ev { seq, kind, ptr, size, serial } };
    }
}
/// Start / stop recording; `clock` = 0 for this module's own clock, or the address of another module's.
pub fn events(on: bool, clock: usize) {
    CLOCK.store(clock, SeqCst);
    N_EV.store(0, SeqCst);
    EV_ON.store(on, SeqCst);
}
/// Copy the recorded events out and start an empty log (recording stays on).  Call at a point where no other thread allocates.
pub fn drain_events(out: *mut Ev, cap: usize) -> usize {
    let on = EV_ON.swap(false, SeqCst);
    let k = copy_events(out, cap);
    N_EV.store(0, SeqCst);
    EV_ON.store(on, SeqCst);
    k
}
/// Stop recording, keep what was recorded.
pub fn events_pause() {
    EV_ON.store(false, SeqCst);
}
pub fn clock_addr() -> usize {
    &OWN_CLOCK as *const AtomicU64 as usize
}
pub fn mark(code: usize) {
    ev(EV_MARK, code, 0, 0);
}
/// Copies the recorded events out (into caller-provided storage: usable across a module boundary); `usize::MAX` when
/// the log overflowed.
pub fn copy_events(out: *mut Ev, cap: usize) -> usize {
    let n = N_EV.load(SeqCst);
    if n > EVCAP {
        return usize::MAX;
    }
    let k = n.min(cap);
    for i in 0..k {
        unsafe { *out.add(i) = EVS[i] };
    }
    k
}

/// Track all threads regardless of the thread-local flag (used by multi-threaded drivers that
/// cannot wrap every op).
static TRACK_ALL: AtomicBool = AtomicBool::new(false);

pub fn track_all(on: bool) {
    TRACK_ALL.store(on, SeqCst);
}

fn tracking() -> bool {
    TRACK_ALL.load(Relaxed) || TRACK.try_with(|t| t.get() > 0).unwrap_or(false)
}

/// Run `f` with allocation tracking on for this thread.
pub fn track<R>(f: impl FnOnce() -> R) -> R {
    struct G;
    impl Drop for G {
        fn drop(&mut self) {
            let _ = TRACK.try_with(|t| t.set(t.get().saturating_sub(1)));
        }
    }
    TRACK.with(|t| t.set(t.get() + 1));
    let _g = G;
    f()
}

/// Run `f` with tracking suspended (harness bookkeeping inside a tracked region).
pub fn untracked<R>(f: impl FnOnce() -> R) -> R {
    struct G(u32);
    impl Drop for G {
        fn drop(&mut self) {
            let _ = TRACK.try_with(|t| t.set(self.0));
        }
    }
    let old = TRACK.with(|t| t.replace(0));
    let _g = G(old);
    f()
}

fn lock() {
    while LOCK
        .compare_exchange_weak(false, true, Acquire, Relaxed)
        .is_err()
    {
        std::hint::spin_loop();
    }
}
fn unlock() {
    LOCK.store(false, Release);
}

fn anomaly(kind: u8, ptr: usize, a: usize, b: usize) {
    let i = N_ANOM.fetch_add(1, SeqCst);
    if i < MAX_ANOM {
        unsafe { ANOMS[i] = Anomaly { kind, ptr, a, b } };
    }
}

#[inline]
fn hash(p: usize) -> usize {
    (p >> 3).wrapping_mul(0x9E37_79B9_7F4A_7C15) >> (64 - 20)
}

pub struct Ledger;

unsafe impl GlobalAlloc for Ledger {
    unsafe fn alloc(&self, layout: Layout) -> *mut u8 {
        let full = match Layout::from_size_align(layout.size() + GUARD, layout.align()) {
            Ok(l) => l,
            Err(_) => return std::ptr::null_mut(),
        };
        let p = System.alloc(full);
        if p.is_null() {
            return p;
        }
        std::ptr::write_bytes(p.add(layout.size()), GUARD_BYTE, GUARD);
        let tracked = tracking();
        if tracked {
            // what a recycled block looks like: code that forgets to initialise part of a buffer (a terminator, a length)
            // must not pass because fresh pages happen to be zero.  (alloc_zeroed zeroes after this.)
            std::ptr::write_bytes(p, JUNK, layout.size());
        }
        let e = Entry {
            ptr: p as usize,
            size: layout.size(),
            align: layout.align() as u32,
            tracked,
            freed: false,
            serial: SERIAL.fetch_add(1, Relaxed),
        };
        lock();
        let mut i = hash(p as usize);
        let mut n = 0;
        loop {
            let cur = TABLE[i].ptr;
            if cur == 0 || cur == 1 || cur == p as usize {
                if cur == 0 {
                    USED.fetch_add(1, Relaxed);
                }
                TABLE[i] = e;
                break;
            }
            i = (i + 1) & (SLOTS - 1);
            n += 1;
            if n >= SLOTS {
                unlock();
                // table full: tool failure, not a verdict
                let _ = std::io::Write::write_all(
                    &mut std::io::stderr(),
                    b"TOOL-ERROR ledger table full\n",
                );
                std::process::exit(2);
            }
        }
        unlock();
        if tracked {
            LIVE.fetch_add(1, SeqCst);
            LIVE_BYTES.fetch_add(layout.size(), SeqCst);
            TRACKED_ALLOCS.fetch_add(1, SeqCst);
            ev(EV_ALLOC, p as usize, layout.size(), e.serial);
        }
        p
    }

    unsafe fn dealloc(&self, p: *mut u8, layout: Layout) {
        lock();
        let mut i = hash(p as usize);
        let mut found = None;
        let mut n = 0;
        loop {
            let cur = TABLE[i].ptr;
            if cur == 0 {
                break;
            }
            if cur == p as usize {
                found = Some(i);
                break;
            }
            i = (i + 1) & (SLOTS - 1);
            n += 1;
            if n >= SLOTS {
                break;
            }
        }
        let i = match found {
            None => {
                unlock();
                anomaly(1, p as usize, layout.size(), layout.align());
                ev(EV_UNKNOWN_FREE, p as usize, layout.size(), 0);
                return; // never forward garbage to the system allocator
            }
            Some(i) => i,
        };
        let e = TABLE[i];
        if e.freed {
            unlock();
            anomaly(2, p as usize, layout.size(), e.size);
            ev(EV_DOUBLE_FREE, p as usize, layout.size(), e.serial);
            return;
        }
        let mismatch = e.size != layout.size() || e.align as usize != layout.align();
        let mut guard_ok = true;
        for k in 0..GUARD {
            if *p.add(e.size + k) != GUARD_BYTE {
                guard_ok = false;
            }
        }
        let quarantine = e.tracked && e.size <= QUARANTINE_MAX_BLOCK;
        let mut evicted: [(usize, usize, u32); 4] = [(0, 0, 0); 4];
        let mut n_ev = 0;
        if quarantine {
            TABLE[i].freed = true;
            // make room: evict the oldest blocks (at most 4 per call)
            while n_ev < 4 && QLEN > 0 && (QLEN >= QCAP || QUARANTINED.load(Relaxed) > QUARANTINE_MAX_TOTAL) {
                let old = QRING[QHEAD];
                QHEAD = (QHEAD + 1) & (QCAP - 1);
                QLEN -= 1;
                QUARANTINED.fetch_sub(old.1 + GUARD, Relaxed);
                // tombstone its table entry
                let mut j = hash(old.0);
                let mut m = 0;
                while m < SLOTS {
                    let cur = TABLE[j].ptr;
                    if cur == 0 {
                        break;
                    }
                    if cur == old.0 {
                        TABLE[j].ptr = 1;
                        break;
                    }
                    j = (j + 1) & (SLOTS - 1);
                    m += 1;
                }
                evicted[n_ev] = old;
                n_ev += 1;
            }
            if QLEN < QCAP {
                QRING[(QHEAD + QLEN) & (QCAP - 1)] = (p as usize, e.size, e.align);
                QLEN += 1;
                QUARANTINED.fetch_add(e.size + GUARD, Relaxed);
            } else {
                // cannot happen (room was made above); fall back to freeing
                TABLE[i].ptr = 1;
            }
        } else {
            TABLE[i].ptr = 1;
        }
        let still_quarantined = quarantine && TABLE[i].ptr != 1;
        unlock();
        if mismatch {
            anomaly(3, p as usize, layout.size(), e.size);
            if e.tracked {
                ev(EV_MISMATCH, p as usize, layout.size(), e.serial);
            }
        }
        if !guard_ok {
            anomaly(4, p as usize, e.size, 0);
        }
        if e.tracked {
            LIVE.fetch_sub(1, SeqCst);
            LIVE_BYTES.fetch_sub(e.size, SeqCst);
            TRACKED_FREES.fetch_add(1, SeqCst);
            ev(EV_FREE, p as usize, e.size, e.serial);
        }
        for k in 0..n_ev {
            let (op, os, oa) = evicted[k];
            System.dealloc(op as *mut u8, Layout::from_size_align_unchecked(os + GUARD, oa as usize));
        }
        if still_quarantined {
            std::ptr::write_bytes(p, POISON, e.size);
        } else {
            System.dealloc(
                p,
                Layout::from_size_align_unchecked(e.size + GUARD, e.align as usize),
            );
        }
    }
}

#[derive(Clone, Copy, Debug, PartialEq, Eq)]
pub struct Snap {
    pub live: usize,
    pub bytes: usize,
    pub allocs: usize,
    pub frees: usize,
    pub anomalies: usize,
}

pub fn snap() -> Snap {
    Snap {
        live: LIVE.load(SeqCst),
        bytes: LIVE_BYTES.load(SeqCst),
        allocs: TRACKED_ALLOCS.load(SeqCst),
        frees: TRACKED_FREES.load(SeqCst),
        anomalies: N_ANOM.load(SeqCst),
    }
}

pub fn live() -> usize {
    LIVE.load(SeqCst)
}

pub fn anomaly_count() -> usize {
    N_ANOM.load(SeqCst)
}

/// Anomalies recorded since index `from`, rendered as strings.
pub fn anomalies_since(from: usize) -> Vec<String> {
    let n = N_ANOM.load(SeqCst).min(MAX_ANOM);
    let mut out = Vec::new();
    for i in from..n {
        let a = unsafe { ANOMS[i] };
        out.push(match a.kind {
            1 => format!("unknown_free size={} align={}", a.a, a.b),
            2 => format!("double_free size={} (allocated {})", a.a, a.b),
            3 => format!("layout_mismatch freed_size={} allocated_size={}", a.a, a.b),
            4 => format!("guard_corrupt allocated_size={}", a.a),
            _ => "unknown".to_string(),
        });
    }
    out
}

/// Look up a block: `(size, align, freed, tracked)`.
pub fn lookup(p: *const u8) -> Option<(usize, usize, bool, bool)> {
    lock();
    let mut i = hash(p as usize);
    let mut n = 0;
    let mut r = None;
    unsafe {
        loop {
            let cur = TABLE[i].ptr;
            if cur == 0 {
                break;
            }
            if cur == p as usize {
                let e = TABLE[i];
                r = Some((e.size, e.align as usize, e.freed, e.tracked));
                break;
            }
            i = (i + 1) & (SLOTS - 1);
            n += 1;
            if n >= SLOTS {
                break;
            }
        }
    }
    unlock();
    r
}
