//! Construction of opaque objects of the reference family behind one FFI-safe tagged union, so that
//! the same constructors can run inside the adapter's own module or inside a separately compiled
//! plugin (C05).  Everything that crosses the module boundary here is `#[repr(C)]`.

use crate::*;
use cglue::arc::{CArc, CArcSome};
use cglue::boxed::CBox;
use cglue::trait_group::{c_void, NoContext, Opaquable};

pub type BoxI = CBox<'static, c_void>;
pub type MutI = &'static mut c_void;
pub type RefI = &'static c_void;
pub type ArcI = CArcSome<c_void>;
pub type ACtx = CArc<c_void>;

macro_rules! obj_union {
    ($($var:ident($ty:ty)),* $(,)?) => {
        /// One opaque object of the family (N = no context, A = Arc context).
        #[repr(C)]
        pub enum ObjUnion {
            None,
            $($var($ty)),*
        }
    };
}

obj_union! {
    RaBoxN(RaBase<'static, BoxI, NoContext>), RaBoxA(RaBase<'static, BoxI, ACtx>),
    RaMutN(RaBase<'static, MutI, NoContext>), RaMutA(RaBase<'static, MutI, ACtx>),
    RaRefN(RaBase<'static, RefI, NoContext>), RaRefA(RaBase<'static, RefI, ACtx>),
    RaArcN(RaBase<'static, ArcI, NoContext>), RaArcA(RaBase<'static, ArcI, ACtx>),
    RbBoxN(RbBase<'static, BoxI, NoContext>), RbBoxA(RbBase<'static, BoxI, ACtx>),
    RbMutN(RbBase<'static, MutI, NoContext>), RbMutA(RbBase<'static, MutI, ACtx>),
    RbRefN(RbBase<'static, RefI, NoContext>), RbRefA(RbBase<'static, RefI, ACtx>),
    MaBoxN(MaBase<'static, BoxI, NoContext>), MaBoxA(MaBase<'static, BoxI, ACtx>),
    MaMutN(MaBase<'static, MutI, NoContext>), MaMutA(MaBase<'static, MutI, ACtx>),
    ObBoxN(ObBase<'static, BoxI, NoContext>), ObBoxA(ObBase<'static, BoxI, ACtx>),
    KidBoxN(KidBase<'static, BoxI, NoContext>), KidBoxA(KidBase<'static, BoxI, ACtx>),
    KidMutN(KidBase<'static, MutI, NoContext>), KidMutA(KidBase<'static, MutI, ACtx>),
    CloneBoxN(cglue::ext::CloneBase<'static, BoxI, NoContext>), CloneBoxA(cglue::ext::CloneBase<'static, BoxI, ACtx>),
    GBoxN(G<'static, BoxI, NoContext>), GBoxA(G<'static, BoxI, ACtx>),
    GMutN(G<'static, MutI, NoContext>), GMutA(G<'static, MutI, ACtx>),
    GRefN(G<'static, RefI, NoContext>), GRefA(G<'static, RefI, ACtx>),
}

/// What a constructor hands back: the object and the address of the payload's core (so that the
/// adapter can read the registers of a live payload).
#[repr(C)]
pub struct Made {
    pub obj: ObjUnion,
    pub core: *const Core,
}

/// environment-owned payload (borrowed by &/&mut objects)
pub enum EnvPay {
    P0(Box<P0>),
    P1(Box<P1>),
    P2(Box<P2>),
    P3(Box<P3>),
    P4(Box<P4>),
    P5(Box<P5>),
}
impl EnvPay {
    pub fn new(pt: u32, id: usize, v: i64) -> Self {
        match pt {
            0 => EnvPay::P0(Box::new(P0::new(id, v))),
            1 => EnvPay::P1(Box::new(P1::new(id, v))),
            2 => EnvPay::P2(Box::new(P2::new(id, v))),
            3 => EnvPay::P3(Box::new(P3::new(id, v))),
            4 => EnvPay::P4(Box::new(P4::new(id, v))),
            _ => EnvPay::P5(Box::new(P5::new(id, v))),
        }
    }
    pub fn core(&self) -> &Core {
        match self {
            EnvPay::P0(p) => &p.0,
            EnvPay::P1(p) => &p.0,
            EnvPay::P2(p) => &p.0,
            EnvPay::P3(p) => &p.0,
            EnvPay::P4(p) => &p.0,
            EnvPay::P5(p) => &p.0,
        }
    }
}

pub const T_OBJ: u32 = 0;
pub const T_GROUP: u32 = 1;
pub const K_BOX: u32 = 0;
pub const K_MUT: u32 = 1;
pub const K_REF: u32 = 2;
pub const K_ARCSOME: u32 = 3;
pub fn tr_code(tr: &str) -> u32 {
    match tr {
        "Ra" => 0,
        "Rb" => 1,
        "Ma" => 2,
        "Ob" => 3,
        "Kid" => 4,
        "Clone" => 5,
        _ => 99,
    }
}
pub fn kind_code(k: &str) -> u32 {
    match k {
        "box" => K_BOX,
        "mut" => K_MUT,
        "ref" => K_REF,
        _ => K_ARCSOME,
    }
}

/// owned object: a fresh payload of type `pt` moved into a CBox (or CArcSome)
pub fn mk_owned(kind: u32, t: u32, tr: u32, pt: u32, id: usize, v: i64, ctx: Option<ACtx>) -> Made {
    let mut core: *const Core = std::ptr::null();
    macro_rules! mk {
        ($b:expr, $tr:ident, $n:ident, $a:ident) => {
            match ctx {
                None => ObjUnion::$n(trait_obj!($b as $tr)),
                Some(c) => ObjUnion::$a(trait_obj!(($b, c) as $tr)),
            }
        };
    }
    macro_rules! mkg {
        ($b:expr) => {
            match ctx {
                None => ObjUnion::GBoxN(group_obj!($b as G)),
                Some(c) => ObjUnion::GBoxA(group_obj!(($b, c) as G)),
            }
        };
    }
    macro_rules! owned {
        ($P:ident, [$($trc:literal => ($trn:ident, $n:ident, $a:ident)),*]) => {{
            let p = $P::new(id, v);
            if kind == K_ARCSOME {
                let a = CArcSome::from(p);
                core = &a.0 as *const Core;
                match ctx {
                    None => ObjUnion::RaArcN(trait_obj!(a as Ra)),
                    Some(c) => ObjUnion::RaArcA(trait_obj!((a, c) as Ra)),
                }
            } else {
                let b = CBox::from(p);
                core = &b.0 as *const Core;
                if t == T_GROUP {
                    mkg!(b)
                } else {
                    match tr {
                        0 => mk!(b, Ra, RaBoxN, RaBoxA),
                        $($trc => mk!(b, $trn, $n, $a),)*
                        _ => ObjUnion::None,
                    }
                }
            }
        }};
    }
    let obj = match pt {
        0 => owned!(P0, []),
        1 => owned!(P1, [1 => (Rb, RbBoxN, RbBoxA), 2 => (Ma, MaBoxN, MaBoxA)]),
        2 => owned!(P2, [2 => (Ma, MaBoxN, MaBoxA), 3 => (Ob, ObBoxN, ObBoxA), 5 => (Clone, CloneBoxN, CloneBoxA)]),
        3 => owned!(P3, [1 => (Rb, RbBoxN, RbBoxA), 2 => (Ma, MaBoxN, MaBoxA), 3 => (Ob, ObBoxN, ObBoxA), 4 => (Kid, KidBoxN, KidBoxA), 5 => (Clone, CloneBoxN, CloneBoxA)]),
        4 => owned!(P4, [1 => (Rb, RbBoxN, RbBoxA)]),
        _ => owned!(P5, [1 => (Rb, RbBoxN, RbBoxA), 2 => (Ma, MaBoxN, MaBoxA), 4 => (Kid, KidBoxN, KidBoxA)]),
    };
    Made { obj, core }
}

/// borrowed object over an environment payload; lifetimes are erased through raw pointers (the
/// specification's preconditions are Rust's borrow rules)
pub fn mk_borrowed(kind: u32, t: u32, tr: u32, env: &mut EnvPay, ctx: Option<ACtx>) -> ObjUnion {
    macro_rules! rf { ($p:expr, $P:ty) => { unsafe { &*(&**$p as *const $P) } }; }
    macro_rules! mt { ($p:expr, $P:ty) => { unsafe { &mut *(&mut **$p as *mut $P) } }; }
    macro_rules! mk {
        ($r:expr, $tr:ident, $n:ident, $a:ident) => {
            match ctx {
                None => ObjUnion::$n(trait_obj!($r as $tr)),
                Some(c) => ObjUnion::$a(trait_obj!(($r, c) as $tr)),
            }
        };
    }
    macro_rules! mkg {
        ($r:expr, $n:ident, $a:ident) => {
            match ctx {
                None => ObjUnion::$n(group_obj!($r as G)),
                Some(c) => ObjUnion::$a(group_obj!(($r, c) as G)),
            }
        };
    }
    let is_mut = kind == K_MUT;
    match (env, is_mut, t, tr) {
        (EnvPay::P0(p), false, T_GROUP, _) => mkg!(rf!(p, P0), GRefN, GRefA),
        (EnvPay::P4(p), false, T_GROUP, _) => mkg!(rf!(p, P4), GRefN, GRefA),
        (EnvPay::P0(p), true, T_GROUP, _) => mkg!(mt!(p, P0), GMutN, GMutA),
        (EnvPay::P1(p), true, T_GROUP, _) => mkg!(mt!(p, P1), GMutN, GMutA),
        (EnvPay::P4(p), true, T_GROUP, _) => mkg!(mt!(p, P4), GMutN, GMutA),
        (EnvPay::P5(p), true, T_GROUP, _) => mkg!(mt!(p, P5), GMutN, GMutA),
        (EnvPay::P0(p), false, _, 0) => mk!(rf!(p, P0), Ra, RaRefN, RaRefA),
        (EnvPay::P1(p), false, _, 0) => mk!(rf!(p, P1), Ra, RaRefN, RaRefA),
        (EnvPay::P2(p), false, _, 0) => mk!(rf!(p, P2), Ra, RaRefN, RaRefA),
        (EnvPay::P3(p), false, _, 0) => mk!(rf!(p, P3), Ra, RaRefN, RaRefA),
        (EnvPay::P4(p), false, _, 0) => mk!(rf!(p, P4), Ra, RaRefN, RaRefA),
        (EnvPay::P5(p), false, _, 0) => mk!(rf!(p, P5), Ra, RaRefN, RaRefA),
        (EnvPay::P0(p), true, _, 0) => mk!(mt!(p, P0), Ra, RaMutN, RaMutA),
        (EnvPay::P1(p), true, _, 0) => mk!(mt!(p, P1), Ra, RaMutN, RaMutA),
        (EnvPay::P2(p), true, _, 0) => mk!(mt!(p, P2), Ra, RaMutN, RaMutA),
        (EnvPay::P3(p), true, _, 0) => mk!(mt!(p, P3), Ra, RaMutN, RaMutA),
        (EnvPay::P4(p), true, _, 0) => mk!(mt!(p, P4), Ra, RaMutN, RaMutA),
        (EnvPay::P5(p), true, _, 0) => mk!(mt!(p, P5), Ra, RaMutN, RaMutA),
        (EnvPay::P1(p), false, _, 1) => mk!(rf!(p, P1), Rb, RbRefN, RbRefA),
        (EnvPay::P3(p), false, _, 1) => mk!(rf!(p, P3), Rb, RbRefN, RbRefA),
        (EnvPay::P4(p), false, _, 1) => mk!(rf!(p, P4), Rb, RbRefN, RbRefA),
        (EnvPay::P5(p), false, _, 1) => mk!(rf!(p, P5), Rb, RbRefN, RbRefA),
        (EnvPay::P1(p), true, _, 1) => mk!(mt!(p, P1), Rb, RbMutN, RbMutA),
        (EnvPay::P3(p), true, _, 1) => mk!(mt!(p, P3), Rb, RbMutN, RbMutA),
        (EnvPay::P4(p), true, _, 1) => mk!(mt!(p, P4), Rb, RbMutN, RbMutA),
        (EnvPay::P5(p), true, _, 1) => mk!(mt!(p, P5), Rb, RbMutN, RbMutA),
        (EnvPay::P1(p), true, _, 2) => mk!(mt!(p, P1), Ma, MaMutN, MaMutA),
        (EnvPay::P2(p), true, _, 2) => mk!(mt!(p, P2), Ma, MaMutN, MaMutA),
        (EnvPay::P3(p), true, _, 2) => mk!(mt!(p, P3), Ma, MaMutN, MaMutA),
        (EnvPay::P5(p), true, _, 2) => mk!(mt!(p, P5), Ma, MaMutN, MaMutA),
        (EnvPay::P3(p), true, _, 4) => mk!(mt!(p, P3), Kid, KidMutN, KidMutA),
        (EnvPay::P5(p), true, _, 4) => mk!(mt!(p, P5), Kid, KidMutN, KidMutA),
        _ => ObjUnion::None,
    }
}
