//! The reference trait family used by the object-lifecycle specification (spec/CGlueObj.tla).
//!
//! Every method has an effect that is distinct from every other method's and is not idempotent,
//! so that a call reaching the wrong slot, a lost state update, a double call or a call on the
//! wrong instance changes an observable.  All arithmetic is modulo `M` (the spec's `Mod`).

pub mod ctor;

use cglue::*;
use std::sync::atomic::{AtomicUsize, Ordering::SeqCst};
use vkit::payload;

pub const M: i64 = 61;

/// Event log hooks (set by the adapter): method bodies report entry so that trace validation can
/// order them against vtable-trampoline and destructor events.
pub static BODY_EVENTS: AtomicUsize = AtomicUsize::new(0);
pub static EVENT_SINK: std::sync::Mutex<Vec<(String, usize)>> = std::sync::Mutex::new(Vec::new());
pub fn emit(ev: &str, id: usize) {
    if BODY_EVENTS.load(SeqCst) != 0 {
        vkit::ledger::untracked(|| EVENT_SINK.lock().unwrap().push((ev.to_string(), id)));
    }
}

/// Inner value handed out by reference (`kid_ref` / `kid_mut`): has its own register.
#[repr(C)]
pub struct Inner {
    pub id: u32,
    pub magic: u32,
    pub val: i64,
}

/// Payload core shared by all payload types.
#[repr(C)]
pub struct Core {
    pub id: u32,
    pub magic: u32,
    pub val: i64,
    pub inner: Inner,
    /// a second inner value: which of the two a selecting accessor hands out depends on its argument
    pub inner2: Inner,
    pub heap: Box<u64>,
}

impl Core {
    pub fn new(id: usize, val: i64) -> Self {
        payload::note_created(id);
        Core {
            id: id as u32,
            magic: payload::LIVE_MAGIC,
            val,
            inner: Inner { id: id as u32, magic: payload::LIVE_MAGIC, val: (val + 3) % M },
            inner2: Inner { id: id as u32, magic: payload::LIVE_MAGIC, val: (val + 1) % M },
            heap: Box::new(0xC0DE_0000 + id as u64),
        }
    }
    pub fn check(&self) {
        if self.magic != payload::LIVE_MAGIC || *self.heap != 0xC0DE_0000 + self.id as u64 {
            payload::note_use_after_drop();
        }
    }
}

impl Drop for Core {
    fn drop(&mut self) {
        if self.magic != payload::LIVE_MAGIC {
            payload::note_use_after_drop();
        }
        emit("payload_drop", self.id as usize);
        payload::note_drop(self.id as usize);
        self.magic = payload::DEAD_MAGIC;
        self.inner.magic = payload::DEAD_MAGIC;
        self.inner2.magic = payload::DEAD_MAGIC;
    }
}

// ------------------------------------------------------------------------------------------------
// traits
// ------------------------------------------------------------------------------------------------

/// mandatory, shared-reference methods only (so it exists for every container kind)
#[cglue_trait]
pub trait Ra {
    fn ra_get(&self) -> i64;
    fn ra_mix(&self, a: i64) -> i64;
    /// identity of the instance the call reached (payload id; 1000 + id for an inner value)
    fn ra_id(&self) -> i64;
}

/// optional, shared-reference methods only (so by-reference groups have something to cast to)
#[cglue_trait]
pub trait Rb {
    fn rb_get(&self) -> i64;
    fn rb_id(&self) -> i64;
}

#[cglue_trait]
pub trait Ma {
    fn ma_add(&mut self, a: i64) -> i64;
    fn ma_peek(&self) -> i64;
    fn ma_id(&self) -> i64;
}

#[cglue_trait]
pub trait Ob {
    #[wrap_with_obj(Ra)]
    type Owned: Ra + 'static;
    fn ob_peek(&self) -> i64;
    fn ob_id(&self) -> i64;
    fn ob_take(self) -> i64;
    fn ob_into(self) -> Self::Owned;
    /// fallible by-value call: Ok(wrapped child) or Err (the payload is consumed either way)
    fn ob_try(self, fail: bool) -> Result<Self::Owned, ()>;
}

#[cglue_trait]
pub trait Kid {
    #[wrap_with_obj(Ra)]
    type KOwned: Ra + 'static;
    #[wrap_with_obj_ref(Ra)]
    type KRef: Ra + 'static;
    #[wrap_with_obj_mut(Ma)]
    type KMut: Ma + 'static;
    fn kid_id(&self) -> i64;
    fn kid_owned(&self) -> Self::KOwned;
    /// the same through a pinned receiver (poll-style methods): the child still takes its own context clone
    fn kid_owned_pin(self: core::pin::Pin<&Self>) -> Self::KOwned;
    fn kid_ref(&self) -> &Self::KRef;
    fn kid_mut(&mut self) -> &mut Self::KMut;
    /// the reference returned depends on the argument (0: first inner value, otherwise the second)
    fn kid_sel(&self, sel: i64) -> &Self::KRef;
    fn kid_sel_mut(&mut self, sel: i64) -> &mut Self::KMut;
    /// an owned wrapper whose type borrows from the parent (lending / GAT shape): an object of its own, with its own context clone
    #[wrap_with_obj(Ra)]
    type KView<'a>: Ra + 'a
    where
        Self: 'a;
    fn kid_view<'a>(&'a mut self) -> Self::KView<'a>;
}

/// What `kid_view` lends: a view of the first inner value.
pub struct ViewOf<'a>(pub &'a Inner);
impl<'a> Ra for ViewOf<'a> {
    fn ra_get(&self) -> i64 {
        self.0.ra_get()
    }
    fn ra_mix(&self, a: i64) -> i64 {
        self.0.ra_mix(a)
    }
    fn ra_id(&self) -> i64 {
        self.0.ra_id()
    }
}

impl Ra for Inner {
    fn ra_get(&self) -> i64 {
        if self.magic != payload::LIVE_MAGIC {
            payload::note_use_after_drop();
        }
        (self.val + 1) % M
    }
    fn ra_mix(&self, a: i64) -> i64 {
        (self.val * 2 + a) % M
    }
    fn ra_id(&self) -> i64 {
        1000 + self.id as i64
    }
}
impl Ma for Inner {
    fn ma_add(&mut self, a: i64) -> i64 {
        if self.magic != payload::LIVE_MAGIC {
            payload::note_use_after_drop();
        }
        self.val = (self.val * 3 + a + 1) % M;
        self.val
    }
    fn ma_peek(&self) -> i64 {
        (self.val + 7) % M
    }
    fn ma_id(&self) -> i64 {
        1000 + self.id as i64
    }
}

macro_rules! payload_type {
    ($name:ident, $pt:expr) => {
        #[repr(C)]
        pub struct $name(pub Core);
        impl $name {
            pub const PTYPE: usize = $pt;
            pub fn new(id: usize, val: i64) -> Self {
                $name(Core::new(id, val))
            }
        }
        impl Ra for $name {
            fn ra_get(&self) -> i64 {
                self.0.check();
                emit("body", self.0.id as usize);
                (self.0.val + 1) % M
            }
            fn ra_mix(&self, a: i64) -> i64 {
                self.0.check();
                (self.0.val * 2 + a) % M
            }
            fn ra_id(&self) -> i64 {
                self.0.check();
                self.0.id as i64
            }
        }
    };
}
macro_rules! impl_rb {
    ($name:ident) => {
        impl Rb for $name {
            fn rb_get(&self) -> i64 {
                self.0.check();
                (self.0.val + 21) % M
            }
            fn rb_id(&self) -> i64 {
                self.0.id as i64
            }
        }
    };
}
macro_rules! impl_ma {
    ($name:ident) => {
        impl Ma for $name {
            fn ma_add(&mut self, a: i64) -> i64 {
                self.0.check();
                self.0.val = (self.0.val * 3 + a + 1) % M;
                self.0.val
            }
            fn ma_peek(&self) -> i64 {
                self.0.check();
                (self.0.val + 7) % M
            }
            fn ma_id(&self) -> i64 {
                self.0.id as i64
            }
        }
    };
}
macro_rules! impl_ob {
    ($name:ident) => {
        impl Ob for $name {
            type Owned = P0;
            fn ob_peek(&self) -> i64 {
                self.0.check();
                (self.0.val + 13) % M
            }
            fn ob_id(&self) -> i64 {
                self.0.id as i64
            }
            fn ob_take(self) -> i64 {
                self.0.check();
                emit("body", self.0.id as usize);
                (self.0.val + 100) % M
            }
            fn ob_into(self) -> P0 {
                self.0.check();
                emit("body", self.0.id as usize);
                P0::new(payload::fresh_id(), (self.0.val + 9) % M)
            }
            fn ob_try(self, fail: bool) -> Result<P0, ()> {
                self.0.check();
                emit("body", self.0.id as usize);
                if fail {
                    Err(())
                } else {
                    Ok(P0::new(payload::fresh_id(), (self.0.val + 9) % M))
                }
            }
        }
    };
}
macro_rules! impl_kid {
    ($name:ident) => {
        impl Kid for $name {
            type KOwned = P0;
            type KRef = Inner;
            type KMut = Inner;
            fn kid_id(&self) -> i64 {
                self.0.id as i64
            }
            fn kid_owned(&self) -> P0 {
                self.0.check();
                P0::new(payload::fresh_id(), (self.0.val + 5) % M)
            }
            fn kid_owned_pin(self: core::pin::Pin<&Self>) -> P0 {
                self.0.check();
                P0::new(payload::fresh_id(), (self.0.val + 5) % M)
            }
            fn kid_ref(&self) -> &Inner {
                self.0.check();
                &self.0.inner
            }
            fn kid_mut(&mut self) -> &mut Inner {
                self.0.check();
                &mut self.0.inner
            }
            fn kid_sel(&self, sel: i64) -> &Inner {
                self.0.check();
                if sel == 0 { &self.0.inner } else { &self.0.inner2 }
            }
            fn kid_sel_mut(&mut self, sel: i64) -> &mut Inner {
                self.0.check();
                if sel == 0 { &mut self.0.inner } else { &mut self.0.inner2 }
            }
            type KView<'a> = ViewOf<'a>;
            fn kid_view<'a>(&'a mut self) -> ViewOf<'a> {
                self.0.check();
                ViewOf(&self.0.inner)
            }
        }
    };
}
macro_rules! impl_clone {
    ($name:ident) => {
        impl Clone for $name {
            fn clone(&self) -> Self {
                self.0.check();
                let mut c = $name::new(payload::fresh_id(), self.0.val);
                c.0.inner.val = self.0.inner.val;
                c.0.inner2.val = self.0.inner2.val;
                c
            }
        }
    };
}

payload_type!(P0, 0);
payload_type!(P1, 1);
payload_type!(P2, 2);
payload_type!(P3, 3);
payload_type!(P4, 4);
payload_type!(P5, 5);
impl_ma!(P1);
impl_ma!(P2);
impl_ma!(P3);
impl_ma!(P5);
impl_ob!(P2);
impl_ob!(P3);
impl_kid!(P3);
impl_kid!(P5);
impl_clone!(P2);
impl_clone!(P3);
impl_rb!(P1);
impl_rb!(P3);
impl_rb!(P4);
impl_rb!(P5);

cglue_trait_group!(G, Ra, { Ma, Ob, Kid, Clone, Rb });
cglue_impl_group!(P0, G, {});
cglue_impl_group!(P1, G, { Ma, Rb });
cglue_impl_group!(P2, G, { Ma, Ob, Clone });
cglue_impl_group!(P3, G, { Ma, Ob, Kid, Clone, Rb });
// by-reference and by-mutable-reference groups exist only for types whose enabled optional traits
// are all implementable for that container kind
cglue_impl_group!(P4, G, { Rb });
cglue_impl_group!(P5, G, { Ma, Kid, Rb });
