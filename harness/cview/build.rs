fn main() {
    println!("cargo:rerun-if-changed=../../cview/cview.c");
    cc::Build::new().file("../../cview/cview.c").flag("-std=c99").warnings(true).compile("cview_c");
}
