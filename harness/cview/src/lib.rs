//! Rust declarations of the C driver (cview/cview.c).  Arguments are untyped pointers on purpose:
//! the C side must work from the published layouts alone.
use std::ffi::c_void;
#[repr(C)]
#[derive(Clone, Copy)]
pub struct RawArc {
    pub instance: *const c_void,
    pub clone_fn: usize,
    pub drop_fn: usize,
}
#[repr(C)]
#[derive(Clone, Copy)]
pub struct RawOpt {
    pub tag: u32,
    pub value: u64,
}
extern "C" {
    pub fn cv_box_release(b: *mut c_void);
    pub fn cv_box_make(out: *mut c_void, storage: *mut u64, v: u64, owned: i32);
    pub fn cv_box_freed() -> usize;
    pub fn cv_box_freed_ptr() -> *const c_void;
    pub fn cv_vec_make(v: *mut c_void);
    pub fn cv_vec_stat(out: *mut CvVecStat);
    pub fn cv_cb_make(cb: *mut c_void, st: *mut CvCbState);
    pub fn cv_box_instance(b: *const c_void) -> *const c_void;
    pub fn cv_arc_clone(a: *const c_void) -> RawArc;
    pub fn cv_arc_release(a: *mut c_void);
    pub fn cv_arc_instance(a: *const c_void) -> *const c_void;
    pub fn cv_slice_sum(s: *const c_void, elem: usize) -> u64;
    pub fn cv_slice_fill(s: *mut c_void, elem: usize, v: u8);
    pub fn cv_vec_len(v: *const c_void) -> usize;
    pub fn cv_vec_cap(v: *const c_void) -> usize;
    pub fn cv_vec_reserve(v: *mut c_void, n: usize);
    pub fn cv_vec_push(v: *mut c_void, e: *const c_void, sz: usize);
    pub fn cv_vec_pop(v: *mut c_void, out: *mut c_void, sz: usize) -> i32;
    pub fn cv_vec_insert(v: *mut c_void, k: usize, e: *const c_void, sz: usize);
    pub fn cv_vec_remove(v: *mut c_void, k: usize, out: *mut c_void, sz: usize);
    pub fn cv_vec_write(v: *mut c_void, k: usize, e: *const c_void, sz: usize);
    pub fn cv_vec_read(v: *const c_void, k: usize, out: *mut c_void, sz: usize);
    pub fn cv_vec_release(v: *mut c_void);
    pub fn cv_feed(cb: *mut c_void, items: *const u64, n: usize) -> usize;
    pub fn cv_iter_drain(it: *mut c_void, out: *mut u64, max: usize) -> usize;
    pub fn cv_iter_next(it: *mut c_void, out: *mut u64) -> i32;
    pub fn cv_arr_iter(it: *mut c_void, st: *mut CvArrState);
    pub fn cv_opt_tag(o: *const c_void) -> u32;
    pub fn cv_opt_value(o: *const c_void) -> u64;
    pub fn cv_res_tag(r: *const c_void) -> u32;
    pub fn cv_res_ok(r: *const c_void) -> u64;
    pub fn cv_res_err(r: *const c_void) -> u32;
    pub fn cv_opt_make(tag: u32, v: u64) -> RawOpt;
    pub fn cv_sizeof(which: i32) -> usize;
    pub fn cv_opt8_tag(o: *const c_void) -> u32;
    pub fn cv_opt8_value(o: *const c_void) -> u8;
    pub fn cv_opt16_tag(o: *const c_void) -> u32;
    pub fn cv_opt16_value(o: *const c_void) -> u16;
    pub fn cv_opt8_fill(o: *mut c_void, tag: u32, v: u8);
    pub fn cv_opt16_fill(o: *mut c_void, tag: u32, v: u16);
    pub fn cv_res816_tag(r: *const c_void) -> u32;
    pub fn cv_res816_ok(r: *const c_void) -> u8;
    pub fn cv_res816_err(r: *const c_void) -> u16;
}

/// what the C side saw of a vector it made (cview.c: cv_vecstat)
#[repr(C)]
#[derive(Default, Debug, Clone, Copy)]
pub struct CvVecStat {
    pub reserves: usize,
    pub drops: usize,
    pub dropped_len: usize,
    pub dropped_cap: usize,
    pub dropped_data: usize,
    pub live_blocks: usize,
}
/// state of a callback built by the C side (cview.c: cv_cb_state)
#[repr(C)]
pub struct CvCbState {
    pub got: [u64; 32],
    pub n: usize,
    pub stop: usize,
    pub calls: usize,
}

/// state of an iterator built by the C side (cview.c: cv_arr_state)
#[repr(C)]
pub struct CvArrState {
    pub items: *const u64,
    pub n: usize,
    pub pos: usize,
    pub end_status: i32,
    pub calls_after_end: usize,
}
