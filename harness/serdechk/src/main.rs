//! Binding of spec/Serde.tla: for every (type, std value) enumerated by TLC, the wrapper built from the std value must
//! serialise to the predicted image, and the wrapper read from the std image must convert back to the std value the
//! predicted image denotes.   serdechk <cases.json>  -> one JSON line {cases, failures:[..]}
use cglue::option::COption;
use cglue::repr_cstring::ReprCString;
use cglue::tuple::CTup2;
use cglue::vec::CVec;
use serde_json::{json, Value};

/// TLA+ node -> JSON
fn dec(v: &Value) -> Value {
    if let Some(n) = v.get("n") {
        return n.clone();
    }
    if v.get("null").is_some() {
        return Value::Null;
    }
    if let Some(l) = v.get("l") {
        return Value::Array(l.as_array().unwrap().iter().map(dec).collect());
    }
    let cs: String = v["s"].as_array().unwrap().iter().map(|c| char::from_u32(c.as_u64().unwrap() as u32).unwrap()).collect();
    Value::String(cs)
}

macro_rules! case {
    ($std:ty, $c:ty, $to_c:expr, $to_std:expr, $img_std:expr, $img_want:expr, $fails:expr, $tag:expr) => {{
        let to_c: fn($std) -> $c = $to_c;
        let to_std: fn($c) -> $std = $to_std;
        let std_val: $std = serde_json::from_value($img_std.clone()).expect("std type reads its own image");
        // wrapper built from the std value: its image
        let c_val: $c = to_c(std_val);
        let got = serde_json::to_value(&c_val).expect("wrapper serialises");
        if got != *$img_want {
            $fails.push(json!({"ty": $tag, "what": "image of the wrapper", "std": $img_std, "got": got, "want": $img_want}));
        }
        // wrapper read from the std image: the value it holds
        match serde_json::from_value::<$c>($img_std.clone()) {
            Err(e) => $fails.push(json!({"ty": $tag, "what": "wrapper does not read the std image", "std": $img_std, "err": e.to_string()})),
            Ok(c2) => {
                let back = serde_json::to_value(&to_std(c2)).unwrap();
                if back != *$img_want {
                    $fails.push(json!({"ty": $tag, "what": "value read back", "std": $img_std, "got": back, "want": $img_want}));
                }
            }
        }
    }};
}

fn s2c(s: String) -> ReprCString {
    ReprCString::from(s)
}
fn c2s(c: ReprCString) -> String {
    let t: &str = c.as_ref();
    t.to_string()
}

fn main() {
    let path = std::env::args().nth(1).expect("cases file");
    let data: Value = serde_json::from_str(&std::fs::read_to_string(path).unwrap()).unwrap();
    let mut fails: Vec<Value> = vec![];
    let mut n = 0;
    for cs in data["cases"].as_array().unwrap() {
        n += 1;
        let (ty, std, img) = (cs["ty"].as_str().unwrap(), dec(&cs["std"]), dec(&cs["img"]));
        match ty {
            "opt_u64" => case!(Option<u64>, COption<u64>, |o| o.into(), |c| c.into(), &std, &img, fails, ty),
            "vec_u64" => case!(Vec<u64>, CVec<u64>, |v| v.into(), |c| c.iter().copied().collect(), &std, &img, fails, ty),
            "tup_u64_u64" => case!((u64, u64), CTup2<u64, u64>, |t| t.into(), |c| c.into(), &std, &img, fails, ty),
            "opt_vec_u64" => case!(Option<Vec<u64>>, COption<CVec<u64>>, |o| o.map(CVec::from).into(), |c| Option::from(c).map(|v: CVec<u64>| v.iter().copied().collect()), &std, &img, fails, ty),
            "vec_opt_u64" => case!(Vec<Option<u64>>, CVec<COption<u64>>, |v| v.into_iter().map(COption::from).collect::<Vec<_>>().into(), |c| c.iter().map(|o| o.as_ref().copied().into()).collect::<Vec<Option<u64>>>(), &std, &img, fails, ty),
            "str" => case!(String, ReprCString, s2c, c2s, &std, &img, fails, ty),
            "vec_str" => case!(Vec<String>, CVec<ReprCString>, |v| v.into_iter().map(s2c).collect::<Vec<_>>().into(), |c| c.iter().map(|s| { let t: &str = s.as_ref(); t.to_string() }).collect(), &std, &img, fails, ty),
            "opt_str" => case!(Option<String>, COption<ReprCString>, |o| o.map(s2c).into(), |c| Option::from(c).map(c2s), &std, &img, fails, ty),
            "tup_opt_vec" => case!((Option<u64>, Vec<u64>), CTup2<COption<u64>, CVec<u64>>, |(a, b)| CTup2(a.into(), b.into()), |c| (c.0.into(), c.1.iter().copied().collect()), &std, &img, fails, ty),
            _ => {
                eprintln!("TOOL-ERROR unknown type {}", ty);
                std::process::exit(2)
            }
        }
    }
    println!("{}", json!({"summary": "serde", "cases": n, "failures": fails.len(), "first_failures": fails.iter().take(10).collect::<Vec<_>>()}));
}
