//! Links the real code generator (cglue-gen) as a library: expands trait and group definitions
//! read from a file into ordinary Rust source, and extracts *layout tables* from expansions
//! (struct -> #[repr], ordered (field, type); `cglue_wrapped_*` fn -> ABI, ordered parameter types,
//! return type) as JSON.
//!
//! usage: gen expand <in.rs> <out.rs>      items: traits carrying #[cglue_trait], and the macros
//!                                          cglue_trait_group!(..); cglue_impl_group!(..);
//!        gen layout <in.rs> <out.json>    same input, prints the layout table of the expansion
use proc_macro2::TokenStream;
use quote::ToTokens;
use serde_json::{json, Value};
use syn::{Item, ItemMacro};

fn expand_file(src: &str) -> (TokenStream, TokenStream) {
    let file: syn::File = syn::parse_str(src).unwrap_or_else(|e| {
        eprintln!("TOOL-ERROR input does not parse: {}", e);
        std::process::exit(2)
    });
    let mut full = TokenStream::new(); // everything, macros expanded
    let mut generated = TokenStream::new(); // only what the generator produced
    for item in file.items {
        match item {
            Item::Trait(mut tr) => {
                let before = tr.attrs.len();
                tr.attrs.retain(|a| !a.path.is_ident("cglue_trait"));
                if tr.attrs.len() != before {
                    let ts = cglue_gen::traits::gen_trait(tr, None);
                    generated.extend(ts.clone());
                    full.extend(ts);
                } else {
                    full.extend(tr.into_token_stream());
                }
            }
            Item::Macro(ItemMacro { mac, .. }) => {
                let name = mac.path.segments.last().unwrap().ident.to_string();
                match name.as_str() {
                    "cglue_trait_group" => {
                        let g: cglue_gen::trait_groups::TraitGroup = syn::parse2(mac.tokens.clone()).expect("group args");
                        let ts = g.create_group();
                        generated.extend(ts.clone());
                        full.extend(ts);
                    }
                    "cglue_impl_group" => {
                        let g: cglue_gen::trait_groups::TraitGroupImpl = syn::parse2(mac.tokens.clone()).expect("impl group args");
                        let ts = g.implement_group();
                        generated.extend(ts.clone());
                        full.extend(ts);
                    }
                    _ => full.extend(mac.into_token_stream()),
                }
            }
            other => full.extend(other.into_token_stream()),
        }
    }
    (full, generated)
}

fn ty_str(t: &syn::Type) -> String {
    t.to_token_stream().to_string().replace(' ', "")
}

fn reprs(attrs: &[syn::Attribute]) -> Vec<String> {
    attrs
        .iter()
        .filter(|a| a.path.is_ident("repr"))
        .map(|a| a.tokens.to_string().replace(' ', ""))
        .collect()
}

fn cfgs(attrs: &[syn::Attribute]) -> Vec<String> {
    attrs.iter().filter(|a| a.path.is_ident("cfg")).map(|a| a.tokens.to_string().replace(' ', "")).collect()
}
fn is_pub(v: &syn::Visibility) -> bool {
    matches!(v, syn::Visibility::Public(_))
}

fn collect(items: &[Item], out: &mut Vec<Value>) {
    for it in items {
        match it {
            Item::Struct(s) => {
                let fields: Vec<Value> = s
                    .fields
                    .iter()
                    .enumerate()
                    .map(|(i, f)| json!([f.ident.as_ref().map(|x| x.to_string()).unwrap_or(i.to_string()), ty_str(&f.ty)]))
                    .collect();
                out.push(json!({"kind":"struct","name":s.ident.to_string(),"repr":reprs(&s.attrs),"fields":fields,"pub":is_pub(&s.vis),"cfg":cfgs(&s.attrs),
                                "generics": s.generics.params.iter().map(|p| p.to_token_stream().to_string().replace(' ', "")).collect::<Vec<_>>()}));
            }
            Item::Enum(en) => {
                out.push(json!({"kind":"enum","name":en.ident.to_string(),"repr":reprs(&en.attrs),"pub":is_pub(&en.vis),"cfg":cfgs(&en.attrs),
                                "variants": en.variants.iter().map(|v| v.ident.to_string()).collect::<Vec<_>>()}));
            }
            Item::Fn(f) => {
                let abi = f.sig.abi.as_ref().map(|a| a.name.as_ref().map(|n| n.value()).unwrap_or_else(|| "C".into()));
                let args: Vec<Value> = f
                    .sig
                    .inputs
                    .iter()
                    .map(|a| match a {
                        syn::FnArg::Typed(p) => json!([p.pat.to_token_stream().to_string(), ty_str(&p.ty)]),
                        syn::FnArg::Receiver(_) => json!(["self", "Self"]),
                    })
                    .collect();
                let ret = match &f.sig.output {
                    syn::ReturnType::Default => "()".to_string(),
                    syn::ReturnType::Type(_, t) => ty_str(t),
                };
                out.push(json!({"kind":"fn","name":f.sig.ident.to_string(),"abi":abi,"unsafe":f.sig.unsafety.is_some(),"args":args,"ret":ret}));
            }
            Item::Mod(m) => {
                if let Some((_, items)) = &m.content {
                    collect(items, out);
                }
            }
            Item::Const(c) => {
                // generated code hides impls in `const _: () = { .. }` blocks
                if let syn::Expr::Block(b) = &*c.expr {
                    let inner: Vec<Item> = b.block.stmts.iter().filter_map(|s| if let syn::Stmt::Item(i) = s { Some(i.clone()) } else { None }).collect();
                    collect(&inner, out);
                }
            }
            Item::Type(t) => {
                out.push(json!({"kind":"type","name":t.ident.to_string(),"ty":ty_str(&t.ty)}));
            }
            _ => {}
        }
    }
}

/// `split`: the input consists of `pub mod dK { .. }` modules (one definition each) plus common
/// items; writes `<out>/dK.rs` (expansion as ordinary source), `<out>/common.rs`, and
/// `<out>/layout.json` = { "dK": layout table of what the generator produced for dK }.
fn split(src: &str, out: &str) {
    let file: syn::File = syn::parse_str(src).expect("input parses");
    std::fs::create_dir_all(out).unwrap();
    let mut common = TokenStream::new();
    let mut layouts = serde_json::Map::new();
    let mut mods = vec![];
    for item in file.items {
        match item {
            Item::Mod(m) if m.content.is_some() => {
                let name = m.ident.to_string();
                let inner: TokenStream = m.content.unwrap().1.into_iter().map(|i| i.into_token_stream()).collect();
                let (full, generated) = expand_file(&inner.to_string());
                std::fs::write(format!("{}/{}.rs", out, name), full.to_string()).unwrap();
                let gfile: syn::File = syn::parse2(generated).expect("expansion parses as a file");
                let mut tbl = vec![];
                collect(&gfile.items, &mut tbl);
                layouts.insert(name.clone(), Value::Array(tbl));
                mods.push(name);
            }
            other => common.extend(other.into_token_stream()),
        }
    }
    std::fs::write(format!("{}/common.rs", out), common.to_string()).unwrap();
    std::fs::write(format!("{}/layout.json", out), serde_json::to_string(&Value::Object(layouts)).unwrap()).unwrap();
    std::fs::write(format!("{}/mods.json", out), serde_json::to_string(&mods).unwrap()).unwrap();
}

fn main() {
    let args: Vec<String> = std::env::args().collect();
    if args.len() < 4 {
        eprintln!("usage: gen expand|layout <in.rs> <out>");
        std::process::exit(2);
    }
    let src = std::fs::read_to_string(&args[2]).expect("read input");
    if args[1] == "scan" {
        // plain source file (no expansion): table of its structs / enums / fns
        let file: syn::File = syn::parse_str(&src).expect("source parses");
        let mut out = vec![];
        collect(&file.items, &mut out);
        std::fs::write(&args[3], serde_json::to_string(&out).unwrap()).unwrap();
        return;
    }
    if args[1] == "split" {
        split(&src, &args[3]);
        return;
    }
    let (full, generated) = expand_file(&src);
    match args[1].as_str() {
        "expand" => std::fs::write(&args[3], full.to_string()).unwrap(),
        "layout" => {
            let file: syn::File = syn::parse2(generated).expect("expansion parses as a file");
            let mut out = vec![];
            collect(&file.items, &mut out);
            std::fs::write(&args[3], serde_json::to_string(&out).unwrap()).unwrap();
        }
        _ => std::process::exit(2),
    }
}
