//! Adapter for spec/CString.tla (ReprCString / ReprCStr).

use cglue::repr_cstring::{ReprCStr, ReprCString};
use std::borrow::Borrow;
use std::collections::hash_map::DefaultHasher;
use std::hash::{Hash, Hasher};
use vkit::{json, ledger, Value};

struct World {
    cs: Vec<Option<ReprCString>>,
    obs: Value,
    base: ledger::Snap,
    notes: Vec<String>,
}

fn bytes_of(v: &Value) -> Vec<u8> {
    v.as_array().unwrap().iter().map(|b| b.as_u64().unwrap() as u8).collect()
}
fn jbytes(b: &[u8]) -> Value {
    Value::Array(b.iter().map(|&x| json!(x)).collect())
}
fn ptr_of(c: &ReprCString) -> *const u8 {
    // #[repr(transparent)] over NonNull<c_char>: the published C view is `char *`
    unsafe { *(c as *const ReprCString as *const *const u8) }
}
fn hash_of<T: Hash>(t: &T) -> u64 {
    let mut h = DefaultHasher::new();
    t.hash(&mut h);
    h.finish()
}

impl World {
    fn new(n: usize) -> Self {
        World {
            cs: (0..n).map(|_| None).collect(),
            obs: json!({"kind":"none","text":[],"flag":false}),
            base: ledger::snap(),
            notes: vec![],
        }
    }

    fn apply(&mut self, e: &Value) {
        let op = e["op"].as_str().unwrap();
        let s = e["s"].as_u64().unwrap_or(1) as usize - 1;
        let none = json!({"kind":"none","text":[],"flag":false});
        match op {
            "From" => {
                let input = bytes_of(&e["input"]);
                let c = match e["how"].as_str().unwrap() {
                    "str" => {
                        let st = std::str::from_utf8(&input).expect("generator emits whole characters");
                        ledger::track(|| ReprCString::from(st))
                    }
                    "string" => {
                        let st = String::from_utf8(input.clone()).expect("generator emits whole characters");
                        ledger::track(|| ReprCString::from(st))
                    }
                    _ => {
                        let sl: &[u8] = &input;
                        ledger::track(|| ReprCString::from(sl))
                    }
                };
                self.cs[s] = Some(c);
                self.obs = none;
            }
            "Clone" => {
                let d = e["d"].as_u64().unwrap() as usize - 1;
                let c = ledger::track(|| self.cs[s].as_ref().unwrap().clone());
                self.cs[d] = Some(c);
                self.obs = none;
            }
            "Drop" => {
                let c = self.cs[s].take().unwrap();
                ledger::track(|| drop(c));
                self.obs = none;
            }
            "Read" => {
                let how = e["how"].as_str().unwrap();
                let c = self.cs[s].as_ref().unwrap();
                let text: Vec<u8> = match how {
                    "as_ref" => AsRef::<str>::as_ref(c).as_bytes().to_vec(),
                    "deref" => (&**c).as_bytes().to_vec(),
                    "display" => format!("{}", c).into_bytes(),
                    _ => {
                        let b: &ReprCStr = c.borrow();
                        b.as_ref().as_bytes().to_vec()
                    }
                };
                self.obs = json!({"kind": how, "text": jbytes(&text), "flag": false});
            }
            "Eq" => {
                let t = e["t"].as_u64().unwrap() as usize - 1;
                let (a, b) = (self.cs[s].as_ref().unwrap(), self.cs[t].as_ref().unwrap());
                let eq = a == b;
                if eq && hash_of(a) != hash_of(b) {
                    self.notes.push("equal strings hash differently".into());
                }
                self.obs = json!({"kind":"eq","text":[],"flag":eq});
            }
            "BorrowCStr" => {
                let input = bytes_of(&e["input"]);
                let c = std::ffi::CString::new(input).unwrap();
                let r = ReprCStr::from(c.as_c_str());
                let text = r.as_ref().as_bytes().to_vec();
                if format!("{}", r).as_bytes() != &text[..] {
                    self.notes.push("ReprCStr Display differs from as_ref".into());
                }
                // a second borrow of the same text: equal, same hash; Debug as the text's Debug
                let c2 = std::ffi::CString::new(text.clone()).unwrap();
                let r2 = ReprCStr::from(c2.as_c_str());
                if !(r == r2) || hash_of(&r) != hash_of(&r2) {
                    self.notes.push("two ReprCStr of the same text are unequal or hash differently".into());
                }
                // a text and a proper extension of it are different strings
                let mut longer = text.clone();
                longer.push(b'a');
                let c3 = std::ffi::CString::new(longer).unwrap();
                let r3 = ReprCStr::from(c3.as_c_str());
                if r == r3 || r3 == r {
                    self.notes.push("a ReprCStr compares equal to a proper extension of its text".into());
                }
                self.obs = json!({"kind":"cstr","text":jbytes(&text),"flag":false});
            }
            _ => {
                eprintln!("TOOL-ERROR unknown op {}", op);
                std::process::exit(2);
            }
        }
    }

    fn proj(&self) -> Value {
        let text: Vec<Value> = self
            .cs
            .iter()
            .map(|c| match c {
                None => json!([]),
                Some(c) => jbytes(AsRef::<str>::as_ref(c).as_bytes()),
            })
            .collect();
        // size of the heap block the string points at, as the allocator recorded it
        let asize: Vec<usize> = self
            .cs
            .iter()
            .map(|c| match c {
                None => 0,
                Some(c) => ledger::lookup(ptr_of(c)).map(|(sz, _, freed, _)| if freed { 0 } else { sz }).unwrap_or(0),
            })
            .collect();
        let live: Vec<bool> = self.cs.iter().map(|c| c.is_some()).collect();
        json!({"text": text, "asize": asize, "live": live,
               "nalloc": ledger::live() as i64 - self.base.live as i64, "obs": self.obs})
    }

    fn check(&self) -> Option<String> {
        if !self.notes.is_empty() {
            return Some(self.notes.join("; "));
        }
        let s = ledger::snap();
        if s.anomalies != self.base.anomalies {
            return Some(format!("allocator anomalies: {:?}", ledger::anomalies_since(self.base.anomalies)));
        }
        None
    }

    fn teardown(mut self) -> Option<String> {
        for c in self.cs.iter_mut() {
            if let Some(c) = c.take() {
                ledger::track(|| drop(c));
            }
        }
        if let Some(m) = self.check() {
            return Some(m);
        }
        let s = ledger::snap();
        if s.live != self.base.live {
            return Some(format!("leak: {} blocks still allocated after every string was dropped", s.live - self.base.live));
        }
        None
    }
}

fn replay(lines: &[String], nslots: usize) -> (usize, Vec<Value>) {
    let mut failures = vec![];
    let mut steps = 0;
    for (bi, line) in lines.iter().enumerate() {
        vkit::mark(bi);
        let beh: Value = serde_json::from_str(line).expect("behaviour json");
        let mut w = World::new(nslots);
        let mut failed = None;
        for (si, st) in beh.as_array().unwrap().iter().enumerate() {
            steps += 1;
            w.apply(&st["a"]);
            let got = w.proj();
            if got != st["exp"] {
                failed = Some((si, format!("projection differs: got {} expected {}", got, st["exp"])));
                break;
            }
            if let Some(m) = w.check() {
                failed = Some((si, m));
                break;
            }
        }
        let td = w.teardown();
        if failed.is_none() {
            if let Some(m) = td {
                failed = Some((beh.as_array().unwrap().len(), m));
            }
        }
        if let Some((si, msg)) = failed {
            failures.push(json!({"behaviour": bi, "step": si, "msg": msg, "beh": beh}));
            if failures.len() >= 20 {
                break;
            }
        }
    }
    (steps, failures)
}

fn trace(out: &str, seed: u64, events: usize, nslots: usize) {
    let mut log = vkit::NdJson::create(out);
    let mut rng = vkit::rng::Rng::new(seed);
    let alphabet: [&[u8]; 6] = [&[0], &[97], &[195, 169], &[226, 130, 172], &[240, 144, 141, 136], &[98]];
    let mut emitted = 0;
    while emitted < events {
        let mut w = World::new(nslots);
        log.emit(&json!({"op":"reset"}));
        emitted += 1;
        for _ in 0..(10 + rng.below(40)) {
            let live: Vec<usize> = (0..nslots).filter(|&i| w.cs[i].is_some()).collect();
            let dead: Vec<usize> = (0..nslots).filter(|&i| w.cs[i].is_none()).collect();
            let mut input: Vec<u8> = vec![];
            for _ in 0..rng.below(7) {
                let a = if rng.chance(1, 6) { alphabet[0] } else { *rng.pick(&alphabet[1..]) };
                input.extend_from_slice(a);
            }
            let mut cand = vec![];
            if let Some(&d) = dead.first() {
                cand.push(json!({"op":"From","s":d+1,"how":*rng.pick(&["str","string","bytes"]),"input":jbytes(&input)}));
                if let Some(&s) = live.first() {
                    cand.push(json!({"op":"Clone","s":s+1,"d":d+1}));
                }
            }
            if !live.is_empty() {
                let s = *rng.pick(&live);
                let t = *rng.pick(&live);
                cand.push(json!({"op":"Read","s":s+1,"how":*rng.pick(&["as_ref","deref","display","borrow"])}));
                cand.push(json!({"op":"Eq","s":s+1,"t":t+1}));
                cand.push(json!({"op":"Drop","s":s+1}));
            }
            if !input.contains(&0) {
                cand.push(json!({"op":"BorrowCStr","input":jbytes(&input)}));
            }
            let e = rng.pick(&cand).clone();
            w.apply(&e);
            let mut ev = e.clone();
            let o = ev.as_object_mut().unwrap();
            o.insert("proj".into(), w.proj());
            o.insert("ok".into(), json!(w.check().is_none()));
            log.emit(&ev);
            emitted += 1;
        }
        for s in 0..nslots {
            if w.cs[s].is_some() {
                let e = json!({"op":"Drop","s":s+1});
                w.apply(&e);
                let mut ev = e.clone();
                ev.as_object_mut().unwrap().insert("proj".into(), w.proj());
                ev.as_object_mut().unwrap().insert("ok".into(), json!(w.check().is_none()));
                log.emit(&ev);
                emitted += 1;
            }
        }
        let td = w.teardown();
        log.emit(&json!({"op":"quiescent","ok": td.is_none(), "msg": td.unwrap_or_default()}));
        emitted += 1;
    }
    log.flush();
    println!("{}", json!({"summary":"trace","events":emitted}));
}

pub fn main(args: &[String]) {
    let mode = args[0].as_str();
    let path = args.get(1).cloned().unwrap_or_default();
    let geti = |f: &str, d: usize| vkit::arg_after(args, f).map(|s| s.parse().unwrap()).unwrap_or(d);
    let nslots = geti("--slots", 2);
    match mode {
        "replay" => {
            let lines = vkit::read_lines(&path);
            let (steps, failures) = replay(&lines, nslots);
            vkit::summary("cstr-replay", lines.len(), steps, &failures, json!({}));
        }
        "trace" => trace(&path, geti("--seed", 1) as u64, geti("--events", 1000), nslots),
        _ => {
            eprintln!("TOOL-ERROR mode");
            std::process::exit(2)
        }
    }
}
