//! Adapter for spec/CArc.tla.  The body (arc_body.rs) is compiled twice: over an ordinary payload and over an
//! over-aligned one (`#[repr(align(64))]`: the reference counts of an `Arc<T>` sit `max(16, align_of::<T>())` bytes in
//! front of the value, so code that reaches them through a type-erased pointer is right for one and wrong for the other).
pub mod plain {
    mod pdef {
        pub struct P {
            pub alloc: usize,
            pub magic: u32,
        }
    }
    include!("arc_body.rs");
}
pub mod over {
    mod pdef {
        #[repr(align(64))]
        pub struct P {
            pub alloc: usize,
            pub magic: u32,
        }
    }
    include!("arc_body.rs");
}
