//! Adapter for spec/CArc.tla.  The body (arc_body.rs) is compiled twice: over an ordinary payload and over an
//! over-aligned one (`#[repr(align(64))]`: the reference counts of an `Arc<T>` sit `max(16, align_of::<T>())` bytes in
//! front of the value, so code that reaches them through a type-erased pointer is right for one and wrong for the other).
pub mod plain {
    mod pdef {
        pub const HAS_DROP: bool = true;
        pub struct P {
            pub alloc: usize,
            pub magic: u32,
        }
        impl Drop for P {
            fn drop(&mut self) {
                super::payload_dropped(self.alloc, self.magic);
                self.magic = 0xDEAD;
            }
        }
    }
    include!("arc_body.rs");
}
pub mod over {
    mod pdef {
        pub const HAS_DROP: bool = true;
        #[repr(align(64))]
        pub struct P {
            pub alloc: usize,
            pub magic: u32,
        }
        impl Drop for P {
            fn drop(&mut self) {
                super::payload_dropped(self.alloc, self.magic);
                self.magic = 0xDEAD;
            }
        }
    }
    include!("arc_body.rs");
}
/// A payload WITHOUT drop glue (plain data): releasing the last reference still has to free the allocation and give the
/// count back, although there is no destructor to run.  Destructor counts cannot be observed here; behaviours that create
/// an allocation from a value (not retained by the environment, so only destructor counts could speak) are skipped.
pub mod nodrop {
    mod pdef {
        pub const HAS_DROP: bool = false;
        pub struct P {
            pub alloc: usize,
            pub magic: u32,
        }
    }
    include!("arc_body.rs");
}
