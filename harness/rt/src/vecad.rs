//! Adapter for spec/CVec.tla.

use cglue::vec::CVec;
use std::sync::atomic::{AtomicUsize, Ordering::SeqCst};
use vkit::payload::{self, Heavy, Zst};
use vkit::{json, ledger, Value};

/// The published C layout of CVec (what a C caller sees); used to interpose the stored functions.
#[repr(C)]
struct RawCVec<T> {
    data: *mut T,
    len: usize,
    cap: usize,
    drop_fn: Option<unsafe extern "C" fn(*mut T, usize, usize)>,
    reserve_fn: extern "C" fn(&mut RawCVec<T>, usize) -> usize,
}

// per handle slot: a vector created in another module carries that module's functions
const ZERO: AtomicUsize = AtomicUsize::new(0);
static ORIG_RESERVE: [AtomicUsize; 4] = [ZERO; 4];
static ORIG_DROP: [AtomicUsize; 4] = [ZERO; 4];
static RESERVE_CALLS: AtomicUsize = AtomicUsize::new(0);
static DROP_CALLS: AtomicUsize = AtomicUsize::new(0);
static DROP_CAP_MISMATCH: AtomicUsize = AtomicUsize::new(0);
static EXPECT_DROP_CAP: AtomicUsize = AtomicUsize::new(usize::MAX);

extern "C" fn reserve_tramp<T, const S: usize>(v: &mut RawCVec<T>, n: usize) -> usize {
    RESERVE_CALLS.fetch_add(1, SeqCst);
    let f: extern "C" fn(&mut RawCVec<T>, usize) -> usize =
        unsafe { std::mem::transmute(ORIG_RESERVE[S].load(SeqCst)) };
    f(v, n)
}

unsafe extern "C" fn drop_tramp<T, const S: usize>(data: *mut T, len: usize, cap: usize) {
    DROP_CALLS.fetch_add(1, SeqCst);
    let e = EXPECT_DROP_CAP.load(SeqCst);
    if e != usize::MAX && e != cap {
        DROP_CAP_MISMATCH.fetch_add(1, SeqCst);
    }
    let f: unsafe extern "C" fn(*mut T, usize, usize) = std::mem::transmute(ORIG_DROP[S].load(SeqCst));
    f(data, len, cap)
}

/// Replace the two stored functions of a freshly created vector by counting trampolines.
fn interpose<T>(v: &mut CVec<T>, slot: usize) {
    assert_eq!(
        std::mem::size_of::<CVec<T>>(),
        std::mem::size_of::<RawCVec<T>>()
    );
    let raw: &mut RawCVec<T> = unsafe { &mut *(v as *mut CVec<T> as *mut RawCVec<T>) };
    ORIG_RESERVE[slot].store(raw.reserve_fn as usize, SeqCst);
    raw.reserve_fn = match slot {
        0 => reserve_tramp::<T, 0>,
        1 => reserve_tramp::<T, 1>,
        2 => reserve_tramp::<T, 2>,
        _ => reserve_tramp::<T, 3>,
    };
    if let Some(d) = raw.drop_fn {
        ORIG_DROP[slot].store(d as usize, SeqCst);
        raw.drop_fn = Some(match slot {
            0 => drop_tramp::<T, 0>,
            1 => drop_tramp::<T, 1>,
            2 => drop_tramp::<T, 2>,
            _ => drop_tramp::<T, 3>,
        });
    }
}

/// C05: when set, vectors are created by the plugin (`xp_vec_u64`), so the buffer belongs to the
/// plugin's allocator and every growth / free must go through the functions stored in the vector.
pub static PLUGIN_VEC: std::sync::Mutex<Option<(libloading::Library, usize)>> = std::sync::Mutex::new(None);
fn plugin_vec_u64(n: usize, cap: usize, first: u64) -> Option<CVec<u64>> {
    let g = PLUGIN_VEC.lock().unwrap();
    g.as_ref().map(|(_, f)| {
        let f: unsafe extern "C" fn(usize, usize, u64) -> CVec<u64> = unsafe { std::mem::transmute(*f) };
        unsafe { f(n, cap, first) }
    })
}
fn plugin_stats() -> Option<(usize, usize)> {
    let g = PLUGIN_VEC.lock().unwrap();
    g.as_ref().map(|(lib, _)| unsafe {
        let live: libloading::Symbol<unsafe extern "C" fn() -> usize> = lib.get(b"xp_ledger_live").unwrap();
        let an: libloading::Symbol<unsafe extern "C" fn() -> usize> = lib.get(b"xp_ledger_anoms").unwrap();
        (live(), an())
    })
}

pub trait Elem: Sized + Clone {
    const KIND: &'static str;
    fn make(id: usize) -> Self;
    /// (identity if recoverable, value if recoverable)
    fn view(&self) -> (Option<usize>, Option<i64>);
}

impl Elem for Heavy {
    const KIND: &'static str = "heavy";
    fn make(id: usize) -> Self {
        Heavy::new(id, id as i64)
    }
    fn view(&self) -> (Option<usize>, Option<i64>) {
        self.check();
        (Some(self.id as usize), Some(self.val))
    }
}
impl Elem for u64 {
    const KIND: &'static str = "u64";
    fn make(id: usize) -> Self {
        payload::note_created(id);
        0xABCD_0000_0000_0000 + id as u64
    }
    fn view(&self) -> (Option<usize>, Option<i64>) {
        (None, Some((*self - 0xABCD_0000_0000_0000) as i64))
    }
}
impl Elem for u8 {
    const KIND: &'static str = "u8";
    fn make(id: usize) -> Self {
        payload::note_created(id);
        id as u8
    }
    fn view(&self) -> (Option<usize>, Option<i64>) {
        (None, Some(*self as i64))
    }
}
impl Elem for Zst {
    const KIND: &'static str = "zst";
    fn make(id: usize) -> Self {
        payload::note_created(id);
        Zst::new()
    }
    fn view(&self) -> (Option<usize>, Option<i64>) {
        (None, None)
    }
}

static PLUGIN_BASE: std::sync::Mutex<(usize, usize)> = std::sync::Mutex::new((0, 0));

struct World<T: Elem> {
    vecs: Vec<Option<CVec<T>>>,
    last: Value,
    notes: Vec<String>,
}

fn elem_json<T: Elem>(e: &T) -> Value {
    let (id, val) = e.view();
    json!([id.map(|x| x as i64).unwrap_or(-1), val.unwrap_or(-1)])
}

impl<T: Elem> World<T> {
    fn new(slots: usize) -> Self {
        if let Some(st) = plugin_stats() {
            *PLUGIN_BASE.lock().unwrap() = st;
        }
        payload::reset_ids();
        Zst::reset();
        World {
            vecs: (0..slots).map(|_| None).collect(),
            last: json!({"kind":"init","id":0}),
            notes: vec![],
        }
    }

    fn cap_of(&self, v: usize) -> usize {
        self.vecs[v].as_ref().map(|x| x.capacity()).unwrap_or(0)
    }

    /// Execute one action record. Returns extra fields for the trace log (`grew`, `cap`).
    fn apply(&mut self, a: &Value) -> Value {
        let op = a["op"].as_str().unwrap();
        let v = a["v"].as_u64().unwrap() as usize - 1;
        let k = a["k"].as_u64().unwrap_or(0) as usize;
        let n = a["n"].as_u64().unwrap_or(0) as usize;
        let r0 = RESERVE_CALLS.load(SeqCst);
        let d0 = DROP_CALLS.load(SeqCst);
        let (len0, cap0) = self.vecs[v]
            .as_ref()
            .map(|x| (x.len(), x.capacity()))
            .unwrap_or((0, 0));
        let mut need = 0usize; // additional capacity the op asks for
        let ok = json!({"kind":"ok","id":0});
        match op {
            "FromVec" => {
                let cap = a["cap"].as_u64().unwrap() as usize;
                let id0 = payload::next_id();
                let foreign: Option<CVec<T>> = if T::KIND == "u64" {
                    plugin_vec_u64(n, cap, 0xABCD_0000_0000_0000 + id0 as u64).map(|v| {
                        for i in 0..n {
                            payload::note_created(id0 + i);
                        }
                        // same type: T is u64 here
                        unsafe { std::mem::transmute_copy::<CVec<u64>, CVec<T>>(&std::mem::ManuallyDrop::new(v)) }
                    })
                } else {
                    None
                };
                let cv = match foreign {
                    Some(mut cv) => {
                        interpose(&mut cv, v);
                        cv
                    }
                    // CVec::default() is the empty vector without a buffer
                    None if n == 0 && cap == 0 && (v + payload::next_id()) % 2 == 0 => ledger::track(|| {
                        let mut cv = CVec::<T>::default();
                        ledger::untracked(|| interpose(&mut cv, v));
                        cv
                    }),
                    None => ledger::track(|| {
                        let mut std_vec: Vec<T> = Vec::with_capacity(cap);
                        for i in 0..n {
                            std_vec.push(T::make(id0 + i));
                        }
                        let mut cv = CVec::from(std_vec);
                        ledger::untracked(|| interpose(&mut cv, v));
                        cv
                    }),
                };
                if cv.capacity() < cv.len() {
                    self.notes.push("capacity < len after From<Vec>".into());
                }
                self.vecs[v] = Some(cv);
                self.last = ok;
            }
            "Push" => {
                need = 1;
                let id = payload::next_id();
                let cv = self.vecs[v].as_mut().unwrap();
                ledger::track(|| cv.push(T::make(id)));
                self.last = ok;
            }
            "Pop" => {
                let cv = self.vecs[v].as_mut().unwrap();
                let r = ledger::track(|| cv.pop());
                self.last = match r {
                    None => json!({"kind":"none","id":0}),
                    Some(e) => {
                        let j = elem_json(&e);
                        ledger::track(|| drop(e));
                        json!({"kind":"ret","id":j[0], "val": j[1]})
                    }
                };
            }
            "Insert" | "InsertOOB" => {
                need = if op == "Insert" { 1 } else { 0 };
                let id = payload::next_id();
                let cv = self.vecs[v].as_mut().unwrap();
                let r = vkit::catch(|| ledger::track(|| cv.insert(k, T::make(id))));
                self.last = match r {
                    Ok(()) => ok,
                    Err(_) => json!({"kind":"panic","id":0}),
                };
            }
            "Remove" | "RemoveOOB" => {
                let cv = self.vecs[v].as_mut().unwrap();
                let r = vkit::catch(|| ledger::track(|| cv.remove(k)));
                self.last = match r {
                    Ok(e) => {
                        let j = elem_json(&e);
                        ledger::track(|| drop(e));
                        json!({"kind":"ret","id":j[0], "val": j[1]})
                    }
                    Err(_) => json!({"kind":"panic","id":0}),
                };
            }
            "Reserve" => {
                need = n;
                let cv = self.vecs[v].as_mut().unwrap();
                ledger::track(|| cv.reserve(n));
                self.last = ok;
            }
            "Clone" => {
                let w = a["w"].as_u64().unwrap() as usize - 1;
                let src = self.vecs[v].as_ref().unwrap();
                let n_src = src.len();
                let mut c = ledger::track(|| src.clone());
                if T::KIND != "heavy" {
                    // identities of clones are not observable for plain data: keep the id
                    // counter in step with the model
                    payload::set_next_id(payload::next_id() + n_src);
                }
                interpose(&mut c, w);
                self.vecs[w] = Some(c);
                self.last = ok;
            }
            "WriteAt" => {
                let id = payload::next_id();
                let cv = self.vecs[v].as_mut().unwrap();
                ledger::track(|| cv[k] = T::make(id));
                self.last = ok;
            }
            "Drop" => {
                let mut cv = self.vecs[v].take().unwrap();
                EXPECT_DROP_CAP.store(cv.capacity(), SeqCst);
                if C_RELEASE.load(SeqCst) {
                    // C16: a foreign caller releases the vector through the published layout
                    // (`v.drop_fn(v.data, v.len, v.capacity)`): same effect as the Rust destructor
                    ledger::track(|| unsafe { cview::cv_vec_release(&mut cv as *mut CVec<T> as *mut std::ffi::c_void) });
                }
                ledger::track(|| drop(cv));
                EXPECT_DROP_CAP.store(usize::MAX, SeqCst);
                if DROP_CALLS.load(SeqCst) - d0 != 1 {
                    self.notes
                        .push("drop did not go through the stored drop_fn exactly once".into());
                }
                self.last = ok;
            }
            _ => {
                eprintln!("TOOL-ERROR unknown op {}", op);
                std::process::exit(2);
            }
        }
        // property-level local checks (C11: growth only through the stored function, when needed)
        let grew = RESERVE_CALLS.load(SeqCst) - r0;
        if matches!(op, "Push" | "Insert" | "Reserve") {
            let must = cap0 - len0 < need;
            let cap1 = self.cap_of(v);
            if (must || cap1 != cap0) && grew == 0 {
                self.notes.push(format!(
                    "{}: buffer grown (len {} cap {} -> {}, need {}) without the stored reserve_fn",
                    op, len0, cap0, cap1, need
                ));
            }
            if cap1 < len0 + need {
                self.notes.push(format!(
                    "{}: capacity {} < {} after the call",
                    op,
                    cap1,
                    len0 + need
                ));
            }
        } else if grew > 0 {
            self.notes.push(format!("{}: unexpected reserve_fn call", op));
        }
        if op != "Drop" && DROP_CALLS.load(SeqCst) != d0 {
            self.notes.push(format!("{}: unexpected drop_fn call", op));
        }
        for s in self.vecs.iter().flatten() {
            if s.capacity() < s.len() {
                self.notes.push("capacity < len".into());
            }
        }
        json!({"grew": grew > 0, "cap": self.cap_of(v).min(1 << 30)})
    }

    /// Projection in the exact shape of CVec!Proj (for Heavy elements).
    fn proj(&self) -> Value {
        let vecs: Vec<Value> = self
            .vecs
            .iter()
            .map(|s| match s {
                None => json!([]),
                Some(cv) => Value::Array(cv.iter().map(elem_json).collect()),
            })
            .collect();
        let live: Vec<bool> = self.vecs.iter().map(|s| s.is_some()).collect();
        let drops: Vec<u32> = (1..payload::next_id()).map(payload::drops).collect();
        let mut last = self.last.clone();
        if let Some(o) = last.as_object_mut() {
            o.remove("val");
        }
        json!({"vecs": vecs, "live": live, "drops": drops, "last": last})
    }

    /// Compare with the spec's expectation, at the precision the element type allows.
    fn compare(&self, exp: &Value) -> Option<String> {
        let got = self.proj();
        match T::KIND {
            "heavy" => {
                if &got != exp {
                    return Some(format!("projection differs: got {} expected {}", got, exp));
                }
            }
            _ => {
                if got["live"] != exp["live"] {
                    return Some(format!("live differs: got {} expected {}", got["live"], exp["live"]));
                }
                if got["last"]["kind"] != exp["last"]["kind"] {
                    return Some(format!("outcome differs: got {} expected {}", got["last"], exp["last"]));
                }
                let ge = got["vecs"].as_array().unwrap();
                let ee = exp["vecs"].as_array().unwrap();
                for (g, e) in ge.iter().zip(ee.iter()) {
                    let g = g.as_array().unwrap();
                    let e = e.as_array().unwrap();
                    if g.len() != e.len() {
                        return Some(format!("length differs: got {} expected {}", g.len(), e.len()));
                    }
                    if T::KIND != "zst" {
                        for (x, y) in g.iter().zip(e.iter()) {
                            if x[1] != y[1] {
                                return Some(format!("element value differs: got {} expected {}", x, y));
                            }
                        }
                    }
                }
                if T::KIND != "zst" && exp["last"]["kind"] == "ret" {
                    // returned element must carry the value of the element the spec says left
                    // (for fresh elements val = id; clones are told apart only by Heavy)
                }
                if T::KIND == "zst" {
                    let want: u64 = exp["drops"].as_array().unwrap().iter().map(|d| d.as_u64().unwrap()).sum();
                    if Zst::dropped() as u64 != want {
                        return Some(format!("zst drops: got {} expected {}", Zst::dropped(), want));
                    }
                }
            }
        }
        if !self.notes.is_empty() {
            return Some(format!("local check failed: {}", self.notes.join("; ")));
        }
        if payload::use_after_drop() > 0 {
            return Some("use after drop observed".into());
        }
        None
    }

    /// Drop everything and check the quiescent-state clauses.
    fn teardown(mut self, base: ledger::Snap) -> Option<String> {
        let d0 = DROP_CALLS.load(SeqCst);
        let mut nlive = 0;
        for s in self.vecs.iter_mut() {
            if let Some(cv) = s.take() {
                nlive += 1;
                ledger::track(|| drop(cv));
            }
        }
        if DROP_CALLS.load(SeqCst) - d0 != nlive {
            return Some("teardown: drop_fn call count mismatch".into());
        }
        let s = ledger::snap();
        if s.live != base.live {
            return Some(format!(
                "leak: {} tracked allocations still live at quiescence (base {})",
                s.live, base.live
            ));
        }
        if s.anomalies != base.anomalies {
            return Some(format!(
                "allocator anomalies: {:?}",
                ledger::anomalies_since(base.anomalies)
            ));
        }
        if DROP_CAP_MISMATCH.load(SeqCst) > 0 {
            return Some("buffer freed with a capacity different from the recorded one".into());
        }
        if let Some((live, an)) = plugin_stats() {
            let (l0, a0) = *PLUGIN_BASE.lock().unwrap();
            if an != a0 {
                return Some("the plugin's allocator was handed memory it did not allocate (or a wrong layout)".into());
            }
            if live != l0 {
                return Some(format!("plugin-side leak: {} blocks of plugin memory not released", live as i64 - l0 as i64));
            }
        }
        match T::KIND {
            "heavy" => {
                for (id, d) in payload::drop_table() {
                    if d != 1 {
                        return Some(format!("element {} dropped {} times at quiescence", id, d));
                    }
                }
            }
            "zst" => {
                if Zst::made() != Zst::dropped() {
                    return Some(format!(
                        "zst: made {} dropped {}",
                        Zst::made(),
                        Zst::dropped()
                    ));
                }
            }
            _ => {}
        }
        if payload::use_after_drop() > 0 {
            return Some("use after drop observed".into());
        }
        None
    }
}

fn replay<T: Elem>(lines: &[String], slots: usize) -> (usize, Vec<Value>) {
    let mut failures = vec![];
    let mut steps = 0;
    for (bi, line) in lines.iter().enumerate() {
        vkit::mark(bi);
        let beh: Value = serde_json::from_str(line).expect("behaviour json");
        let base = ledger::snap();
        crate::xmodad::AllocTrace::begin();
        let mut w = World::<T>::new(slots);
        let mut failed = None;
        for (si, st) in beh.as_array().unwrap().iter().enumerate() {
            w.apply(&st["a"]);
            steps += 1;
            if let Some(msg) = w.compare(&st["exp"]) {
                failed = Some((si, msg));
                break;
            }
        }
        if failed.is_none() {
            if let Some(msg) = w.teardown(base) {
                failed = Some((beh.as_array().unwrap().len(), msg));
            }
        }
        crate::xmodad::AllocTrace::end(failed.is_none());
        if let Some((si, msg)) = failed {
            failures.push(json!({"behaviour": bi, "step": si, "msg": msg, "elem": T::KIND, "beh": beh}));
            if failures.len() >= 20 {
                break;
            }
        }
    }
    (steps, failures)
}

fn trace<T: Elem>(out: &str, seed: u64, events: usize, slots: usize) {
    let mut log = vkit::NdJson::create(out);
    let mut rng = vkit::rng::Rng::new(seed);
    let max_id = 90usize;
    let mut emitted = 0usize;
    while emitted < events {
        let base = ledger::snap();
        let mut w = World::<T>::new(slots);
        log.emit(&json!({"op":"reset"}));
        emitted += 1;
        let run = 20 + rng.below(60);
        for _ in 0..run {
            if payload::next_id() + 8 >= max_id {
                break;
            }
            // choose an enabled action
            let live: Vec<usize> = (0..slots).filter(|&i| w.vecs[i].is_some()).collect();
            let dead: Vec<usize> = (0..slots).filter(|&i| w.vecs[i].is_none()).collect();
            let a = if live.is_empty() || (!dead.is_empty() && rng.chance(1, 8)) {
                let n = rng.below(4);
                let spare = *rng.pick(&[0usize, 0, 1, 5]);
                json!({"op":"FromVec","v":dead[rng.below(dead.len())]+1,"n":n,"cap":n+spare})
            } else {
                let v = *rng.pick(&live);
                let len = w.vecs[v].as_ref().unwrap().len();
                match rng.below(14) {
                    0 | 1 | 2 => json!({"op":"Push","v":v+1}),
                    3 => json!({"op":"Pop","v":v+1}),
                    4 | 5 if len < 7 => json!({"op":"Insert","v":v+1,"k":rng.below(len+1)}),
                    6 => json!({"op":"InsertOOB","v":v+1,"k":len+1+rng.below(3)}),
                    7 if len > 0 => json!({"op":"Remove","v":v+1,"k":rng.below(len)}),
                    8 => json!({"op":"RemoveOOB","v":v+1,"k":len+rng.below(3)}),
                    9 => json!({"op":"Reserve","v":v+1,"n":rng.below(6)}),
                    10 if !dead.is_empty() && len <= 4 => json!({"op":"Clone","v":v+1,"w":dead[0]+1}),
                    11 if len > 0 => json!({"op":"WriteAt","v":v+1,"k":rng.below(len)}),
                    12 if rng.chance(1, 3) => json!({"op":"Drop","v":v+1}),
                    _ => json!({"op":"Pop","v":v+1}),
                }
            };
            let extra = w.apply(&a);
            let mut ev = a.clone();
            let o = ev.as_object_mut().unwrap();
            // bind every spec parameter from what was observed
            if matches!(a["op"].as_str().unwrap(), "Push" | "Insert" | "Reserve") {
                o.insert("cap".into(), extra["cap"].clone());
                o.insert("grew".into(), extra["grew"].clone());
            } else if a["op"] == "Clone" {
                let wi = a["w"].as_u64().unwrap() as usize - 1;
                o.insert("cap".into(), json!(w.cap_of(wi).min(1 << 30)));
            } else if a["op"] == "FromVec" {
                let vi = a["v"].as_u64().unwrap() as usize - 1;
                o.insert("cap".into(), json!(w.cap_of(vi).min(1 << 30)));
            }
            o.insert("proj".into(), w.proj());
            o.insert("notes".into(), json!(w.notes.len()));
            log.emit(&ev);
            emitted += 1;
        }
        // drop the rest explicitly so that the quiescent clauses are part of the trace
        for v in 0..slots {
            if w.vecs[v].is_some() {
                let a = json!({"op":"Drop","v":v+1});
                w.apply(&a);
                let mut ev = a.clone();
                ev.as_object_mut().unwrap().insert("proj".into(), w.proj());
                log.emit(&ev);
                emitted += 1;
            }
        }
        let notes = w.notes.clone();
        let td = w.teardown(base);
        log.emit(&json!({"op":"quiescent","ok": td.is_none() && notes.is_empty(),
                         "msg": td.unwrap_or_default(), "notes": notes}));
        emitted += 1;
    }
    log.flush();
    println!("{}", json!({"summary":"trace","events":emitted,"elem":T::KIND}));
}

/// C16: release vectors from C through the published layout
pub static C_RELEASE: std::sync::atomic::AtomicBool = std::sync::atomic::AtomicBool::new(false);

pub fn main(args: &[String]) {
    if args.iter().any(|a| a == "--c-release") {
        C_RELEASE.store(true, SeqCst);
    }
    if let Some(p) = vkit::arg_after(args, "--plugin") {
        unsafe {
            let lib = libloading::Library::new(&p).unwrap_or_else(|e| {
                eprintln!("TOOL-ERROR cannot load plugin: {}", e);
                std::process::exit(2)
            });
            let info: libloading::Symbol<unsafe extern "C" fn() -> *const std::os::raw::c_char> = lib.get(b"xp_build_info").unwrap();
            let _ = info();
            let sym: libloading::Symbol<unsafe extern "C" fn(usize, usize, u64) -> CVec<u64>> = lib.get(b"xp_vec_u64").unwrap();
            let addr = *sym as usize;
            *PLUGIN_VEC.lock().unwrap() = Some((lib, addr));
        }
    }
    crate::xmodad::AllocTrace::start_from_args(args);
    let mode = args[0].as_str();
    let path = args.get(1).cloned().unwrap_or_default();
    let elem = vkit::arg_after(args, "--elem").unwrap_or_else(|| "heavy".into());
    let slots: usize = vkit::arg_after(args, "--slots").map(|s| s.parse().unwrap()).unwrap_or(2);
    match mode {
        "replay" => {
            let lines = vkit::read_lines(&path);
            let (steps, failures) = match elem.as_str() {
                "heavy" => replay::<Heavy>(&lines, slots),
                "u64" => replay::<u64>(&lines, slots),
                "u8" => replay::<u8>(&lines, slots),
                "zst" => replay::<Zst>(&lines, slots),
                _ => {
                    eprintln!("TOOL-ERROR elem");
                    std::process::exit(2)
                }
            };
            if let Some(f) = vkit::arg_after(args, "--fail-out") {
                if let Some(first) = failures.first() {
                    std::fs::write(&f, serde_json::to_string(first).unwrap()).unwrap();
                }
            }
            let at = crate::xmodad::AllocTrace::finish();
            vkit::summary("vec-replay", lines.len(), steps, &failures, json!({"elem": elem, "alloc_trace_events": at}));
        }
        "trace" => {
            let seed: u64 = vkit::arg_after(args, "--seed").map(|s| s.parse().unwrap()).unwrap_or(1);
            let events: usize = vkit::arg_after(args, "--events").map(|s| s.parse().unwrap()).unwrap_or(1000);
            trace::<Heavy>(&path, seed, events, slots);
        }
        _ => {
            eprintln!("TOOL-ERROR mode");
            std::process::exit(2)
        }
    }
}
