// Adapter for spec/CArc.tla: handle pool over real CArc / CArcSome values, operations executed on
// the OS thread the specification names, stored clone/drop functions interposed through the
// published C layout {instance, clone_fn, drop_fn}.

use cglue::arc::{CArc, CArcSome};
use cglue::trait_group::{c_void, Opaquable};
use std::sync::atomic::{AtomicUsize, Ordering::SeqCst};
use std::sync::mpsc::{channel, Receiver, Sender};
use std::sync::{Arc, Mutex};
use vkit::{json, ledger, Value};

const MAXA: usize = 8;
const Z: AtomicUsize = AtomicUsize::new(0);
static VDROPS: [AtomicUsize; MAXA] = [Z; MAXA];
static CLONE_CALLS: [AtomicUsize; MAXA] = [Z; MAXA];
static DROP_CALLS: [AtomicUsize; MAXA] = [Z; MAXA];
static ADDR: [AtomicUsize; MAXA] = [Z; MAXA];
static ORIG_CLONE: AtomicUsize = AtomicUsize::new(0);
static ORIG_DROP: AtomicUsize = AtomicUsize::new(0);
static BAD: AtomicUsize = AtomicUsize::new(0);
/// C16: when set, Clone and Drop are performed by the C driver through the published layout
pub static C_MODE: AtomicUsize = AtomicUsize::new(0);

unsafe fn c_clone_of<T>(h: &T) -> T {
    let r = cview::cv_arc_clone(h as *const T as *const std::ffi::c_void);
    std::mem::transmute_copy::<cview::RawArc, T>(&r)
}
unsafe fn c_release<T>(mut h: T) {
    cview::cv_arc_release(&mut h as *mut T as *mut std::ffi::c_void);
    std::mem::forget(h); // the C side has released it and cleared the fields
}

use self::pdef::P;
use self::pdef::HAS_DROP;
/// called by the payload's destructor (the payload types that have one: see arcad.rs)
pub(crate) fn payload_dropped(alloc: usize, magic: u32) {
    if magic != 0xA11C {
        BAD.fetch_add(1, SeqCst);
    }
    VDROPS[alloc].fetch_add(1, SeqCst);
}

#[repr(C)]
struct RawArc {
    instance: *const P,
    clone_fn: Option<unsafe extern "C" fn(*const P) -> *const P>,
    drop_fn: Option<unsafe extern "C" fn(*const P)>,
}

// ---- allocations made by foreign code (CArc.tla: FromForeign) -------------------------------------------------------
// A foreign reference-counting scheme with one HANDLE OBJECT per reference: its clone function returns a new handle object
// over the shared count, its drop function must be given exactly the handle objects it handed out, each once.  The handle
// object starts with a copy of the payload (`instance` points at a P, as the typed accessors expect).  Handle objects are
// never given back to the allocator before the next behaviour starts, so that a second release is counted, not undefined.
const H_LIVE: usize = 0xF0E1;
const H_RELEASED: usize = 0xDEAD;
#[repr(C)]
struct FHandle {
    p: std::mem::ManuallyDrop<P>,
    shared: *mut FShared,
    hid: usize,
    state: AtomicUsize,
}
struct FShared {
    count: AtomicUsize,
    alloc: usize,
}
static FHANDLES: Mutex<Vec<usize>> = Mutex::new(Vec::new());
static HREL: Mutex<Vec<usize>> = Mutex::new(Vec::new());
static FSHARED: [AtomicUsize; MAXA] = [Z; MAXA];

fn fhandle_of(p: *const P) -> Option<&'static FHandle> {
    if FHANDLES.lock().unwrap().contains(&(p as usize)) {
        Some(unsafe { &*(p as *const FHandle) })
    } else {
        None
    }
}
fn new_fhandle(shared: *mut FShared, alloc: usize) -> *const P {
    ledger::untracked(|| {
        let mut hs = FHANDLES.lock().unwrap();
        let hid = hs.len() + 1;
        let h = Box::into_raw(Box::new(FHandle {
            p: std::mem::ManuallyDrop::new(P { alloc, magic: 0xA11C }),
            shared,
            hid,
            state: AtomicUsize::new(H_LIVE),
        }));
        hs.push(h as usize);
        HREL.lock().unwrap().push(0);
        h as *const P
    })
}
fn reset_foreign() {
    ledger::untracked(|| {
        for h in FHANDLES.lock().unwrap().drain(..) {
            drop(unsafe { Box::from_raw(h as *mut FHandle) });
        }
        HREL.lock().unwrap().clear();
        for a in 0..MAXA {
            let s = FSHARED[a].swap(0, SeqCst);
            if s != 0 {
                drop(unsafe { Box::from_raw(s as *mut FShared) });
            }
        }
    })
}
unsafe extern "C" fn f_clone(p: *const P) -> *const P {
    let h = match fhandle_of(p) {
        Some(h) => h,
        None => {
            BAD.fetch_add(1, SeqCst);
            return p;
        }
    };
    if h.state.load(SeqCst) != H_LIVE {
        BAD.fetch_add(1, SeqCst);
    }
    let sh = &*h.shared;
    sh.count.fetch_add(1, SeqCst);
    CLONE_CALLS[sh.alloc].fetch_add(1, SeqCst);
    new_fhandle(h.shared, sh.alloc)
}
unsafe extern "C" fn f_drop(p: *const P) {
    let h = match fhandle_of(p) {
        Some(h) => h,
        None => {
            BAD.fetch_add(1, SeqCst);
            return;
        }
    };
    HREL.lock().unwrap()[h.hid - 1] += 1;
    if h.state.swap(H_RELEASED, SeqCst) != H_LIVE {
        // a handle object released twice: counted (the projection shows it), the shared count is left alone
        BAD.fetch_add(1, SeqCst);
        return;
    }
    (&mut (*(p as *mut FHandle)).p).magic = 0xDEAD;
    let sh = &*h.shared;
    DROP_CALLS[sh.alloc].fetch_add(1, SeqCst);
    if sh.count.fetch_sub(1, SeqCst) == 1 {
        VDROPS[sh.alloc].fetch_add(1, SeqCst);
    }
}
fn hid_of(p: *const P) -> usize {
    fhandle_of(p).map(|h| h.hid).unwrap_or(0)
}

fn alloc_of(p: *const P) -> usize {
    if let Some(h) = fhandle_of(p) {
        return unsafe { (*h.shared).alloc };
    }
    // the address of a destroyed value may have been handed out again: prefer the live allocation
    for a in 1..MAXA {
        if ADDR[a].load(SeqCst) == p as usize && p as usize != 0 && VDROPS[a].load(SeqCst) == 0 {
            return a;
        }
    }
    for a in 1..MAXA {
        if ADDR[a].load(SeqCst) == p as usize && p as usize != 0 {
            return a;
        }
    }
    0
}

unsafe extern "C" fn clone_tramp(p: *const P) -> *const P {
    let a = alloc_of(p);
    if a == 0 {
        BAD.fetch_add(1, SeqCst);
    }
    CLONE_CALLS[a].fetch_add(1, SeqCst);
    let f: unsafe extern "C" fn(*const P) -> *const P = std::mem::transmute(ORIG_CLONE.load(SeqCst));
    f(p)
}
unsafe extern "C" fn drop_tramp(p: *const P) {
    let a = alloc_of(p);
    if a == 0 {
        BAD.fetch_add(1, SeqCst);
    }
    DROP_CALLS[a].fetch_add(1, SeqCst);
    let f: unsafe extern "C" fn(*const P) = std::mem::transmute(ORIG_DROP.load(SeqCst));
    f(p)
}

fn interpose<T>(h: &mut T) {
    assert_eq!(std::mem::size_of::<T>(), std::mem::size_of::<RawArc>());
    let raw: &mut RawArc = unsafe { &mut *(h as *mut T as *mut RawArc) };
    if raw.instance.is_null() {
        return;
    }
    if let Some(c) = raw.clone_fn {
        if c as usize != clone_tramp as usize {
            ORIG_CLONE.store(c as usize, SeqCst);
            raw.clone_fn = Some(clone_tramp);
        }
    }
    if let Some(d) = raw.drop_fn {
        if d as usize != drop_tramp as usize {
            ORIG_DROP.store(d as usize, SeqCst);
            raw.drop_fn = Some(drop_tramp);
        }
    }
}

fn raw_instance<T>(h: &T) -> *const P {
    unsafe { (*(h as *const T as *const RawArc)).instance }
}

enum H {
    CArc(CArc<P>),
    Some(CArcSome<P>),
    OCArc(CArc<c_void>),
    OSome(CArcSome<c_void>),
    Opt(Option<CArcSome<P>>),
    Arc(Arc<P>),
}
unsafe impl Send for H {}

impl H {
    /// (kind, alloc) — the alloc is found by dereferencing typed handles and by the raw instance
    /// pointer for opaque ones; a typed handle whose payload disagrees with its address is flagged.
    fn view(&self) -> (&'static str, usize) {
        let (k, a, _) = self.view_h();
        (k, a)
    }
    /// the same with the foreign handle object the handle holds (0: none)
    fn view_h(&self) -> (&'static str, usize, usize) {
        let (k, a) = self.view0();
        let p: *const P = match self {
            H::CArc(c) => raw_instance(c),
            H::Some(c) => raw_instance(c),
            H::OCArc(c) => raw_instance(c),
            H::OSome(c) => raw_instance(c),
            H::Opt(o) => o.as_ref().map(|c| raw_instance(c)).unwrap_or(std::ptr::null()),
            H::Arc(_) => std::ptr::null(),
        };
        (k, a, if p.is_null() { 0 } else { hid_of(p) })
    }
    fn view0(&self) -> (&'static str, usize) {
        fn chk(p: &P) -> usize {
            if p.magic != 0xA11C || alloc_of(p as *const P) != p.alloc {
                BAD.fetch_add(1, SeqCst);
            }
            p.alloc
        }
        match self {
            H::CArc(c) => {
                // the same target through AsRef and through the reference transpose From<&CArc> for Option<&CArcSome>
                let a1 = c.as_ref().map(|p| chk(p)).unwrap_or(0);
                let o: Option<&CArcSome<P>> = c.into();
                let a2 = o.map(|s| chk(&**s)).unwrap_or(0);
                if a1 != a2 {
                    BAD.fetch_add(1, SeqCst);
                }
                ("CArc", a1)
            }
            H::Some(c) => ("Some", chk(&**c)),
            H::OCArc(c) => ("OCArc", alloc_of(raw_instance(c))),
            H::OSome(c) => ("OSome", alloc_of(raw_instance(c))),
            H::Opt(o) => ("Opt", o.as_ref().map(|c| chk(&**c)).unwrap_or(0)),
            H::Arc(a) => ("Arc", chk(&**a)),
        }
    }
}

struct Shared {
    slots: Mutex<Vec<Option<H>>>,
    keep: Mutex<Vec<Option<Arc<P>>>>,
}

fn new_payload(a: usize) -> Arc<P> {
    let arc = Arc::new(P { alloc: a, magic: 0xA11C });
    ADDR[a].store(Arc::as_ptr(&arc) as usize, SeqCst);
    arc
}

/// Execute one slot operation on the calling thread.
fn exec(sh: &Shared, e: &Value) -> Result<(), String> {
    let op = e["op"].as_str().unwrap();
    let s = e["s"].as_u64().unwrap_or(1) as usize - 1;
    let take = |i: usize| sh.slots.lock().unwrap()[i].take();
    let put = |i: usize, h: H| {
        sh.slots.lock().unwrap()[i] = Some(h);
    };
    match op {
        "FromValue" => {
            let a = e["a"].as_u64().unwrap() as usize;
            let h = ledger::track(|| {
                // From<T>: the library allocates the Arc itself; learn its address afterwards
                if e["k"] == "CArc" {
                    let mut c = CArc::from(P { alloc: a, magic: 0xA11C });
                    ADDR[a].store(raw_instance(&c) as usize, SeqCst);
                    interpose(&mut c);
                    H::CArc(c)
                } else {
                    let mut c = CArcSome::from(P { alloc: a, magic: 0xA11C });
                    ADDR[a].store(raw_instance(&c) as usize, SeqCst);
                    interpose(&mut c);
                    H::Some(c)
                }
            });
            put(s, h);
        }
        "FromForeign" => {
            // the handle as foreign code fills it in: three words, the published layout
            let a = e["a"].as_u64().unwrap() as usize;
            let shared = ledger::untracked(|| Box::into_raw(Box::new(FShared { count: AtomicUsize::new(1), alloc: a })));
            FSHARED[a].store(shared as usize, SeqCst);
            ADDR[a].store(shared as usize, SeqCst);
            let raw = RawArc { instance: new_fhandle(shared, a), clone_fn: Some(f_clone), drop_fn: Some(f_drop) };
            let h = unsafe {
                if e["k"] == "CArc" {
                    H::CArc(std::mem::transmute::<RawArc, CArc<P>>(raw))
                } else {
                    H::Some(std::mem::transmute::<RawArc, CArcSome<P>>(raw))
                }
            };
            put(s, h);
        }
        "FromArc" => {
            let a = e["a"].as_u64().unwrap() as usize;
            let arc = sh.keep.lock().unwrap()[a].as_ref().unwrap().clone();
            let variant = e["via"].as_str().unwrap_or("arc");
            let h = ledger::track(|| {
                if e["k"] == "CArc" {
                    let mut c = if variant == "opt" || a % 2 == 0 {
                        CArc::<P>::from(Some(arc))
                    } else {
                        CArc::<P>::from(arc)
                    };
                    interpose(&mut c);
                    H::CArc(c)
                } else {
                    let mut c = CArcSome::from(arc);
                    interpose(&mut c);
                    H::Some(c)
                }
            });
            put(s, h);
        }
        "MakeEmpty" => {
            let c = if s % 2 == 0 { CArc::<P>::default() } else { CArc::<P>::from(None::<Arc<P>>) };
            put(s, H::CArc(c));
        }
        "Clone" => {
            let d = e["d"].as_u64().unwrap() as usize - 1;
            let h = take(s).ok_or("clone of free slot")?;
            // C16: the handle is cloned by the C driver - or, for every other (source, destination) pair, by Rust: a handle
            // works the same whichever side made it, cloned it or releases it
            let cm = C_MODE.load(SeqCst) != 0 && (s + d) % 2 == 1;
            let mut h = h;
            let via_mut = !cm && (s + d) % 4 >= 2;
            let c = ledger::track(|| unsafe {
                match &mut h {
                    // alternately through the mutable reference transpose From<&mut CArc> for Option<&mut CArcSome>
                    H::CArc(x) if via_mut => {
                        let o: Option<&mut CArcSome<P>> = x.into();
                        match o {
                            Some(some) => H::CArc(some.clone().transpose()),
                            None => H::CArc(CArc::default()),
                        }
                    }
                    H::CArc(x) => H::CArc(if cm { c_clone_of(x) } else { x.clone() }),
                    H::Some(x) => H::Some(if cm { c_clone_of(x) } else { x.clone() }),
                    H::OCArc(x) => H::OCArc(if cm { c_clone_of(x) } else { x.clone() }),
                    H::OSome(x) => H::OSome(if cm { c_clone_of(x) } else { x.clone() }),
                    _ => unreachable!(),
                }
            });
            put(s, h);
            put(d, c);
        }
        "Take" => {
            let d = e["d"].as_u64().unwrap() as usize - 1;
            let mut h = take(s).ok_or("take of free slot")?;
            let t = match &mut h {
                H::CArc(x) => H::CArc(x.take()),
                H::OCArc(x) => H::OCArc(x.take()),
                _ => unreachable!(),
            };
            put(s, h);
            put(d, t);
        }
        "Convert" => {
            let to = e["to"].as_str().unwrap();
            let h = take(s).ok_or("convert of free slot")?;
            let n = ledger::track(|| match (h, to) {
                (H::CArc(x), "Opt") => H::Opt(x.transpose()),
                (H::CArc(x), "OCArc") => H::OCArc(x.into_opaque()),
                (H::Some(x), "CArc") => H::CArc(x.transpose()),
                (H::Some(x), "OSome") => H::OSome(x.into_opaque()),
                (H::Opt(x), "CArc") => H::CArc(CArc::from(x)),
                _ => unreachable!(),
            });
            put(s, n);
        }
        "Unwrap" => {
            let h = take(s).ok_or("unwrap of free slot")?;
            match h {
                H::Opt(Some(x)) => put(s, H::Some(x)),
                _ => unreachable!(),
            }
        }
        "IntoArc" => {
            let h = take(s).ok_or("into_arc of free slot")?;
            match h {
                H::Some(x) => put(s, H::Arc(unsafe { x.into_arc() })),
                _ => unreachable!(),
            }
        }
        "Drop" => {
            let h = take(s).ok_or("drop of free slot")?;
            if C_MODE.load(SeqCst) != 0 && s % 2 == 0 {
                ledger::track(|| unsafe {
                    match h {
                        H::CArc(x) => c_release(x),
                        H::Some(x) => c_release(x),
                        H::OCArc(x) => c_release(x),
                        H::OSome(x) => c_release(x),
                        other => drop(other),
                    }
                });
            } else {
                ledger::track(|| drop(h));
            }
        }
        "Give" => {}
        _ => return Err(format!("unknown op {}", op)),
    }
    Ok(())
}

struct Worker {
    tx: Sender<Option<Value>>,
    rx: Receiver<Result<(), String>>,
    handle: Option<std::thread::JoinHandle<()>>,
}

pub struct World {
    sh: Arc<Shared>,
    workers: Vec<Worker>,
    nslots: usize,
    nalloc: usize,
}

impl World {
    pub fn new(nslots: usize, nalloc: usize, nthreads: usize) -> Self {
        for a in 0..MAXA {
            VDROPS[a].store(0, SeqCst);
            CLONE_CALLS[a].store(0, SeqCst);
            DROP_CALLS[a].store(0, SeqCst);
            ADDR[a].store(0, SeqCst);
        }
        reset_foreign();
        let sh = Arc::new(Shared {
            slots: Mutex::new((0..nslots).map(|_| None).collect()),
            keep: Mutex::new((0..=nalloc).map(|_| None).collect()),
        });
        let workers = (0..nthreads)
            .map(|_| {
                let (tx, wrx) = channel::<Option<Value>>();
                let (wtx, rx) = channel();
                let sh2 = sh.clone();
                let handle = std::thread::spawn(move || {
                    while let Ok(Some(e)) = wrx.recv() {
                        let r = vkit::catch(|| exec(&sh2, &e)).unwrap_or_else(|m| Err(format!("panic: {}", m)));
                        if wtx.send(r).is_err() {
                            break;
                        }
                    }
                });
                Worker { tx, rx, handle: Some(handle) }
            })
            .collect();
        World { sh, workers, nslots, nalloc }
    }

    pub fn apply(&mut self, e: &Value) -> Result<(), String> {
        match e["op"].as_str().unwrap() {
            "EnvNewArc" => {
                let a = e["a"].as_u64().unwrap() as usize;
                let arc = ledger::track(|| new_payload(a));
                self.sh.keep.lock().unwrap()[a] = Some(arc);
                Ok(())
            }
            "EnvDropArc" => {
                let a = e["a"].as_u64().unwrap() as usize;
                let arc = self.sh.keep.lock().unwrap()[a].take();
                ledger::track(|| drop(arc));
                Ok(())
            }
            _ => {
                let t = e["t"].as_u64().unwrap() as usize - 1;
                self.workers[t].tx.send(Some(e.clone())).unwrap();
                self.workers[t].rx.recv().unwrap_or_else(|_| Err("worker died".into()))
            }
        }
    }

    pub fn proj(&self) -> Value {
        let slots = self.sh.slots.lock().unwrap();
        let keep = self.sh.keep.lock().unwrap();
        let sl: Vec<Value> = slots
            .iter()
            .map(|h| match h {
                None => json!(["free", 0, 0]),
                Some(h) => {
                    let (k, a, hid) = h.view_h();
                    json!([k, a, hid])
                }
            })
            .collect();
        let strong: Vec<usize> = (1..=self.nalloc)
            .map(|a| {
                let f = FSHARED[a].load(SeqCst);
                if f != 0 {
                    unsafe { (*(f as *const FShared)).count.load(SeqCst) }
                } else {
                    keep[a].as_ref().map(Arc::strong_count).unwrap_or(0)
                }
            })
            .collect();
        let vd: Vec<usize> = (1..=self.nalloc).map(|a| VDROPS[a].load(SeqCst)).collect();
        let calls: Vec<Value> = (1..=self.nalloc)
            .map(|a| json!([CLONE_CALLS[a].load(SeqCst), DROP_CALLS[a].load(SeqCst)]))
            .collect();
        let hrel = HREL.lock().unwrap().clone();
        json!({"slots": sl, "strong": strong, "vdrops": vd, "calls": calls, "hrel": hrel})
    }

    pub fn slot_views(&self) -> Vec<Option<(&'static str, usize)>> {
        self.sh.slots.lock().unwrap().iter().map(|h| h.as_ref().map(|h| h.view())).collect()
    }
    pub fn kept(&self) -> Vec<bool> {
        self.sh.keep.lock().unwrap().iter().map(|k| k.is_some()).collect()
    }

    /// Drop everything (each remaining handle on thread 1), check the quiescent clauses.
    pub fn teardown(mut self, base: ledger::Snap) -> Option<String> {
        for s in 0..self.nslots {
            if self.sh.slots.lock().unwrap()[s].is_some() {
                let _ = self.apply(&json!({"op":"Drop","t":1,"s":s+1}));
            }
        }
        for a in 1..=self.nalloc {
            let k = self.sh.keep.lock().unwrap()[a].take();
            ledger::track(|| drop(k));
        }
        for w in self.workers.iter_mut() {
            let _ = w.tx.send(None);
            if let Some(h) = w.handle.take() {
                let _ = h.join();
            }
        }
        for a in 1..=self.nalloc {
            let made = ADDR[a].load(SeqCst) != 0;
            let d = VDROPS[a].load(SeqCst);
            if (HAS_DROP || FSHARED[a].load(SeqCst) != 0) && made && d != 1 {
                return Some(format!("allocation {} value dropped {} times at quiescence", a, d));
            }
        }
        let hrel: Vec<usize> = HREL.lock().unwrap().clone();
        if let Some(h) = hrel.iter().position(|&r| r != 1) {
            return Some(format!("foreign handle object {} was released {} times at quiescence", h + 1, hrel[h]));
        }
        let s = ledger::snap();
        if s.live != base.live {
            return Some(format!("leak: {} tracked allocations live at quiescence (base {})", s.live, base.live));
        }
        if s.anomalies != base.anomalies {
            return Some(format!("allocator anomalies: {:?}", ledger::anomalies_since(base.anomalies)));
        }
        if BAD.load(SeqCst) > 0 {
            return Some("a handle dereferenced to a dead or foreign value, or a stored function saw an unknown instance".into());
        }
        None
    }
}

fn replay(lines: &[String], nslots: usize, nalloc: usize, nthreads: usize) -> (usize, Vec<Value>) {
    let mut failures = vec![];
    let mut steps = 0;
    for (bi, line) in lines.iter().enumerate() {
        vkit::mark(bi);
        let beh: Value = serde_json::from_str(line).expect("behaviour json");
        if !HAS_DROP && beh.as_array().unwrap().iter().any(|st| st["a"]["op"] == "FromValue") {
            continue; // see arcad.rs: allocations made from a value are observable through destructor counts only
        }
        let base = ledger::snap();
        BAD.store(0, SeqCst);
        let mut w = World::new(nslots, nalloc, nthreads);
        let mut failed = None;
        for (si, st) in beh.as_array().unwrap().iter().enumerate() {
            steps += 1;
            if let Err(m) = w.apply(&st["a"]) {
                failed = Some((si, format!("operation failed: {}", m)));
                break;
            }
            let mut got = w.proj();
            if !HAS_DROP {
                got["vdrops"] = st["exp"]["vdrops"].clone(); // no destructor to count: the strong counts carry the verdict
            }
            if got != st["exp"] {
                failed = Some((si, format!("projection differs: got {} expected {}", got, st["exp"])));
                break;
            }
            if BAD.load(SeqCst) > 0 {
                failed = Some((si, "handle dereferences to a dead/foreign value".into()));
                break;
            }
        }
        let td = w.teardown(base);
        if failed.is_none() {
            if let Some(m) = td {
                failed = Some((beh.as_array().unwrap().len(), m));
            }
        }
        if let Some((si, msg)) = failed {
            failures.push(json!({"behaviour": bi, "step": si, "msg": msg, "beh": beh}));
            if failures.len() >= 20 {
                break;
            }
        }
    }
    (steps, failures)
}

fn trace(out: &str, seed: u64, events: usize, nslots: usize, nalloc: usize, nthreads: usize) {
    let mut log = vkit::NdJson::create(out);
    let mut rng = vkit::rng::Rng::new(seed);
    let mut emitted = 0;
    while emitted < events {
        let base = ledger::snap();
        BAD.store(0, SeqCst);
        let mut w = World::new(nslots, nalloc, nthreads);
        let mut own = vec![1usize; nslots];
        let mut made = vec![false; nalloc + 1];
        log.emit(&json!({"op":"reset"}));
        emitted += 1;
        let run = 30 + rng.below(120);
        for _ in 0..run {
            let views = w.slot_views();
            let kept = w.kept();
            let free: Vec<usize> = (0..nslots).filter(|&i| views[i].is_none()).collect();
            let used: Vec<usize> = (0..nslots).filter(|&i| views[i].is_some()).collect();
            let unmade: Vec<usize> = (1..=nalloc).filter(|&a| !made[a]).collect();
            let keptv: Vec<usize> = (1..=nalloc).filter(|&a| kept[a]).collect();
            let t = 1 + rng.below(nthreads);
            let mut cand: Vec<Value> = vec![];
            if let Some(&d) = free.first() {
                if let Some(&a) = unmade.first() {
                    cand.push(json!({"op":"FromValue","t":t,"s":d+1,"a":a,"k": if rng.chance(1,2) {"CArc"} else {"Some"}}));
                    cand.push(json!({"op":"EnvNewArc","a":a}));
                    cand.push(json!({"op":"FromForeign","t":t,"s":d+1,"a":a,"k": if rng.chance(1,2) {"CArc"} else {"Some"}}));
                }
                if !keptv.is_empty() {
                    let a = *rng.pick(&keptv);
                    cand.push(json!({"op":"FromArc","t":t,"s":d+1,"a":a,"k": if rng.chance(1,2) {"CArc"} else {"Some"}}));
                }
                if rng.chance(1, 4) {
                    cand.push(json!({"op":"MakeEmpty","t":t,"s":d+1}));
                }
            }
            if !keptv.is_empty() && rng.chance(1, 6) {
                cand.push(json!({"op":"EnvDropArc","a":*rng.pick(&keptv)}));
            }
            if !used.is_empty() {
                for _ in 0..4 {
                    let s = *rng.pick(&used);
                    let (k, a) = views[s].unwrap();
                    let t = own[s];
                    let mut c: Vec<Value> = vec![json!({"op":"Drop","t":t,"s":s+1})];
                    if nthreads > 1 {
                        let mut u = 1 + rng.below(nthreads);
                        if u == t {
                            u = u % nthreads + 1;
                        }
                        c.push(json!({"op":"Give","t":t,"s":s+1,"u":u}));
                    }
                    if let Some(&d) = free.first() {
                        if matches!(k, "CArc" | "Some" | "OCArc" | "OSome") {
                            c.push(json!({"op":"Clone","t":t,"s":s+1,"d":d+1}));
                            c.push(json!({"op":"Clone","t":t,"s":s+1,"d":d+1}));
                        }
                        if matches!(k, "CArc" | "OCArc") {
                            c.push(json!({"op":"Take","t":t,"s":s+1,"d":d+1}));
                        }
                    }
                    match k {
                        "CArc" => {
                            c.push(json!({"op":"Convert","t":t,"s":s+1,"to":"Opt"}));
                            c.push(json!({"op":"Convert","t":t,"s":s+1,"to":"OCArc"}));
                        }
                        "Some" => {
                            c.push(json!({"op":"Convert","t":t,"s":s+1,"to":"CArc"}));
                            c.push(json!({"op":"Convert","t":t,"s":s+1,"to":"OSome"}));
                            if FSHARED[a].load(SeqCst) == 0 {
                                c.push(json!({"op":"IntoArc","t":t,"s":s+1}));
                            }
                        }
                        "Opt" => {
                            c.push(json!({"op":"Convert","t":t,"s":s+1,"to":"CArc"}));
                            if a != 0 {
                                c.push(json!({"op":"Unwrap","t":t,"s":s+1}));
                            }
                        }
                        _ => {}
                    }
                    cand.push(rng.pick(&c).clone());
                }
            }
            if cand.is_empty() {
                break;
            }
            let e = rng.pick(&cand).clone();
            if let Some(a) = e["a"].as_u64() {
                if e["op"] == "FromValue" || e["op"] == "EnvNewArc" || e["op"] == "FromForeign" {
                    made[a as usize] = true;
                }
            }
            if e["op"] == "Give" {
                own[e["s"].as_u64().unwrap() as usize - 1] = e["u"].as_u64().unwrap() as usize;
            }
            for key in ["s", "d"].iter() {
                if matches!(e["op"].as_str().unwrap(), "FromValue" | "FromArc" | "FromForeign" | "MakeEmpty") && *key == "s"
                    || matches!(e["op"].as_str().unwrap(), "Clone" | "Take") && *key == "d"
                {
                    own[e[*key].as_u64().unwrap() as usize - 1] = e["t"].as_u64().unwrap() as usize;
                }
            }
            let r = w.apply(&e);
            let mut ev = e.clone();
            let o = ev.as_object_mut().unwrap();
            o.insert("proj".into(), w.proj());
            o.insert("ok".into(), json!(r.is_ok() && BAD.load(SeqCst) == 0));
            log.emit(&ev);
            emitted += 1;
        }
        let td = w.teardown(base);
        log.emit(&json!({"op":"quiescent","ok": td.is_none(), "msg": td.unwrap_or_default()}));
        emitted += 1;
    }
    log.flush();
    println!("{}", json!({"summary":"trace","events":emitted}));
}

/// Free-running concurrent mode (C10: "the same operations issued concurrently from several threads").
/// Every thread owns `per` slots and performs random operations on its own slots only, all threads at
/// once and without any scheduling by the driver: the reference counts of the shared allocations are the
/// contended state.  A completed operation is stamped with a global sequence number; operations of
/// different threads touch disjoint slots, so any merge that respects each thread's own order is a
/// linearisation the specification must accept, and the counts are compared at the `sync` event after
/// all threads have joined.
fn conc(out: &str, seed: u64, rounds: usize, nthreads: usize, per: usize, nalloc: usize, ops: usize) {
    let mut log = vkit::NdJson::create(out);
    let mut rng = vkit::rng::Rng::new(seed);
    let nslots = nthreads * per;
    let mut emitted = 0;
    for _round in 0..rounds {
        let base = ledger::snap();
        BAD.store(0, SeqCst);
        let mut w = World::new(nslots, nalloc, nthreads);
        log.emit(&json!({"op":"reset"}));
        emitted += 1;
        let mut setup: Vec<Value> = (1..=nalloc).map(|a| json!({"op":"EnvNewArc","a":a})).collect();
        for t in 1..=nthreads {
            let a = 1 + (t + rng.below(nalloc)) % nalloc;
            setup.push(json!({"op":"FromArc","t":t,"s":(t - 1) * per + 1,"a":a,"k": if rng.chance(1,2) {"CArc"} else {"Some"}}));
        }
        for e in setup {
            let r = w.apply(&e);
            let mut ev = e.clone();
            let o = ev.as_object_mut().unwrap();
            o.insert("proj".into(), w.proj());
            o.insert("ok".into(), json!(r.is_ok() && BAD.load(SeqCst) == 0));
            log.emit(&ev);
            emitted += 1;
        }
        let gseq = Arc::new(AtomicUsize::new(0));
        let barrier = Arc::new(std::sync::Barrier::new(nthreads));
        let mut joins = vec![];
        for t in 1..=nthreads {
            let sh = w.sh.clone();
            let gseq = gseq.clone();
            let barrier = barrier.clone();
            let tseed = seed.wrapping_mul(1000003).wrapping_add((_round * 97 + t) as u64);
            joins.push(std::thread::spawn(move || {
                let mut rng = vkit::rng::Rng::new(tseed);
                let mine: Vec<usize> = ((t - 1) * per..t * per).collect();
                let mut evs: Vec<(usize, Value)> = vec![];
                barrier.wait();
                for _ in 0..ops {
                    let views: Vec<Option<(&'static str, usize)>> = {
                        let sl = sh.slots.lock().unwrap();
                        mine.iter().map(|&i| sl[i].as_ref().map(|h| h.view())).collect()
                    };
                    let free: Vec<usize> = (0..per).filter(|&i| views[i].is_none()).collect();
                    let used: Vec<usize> = (0..per).filter(|&i| views[i].is_some()).collect();
                    let mut c: Vec<Value> = vec![];
                    if let Some(&d) = free.first() {
                        let a = 1 + rng.below(nalloc);
                        c.push(json!({"op":"FromArc","t":t,"s":mine[d]+1,"a":a,"k": if rng.chance(1,2) {"CArc"} else {"Some"}}));
                        if rng.chance(1, 5) {
                            c.push(json!({"op":"MakeEmpty","t":t,"s":mine[d]+1}));
                        }
                    }
                    for &u in &used {
                        let (k, a) = views[u].unwrap();
                        let s = mine[u] + 1;
                        c.push(json!({"op":"Drop","t":t,"s":s}));
                        if let Some(&d) = free.first() {
                            if matches!(k, "CArc" | "Some" | "OCArc" | "OSome") {
                                c.push(json!({"op":"Clone","t":t,"s":s,"d":mine[d]+1}));
                                c.push(json!({"op":"Clone","t":t,"s":s,"d":mine[d]+1}));
                            }
                            if matches!(k, "CArc" | "OCArc") {
                                c.push(json!({"op":"Take","t":t,"s":s,"d":mine[d]+1}));
                            }
                        }
                        match k {
                            "CArc" => {
                                c.push(json!({"op":"Convert","t":t,"s":s,"to":"Opt"}));
                                c.push(json!({"op":"Convert","t":t,"s":s,"to":"OCArc"}));
                            }
                            "Some" => {
                                c.push(json!({"op":"Convert","t":t,"s":s,"to":"CArc"}));
                                c.push(json!({"op":"Convert","t":t,"s":s,"to":"OSome"}));
                                c.push(json!({"op":"IntoArc","t":t,"s":s}));
                            }
                            "Opt" => {
                                c.push(json!({"op":"Convert","t":t,"s":s,"to":"CArc"}));
                                if a != 0 {
                                    c.push(json!({"op":"Unwrap","t":t,"s":s}));
                                }
                            }
                            _ => {}
                        }
                    }
                    if c.is_empty() {
                        continue;
                    }
                    let e = rng.pick(&c).clone();
                    let r = vkit::catch(|| exec(&sh, &e)).unwrap_or_else(|m| Err(format!("panic: {}", m)));
                    let lv: Vec<Value> = {
                        let sl = sh.slots.lock().unwrap();
                        mine.iter().map(|&i| match sl[i].as_ref().map(|h| h.view()) {
                            None => json!([i + 1, "free", 0]),
                            Some((k, a)) => json!([i + 1, k, a]),
                        }).collect()
                    };
                    let seq = gseq.fetch_add(1, SeqCst);
                    let mut ev = e.clone();
                    let o = ev.as_object_mut().unwrap();
                    o.insert("conc".into(), json!(true));
                    o.insert("seq".into(), json!(seq));
                    o.insert("lv".into(), json!(lv));
                    o.insert("ok".into(), json!(r.is_ok()));
                    evs.push((seq, ev));
                }
                evs
            }));
        }
        let mut all: Vec<(usize, Value)> = vec![];
        for j in joins {
            all.extend(j.join().expect("worker thread"));
        }
        all.sort_by_key(|x| x.0);
        for (_, ev) in all {
            log.emit(&ev);
            emitted += 1;
        }
        log.emit(&json!({"op":"sync","proj": w.proj(), "ok": BAD.load(SeqCst) == 0}));
        emitted += 1;
        let td = w.teardown(base);
        log.emit(&json!({"op":"quiescent","ok": td.is_none(), "msg": td.unwrap_or_default()}));
        emitted += 1;
    }
    log.flush();
    println!("{}", json!({"summary":"conc","events":emitted}));
}

pub fn main(args: &[String]) {
    let mode = args[0].as_str();
    let path = args.get(1).cloned().unwrap_or_default();
    let geti = |f: &str, d: usize| vkit::arg_after(args, f).map(|s| s.parse().unwrap()).unwrap_or(d);
    let (nslots, nalloc, nthreads) = (geti("--slots", 3), geti("--allocs", 2), geti("--threads", 2));
    if args.iter().any(|a| a == "--c") {
        C_MODE.store(1, SeqCst);
    }
    match mode {
        "replay" => {
            let lines = vkit::read_lines(&path);
            let (steps, failures) = replay(&lines, nslots, nalloc, nthreads);
            if let Some(f) = vkit::arg_after(args, "--fail-out") {
                if let Some(first) = failures.first() {
                    std::fs::write(&f, serde_json::to_string(first).unwrap()).unwrap();
                }
            }
            vkit::summary("arc-replay", lines.len(), steps, &failures, json!({}));
        }
        "conc" => {
            conc(&path, geti("--seed", 1) as u64, geti("--rounds", 20), geti("--threads", 3), geti("--per", 2), nalloc, geti("--ops", 200));
        }
        "trace" => {
            trace(&path, geti("--seed", 1) as u64, geti("--events", 1000), nslots, nalloc, nthreads);
        }
        _ => {
            eprintln!("TOOL-ERROR mode");
            std::process::exit(2)
        }
    }
}
