//! Adapter for spec/Waker.tla: a scripted future / stream / sink polled through an opaque cglue
//! object; the script is fed step by step from the driver so that operations of other threads can
//! be interleaved with the poll exactly as the specification orders them.

use cglue::*;
use std::future::Future;
use std::pin::Pin;
use std::sync::atomic::{AtomicBool, AtomicUsize, Ordering::SeqCst};
use std::sync::mpsc::{channel, Receiver, Sender};
use std::sync::{Arc, Mutex};
use std::task::{Context, Poll, Wake, Waker};
use vkit::{json, ledger, Value};

struct CountingWaker {
    wakes: AtomicUsize,
}
/// number of caller wakers (Waker!Orig)
const NORIG: usize = 2;
/// what the original saw of its own strong count at the instant it was last woken (usize::MAX: not woken)
static SEEN_AT_WAKE: AtomicUsize = AtomicUsize::new(usize::MAX);
/// which caller waker was woken last (index), found by address
static SEEN_WHICH: AtomicUsize = AtomicUsize::new(0);
static ORIG_ADDR: [AtomicUsize; NORIG] = [AtomicUsize::new(0), AtomicUsize::new(0)];
fn note_which(p: *const CountingWaker) {
    for (i, a) in ORIG_ADDR.iter().enumerate() {
        if a.load(SeqCst) == p as usize {
            SEEN_WHICH.store(i, SeqCst);
        }
    }
}
impl Wake for CountingWaker {
    fn wake(self: Arc<Self>) {
        // by value: the reference that carries the wake is still alive here
        note_which(Arc::as_ptr(&self));
        SEEN_AT_WAKE.store(Arc::strong_count(&self), SeqCst);
        self.wakes.fetch_add(1, SeqCst);
        hold_here();
    }
    fn wake_by_ref(self: &Arc<Self>) {
        note_which(Arc::as_ptr(self));
        SEEN_AT_WAKE.store(Arc::strong_count(self), SeqCst);
        self.wakes.fetch_add(1, SeqCst);
        hold_here();
    }
}

thread_local! {
    /// set by FWakeBegin just before it calls wake(): the caller's wake function then does not return until FWakeEnd,
    /// executing this thread's commands meanwhile (Waker!FWakeBegin .. FWakeEnd)
    static HOLD: std::cell::Cell<bool> = std::cell::Cell::new(false);
    static MY_CHAN: std::cell::Cell<usize> = std::cell::Cell::new(0);
}
static CURRENT: Mutex<Option<Arc<Shared>>> = Mutex::new(None);

/// Inside the caller's wake function (whichever of the two the bridge chose to call).
fn hold_here() {
    if !HOLD.with(|h| h.replace(false)) {
        return;
    }
    // harness bookkeeping (channels, commands) is not the library's memory; the nested operations track their own
    ledger::untracked(|| {
        let sh = CURRENT.lock().unwrap().clone().expect("world");
        let ch = &sh.chans[MY_CHAN.with(|c| c.get())];
        let _ = ch.tx.lock().unwrap().send(Ok(())); // ack FWakeBegin: the original's wake function is running
        loop {
            let cmd = ch.rx.lock().unwrap().recv();
            let e = match cmd {
                Ok(Some(e)) => e,
                _ => break,
            };
            if e["op"] == "FWakeEnd" {
                break; // acked by whoever called wake(), once it has returned
            }
            let r = vkit::catch(|| exec_f(&sh, &e)).unwrap_or_else(|m| Err(format!("panic: {}", m)));
            let _ = ch.tx.lock().unwrap().send(r);
        }
    })
}

// ---- a caller waker whose clone() is NOT a bitwise copy of itself: a borrowed view (clone hands out an owned handle
// with another vtable and data pointer; dropping or waking the view by value releases nothing) - what cglue's own
// per-poll waker is, and what any stack-allocated executor waker looks like ----
struct BorrowedW {
    inner: Arc<CountingWaker>,
}
use std::task::{RawWaker, RawWakerVTable};
static B_VT: RawWakerVTable = RawWakerVTable::new(b_clone, b_wake_by_ref, b_wake_by_ref, b_drop);
static O_VT: RawWakerVTable = RawWakerVTable::new(o_clone, o_wake, o_wake_by_ref, o_drop);
unsafe fn b_clone(p: *const ()) -> RawWaker {
    let b = &*(p as *const BorrowedW);
    RawWaker::new(Arc::into_raw(b.inner.clone()) as *const (), &O_VT)
}
unsafe fn b_wake_by_ref(p: *const ()) {
    Wake::wake_by_ref(&(*(p as *const BorrowedW)).inner)
}
unsafe fn b_drop(_: *const ()) {}
unsafe fn o_clone(p: *const ()) -> RawWaker {
    Arc::increment_strong_count(p as *const CountingWaker);
    RawWaker::new(p, &O_VT)
}
unsafe fn o_wake(p: *const ()) {
    Wake::wake(Arc::from_raw(p as *const CountingWaker))
}
unsafe fn o_wake_by_ref(p: *const ()) {
    let a = std::mem::ManuallyDrop::new(Arc::from_raw(p as *const CountingWaker));
    Wake::wake_by_ref(&*a)
}
unsafe fn o_drop(p: *const ()) {
    drop(Arc::from_raw(p as *const CountingWaker))
}

// ---- a caller waker whose DATA POINTER IS NULL: an executor that keeps its state in statics (single task, embedded).  A
// valid RawWaker; its clone / wake / drop functions are as real as anyone's (here they count on the first original) ----
static S_ORIG: AtomicUsize = AtomicUsize::new(0);
static S_VT: RawWakerVTable = RawWakerVTable::new(s_clone, s_wake, s_wake_by_ref, s_drop);
static WORLD_NO: AtomicUsize = AtomicUsize::new(0);
unsafe fn s_ptr() -> *const CountingWaker {
    S_ORIG.load(SeqCst) as *const CountingWaker
}
unsafe fn s_clone(_: *const ()) -> RawWaker {
    Arc::increment_strong_count(s_ptr());
    RawWaker::new(std::ptr::null(), &S_VT)
}
unsafe fn s_wake(_: *const ()) {
    Wake::wake(Arc::from_raw(s_ptr()))
}
unsafe fn s_wake_by_ref(_: *const ()) {
    let a = std::mem::ManuallyDrop::new(Arc::from_raw(s_ptr()));
    Wake::wake_by_ref(&*a)
}
unsafe fn s_drop(_: *const ()) {
    drop(Arc::from_raw(s_ptr()))
}

type Reply = Result<(), String>;

struct Chan {
    rx: Mutex<Receiver<Option<Value>>>,
    tx: Mutex<Sender<Reply>>,
}

struct Shared {
    table: Mutex<Vec<Option<Waker>>>,
    /// record (Waker::data()) of a handle that is carrying a by-value wake right now
    inflight: Mutex<Vec<usize>>,
    recs: Mutex<Vec<usize>>,
    in_poll: AtomicBool,
    /// command / reply channel of every thread; [0] is the polling thread
    chans: Vec<Chan>,
}

/// Operations on foreign wakers; executed on whichever thread the spec names.
fn exec_f(sh: &Shared, e: &Value) -> Reply {
    let op = e["op"].as_str().unwrap();
    let w = e["w"].as_u64().unwrap_or(1) as usize - 1;
    if op == "FWakeBegin" {
        // the handle leaves the table; the table is not locked while the original's wake function runs
        let wk = sh.table.lock().unwrap()[w].take().ok_or("wake of empty slot")?;
        sh.inflight.lock().unwrap()[w] = wk.data() as usize;
        HOLD.with(|h| h.set(true));
        ledger::track(|| wk.wake());
        sh.inflight.lock().unwrap()[w] = 0;
        if HOLD.with(|h| h.replace(false)) {
            return Err("by-value wake returned without waking the original".into());
        }
        return Ok(()); // this is the ack of FWakeEnd
    }
    let mut t = sh.table.lock().unwrap();
    ledger::track(|| match op {
        "FClone" => {
            let d = e["d"].as_u64().unwrap() as usize - 1;
            let c = t[w].as_ref().ok_or("clone of empty slot")?.clone();
            t[d] = Some(c);
            Ok(())
        }
        "FWake" => {
            t[w].take().ok_or("wake of empty slot")?.wake();
            Ok(())
        }
        "FWakeByRef" => {
            t[w].as_ref().ok_or("wake_by_ref of empty slot")?.wake_by_ref();
            Ok(())
        }
        "FDrop" => {
            let h = t[w].take().ok_or("drop of empty slot")?;
            if e["how"] == "unwind" {
                // dropped by a thread that is unwinding from a panic (caught here)
                let r = std::panic::catch_unwind(std::panic::AssertUnwindSafe(move || {
                    let _h = h;
                    std::panic::resume_unwind(Box::new(0u8)); // a panic in flight, without the hook's message
                }));
                debug_assert!(r.is_err());
            } else {
                drop(h);
            }
            Ok(())
        }
        "Give" => Ok(()),
        _ => Err(format!("unknown op {}", op)),
    })
}

/// The body of every scripted poll: acknowledge entry, then execute commands until PollEnd.
fn scripted(cx: &mut Context<'_>, sh: &Shared) {
    sh.in_poll.store(true, SeqCst);
    let _ = sh.chans[0].tx.lock().unwrap().send(Ok(())); // ack PollBegin: we are inside the callee
    loop {
        let cmd = sh.chans[0].rx.lock().unwrap().recv();
        let e = match cmd {
            Ok(Some(e)) => e,
            _ => break,
        };
        let r: Reply = match e["op"].as_str().unwrap() {
            "PollEnd" => break, // acked by the worker once the opaque call has returned
            "ViewClone" => {
                let w = e["w"].as_u64().unwrap() as usize - 1;
                let c = ledger::track(|| cx.waker().clone());
                sh.table.lock().unwrap()[w] = Some(c);
                Ok(())
            }
            "ViewWakeByRef" => {
                ledger::track(|| cx.waker().wake_by_ref());
                Ok(())
            }
            _ => exec_f(sh, &e),
        };
        let _ = sh.chans[0].tx.lock().unwrap().send(r);
    }
    sh.in_poll.store(false, SeqCst);
}

struct ScriptFut(Arc<Shared>);
impl Future for ScriptFut {
    type Output = u32;
    fn poll(self: Pin<&mut Self>, cx: &mut Context<'_>) -> Poll<u32> {
        scripted(cx, &self.0);
        Poll::Pending
    }
}
struct ScriptStream(Arc<Shared>);
impl futures::Stream for ScriptStream {
    type Item = u32;
    fn poll_next(self: Pin<&mut Self>, cx: &mut Context<'_>) -> Poll<Option<u32>> {
        scripted(cx, &self.0);
        Poll::Pending
    }
}
struct ScriptSink(Arc<Shared>, usize);
impl futures::Sink<u32> for ScriptSink {
    type Error = u32;
    fn poll_ready(self: Pin<&mut Self>, cx: &mut Context<'_>) -> Poll<Result<(), u32>> {
        scripted(cx, &self.0);
        Poll::Pending
    }
    fn start_send(self: Pin<&mut Self>, _item: u32) -> Result<(), u32> {
        Ok(())
    }
    fn poll_flush(self: Pin<&mut Self>, cx: &mut Context<'_>) -> Poll<Result<(), u32>> {
        scripted(cx, &self.0);
        Poll::Pending
    }
    fn poll_close(self: Pin<&mut Self>, cx: &mut Context<'_>) -> Poll<Result<(), u32>> {
        scripted(cx, &self.0);
        Poll::Pending
    }
}

enum Obj {
    Fut(cglue::ext::core::future::FutureBox<'static, u32>),
    Stream(cglue::ext::futures::stream::StreamBox<'static, u32>),
    Sink(cglue::ext::futures::sink::SinkBox<'static, u32, u32>, usize),
}
unsafe impl Send for Obj {}

struct Worker {
    tx: Sender<Option<Value>>,
    rx: Receiver<Reply>,
    handle: Option<std::thread::JoinHandle<()>>,
}

pub struct World {
    sh: Arc<Shared>,
    origs: Vec<Arc<CountingWaker>>,
    _extras: Vec<Arc<CountingWaker>>,
    bases: Vec<usize>,
    workers: Vec<Worker>,
    nfw: usize,
    /// by-value wakes in progress per thread (slots), innermost last
    stacks: Vec<Vec<usize>>,
}

impl World {
    pub fn new(nfw: usize, nthreads: usize, flavour: &str) -> Self {
        let origs: Vec<Arc<CountingWaker>> = (0..NORIG).map(|_| Arc::new(CountingWaker { wakes: AtomicUsize::new(0) })).collect();
        // extra references: a double release then shows as a *count*, not as a use after free
        let extras: Vec<_> = (0..64 * NORIG).map(|i| origs[i % NORIG].clone()).collect();
        let mut chans = vec![];
        let mut ends = vec![];
        for _ in 0..nthreads.max(1) {
            let (tx, wrx) = channel::<Option<Value>>();
            let (wtx, rx) = channel::<Reply>();
            chans.push(Chan { rx: Mutex::new(wrx), tx: Mutex::new(wtx) });
            ends.push((tx, rx));
        }
        let sh = Arc::new(Shared {
            table: Mutex::new((0..nfw).map(|_| None).collect()),
            inflight: Mutex::new(vec![0; nfw]),
            recs: Mutex::new(vec![]),
            in_poll: AtomicBool::new(false),
            chans,
        });
        *CURRENT.lock().unwrap() = Some(sh.clone());
        let mut ends = ends.into_iter();
        let (tx1, rx1) = ends.next().unwrap();
        let mut workers = vec![];
        // thread 1: the poller
        {
            let sh2 = sh.clone();
            // the first caller waker is an ordinary Arc waker - in every other world one with a null data pointer whose
            // state lives in a static -, the second a borrowed view of one
            let null_data = WORLD_NO.fetch_add(1, SeqCst) % 2 == 1;
            S_ORIG.store(Arc::as_ptr(&origs[0]) as usize, SeqCst);
            let caller_wakers: Vec<Waker> = origs
                .iter()
                .enumerate()
                .map(|(i, o)| {
                    if i == 0 && null_data {
                        unsafe {
                            Arc::increment_strong_count(Arc::as_ptr(o));
                            Waker::from_raw(RawWaker::new(std::ptr::null(), &S_VT))
                        }
                    } else if i == 1 {
                        let b: &'static BorrowedW = Box::leak(Box::new(BorrowedW { inner: o.clone() }));
                        unsafe { Waker::from_raw(RawWaker::new(b as *const BorrowedW as *const (), &B_VT)) }
                    } else {
                        Waker::from(o.clone())
                    }
                })
                .collect();
            let mut obj = match flavour {
                "future" => Obj::Fut(trait_obj!(ScriptFut(sh.clone()) as Future)),
                "stream" => Obj::Stream(trait_obj!(ScriptStream(sh.clone()) as Stream)),
                _ => Obj::Sink(trait_obj!(ScriptSink(sh.clone(), 0) as Sink), 0),
            };
            let handle = std::thread::spawn(move || {
                loop {
                    let cmd = sh2.chans[0].rx.lock().unwrap().recv();
                    let e = match cmd {
                        Ok(Some(e)) => e,
                        _ => break,
                    };
                    if e["op"] == "PollBegin" {
                        // successive polls may come with different wakers
                        let which = e["o"].as_u64().unwrap_or(1) as usize - 1;
                        let mut cx = Context::from_waker(&caller_wakers[which]);
                        // the scripted body acks PollBegin from inside and returns on PollEnd
                        let r = vkit::catch(|| match &mut obj {
                            Obj::Fut(o) => {
                                let _ = Pin::new(o).poll(&mut cx);
                            }
                            Obj::Stream(o) => {
                                let _ = futures::Stream::poll_next(Pin::new(o), &mut cx);
                            }
                            Obj::Sink(o, n) => {
                                *n += 1;
                                let _ = match *n % 3 {
                                    0 => futures::Sink::poll_ready(Pin::new(o), &mut cx),
                                    1 => futures::Sink::poll_flush(Pin::new(o), &mut cx),
                                    _ => futures::Sink::poll_close(Pin::new(o), &mut cx),
                                };
                            }
                        });
                        sh2.in_poll.store(false, SeqCst);
                        let _ = sh2.chans[0].tx.lock().unwrap().send(r.map_err(|m| format!("panic in poll: {}", m)));
                    } else {
                        let r = vkit::catch(|| exec_f(&sh2, &e)).unwrap_or_else(|m| Err(format!("panic: {}", m)));
                        let _ = sh2.chans[0].tx.lock().unwrap().send(r);
                    }
                }
                drop(obj);
                drop(caller_wakers);
            });
            workers.push(Worker { tx: tx1, rx: rx1, handle: Some(handle) });
        }
        for k in 1..nthreads {
            let (tx, rx) = ends.next().unwrap();
            let sh2 = sh.clone();
            let handle = std::thread::spawn(move || {
                MY_CHAN.with(|c| c.set(k));
                loop {
                    let cmd = sh2.chans[k].rx.lock().unwrap().recv();
                    let e = match cmd {
                        Ok(Some(e)) => e,
                        _ => break,
                    };
                    let r = vkit::catch(|| exec_f(&sh2, &e)).unwrap_or_else(|m| Err(format!("panic: {}", m)));
                    if sh2.chans[k].tx.lock().unwrap().send(r).is_err() {
                        break;
                    }
                }
            });
            workers.push(Worker { tx, rx, handle: Some(handle) });
        }
        let bases: Vec<usize> = origs.iter().map(Arc::strong_count).collect();
        for (i, o) in origs.iter().enumerate() {
            ORIG_ADDR[i].store(Arc::as_ptr(o) as usize, SeqCst);
        }
        World { sh, origs, _extras: extras, bases, workers, nfw, stacks: vec![vec![]; nthreads.max(1)] }
    }

    pub fn apply(&mut self, e: &Value) -> Reply {
        let op = e["op"].as_str().unwrap();
        let t = match op {
            "PollBegin" | "PollEnd" | "ViewClone" | "ViewWakeByRef" => 0,
            _ => e["t"].as_u64().unwrap() as usize - 1,
        };
        SEEN_AT_WAKE.store(usize::MAX, SeqCst);
        match op {
            "FWakeBegin" => self.stacks[t].push(e["w"].as_u64().unwrap() as usize - 1),
            "FWakeEnd" => {
                if self.stacks[t].pop().is_none() {
                    return Err("FWakeEnd without a wake in progress".into());
                }
            }
            _ => {}
        }
        self.workers[t].tx.send(Some(e.clone())).unwrap();
        let r = self.workers[t].rx.recv().unwrap_or_else(|_| Err("worker died".into()));
        if r.is_err() && op == "FWakeBegin" {
            self.stacks[t].pop(); // wake() returned without holding: nothing is in progress
        }
        r
    }

    pub fn proj(&self) -> Value {
        let t = self.sh.table.lock().unwrap();
        let infl = self.sh.inflight.lock().unwrap();
        let mut recs = self.sh.recs.lock().unwrap();
        let fw: Vec<usize> = t
            .iter()
            .enumerate()
            .map(|(i, w)| match (w, infl[i]) {
                (None, 0) => 0,
                (w, p0) => {
                    let p = w.as_ref().map(|w| w.data() as usize).unwrap_or(p0);
                    match recs.iter().position(|&x| x == p) {
                        Some(i) => i + 1,
                        None => {
                            recs.push(p);
                            recs.len()
                        }
                    }
                }
            })
            .collect();
        let seen = match SEEN_AT_WAKE.load(SeqCst) {
            usize::MAX => -1,
            n => n as i64 - self.bases[SEEN_WHICH.load(SeqCst)] as i64,
        };
        let ocount: Vec<i64> = (0..NORIG).map(|o| Arc::strong_count(&self.origs[o]) as i64 - self.bases[o] as i64).collect();
        let owakes: Vec<usize> = self.origs.iter().map(|o| o.wakes.load(SeqCst)).collect();
        json!({"ocount": ocount,
               "seen": seen,
               "owakes": owakes,
               "inPoll": self.sh.in_poll.load(SeqCst),
               "fw": fw})
    }

    pub fn occupied(&self) -> Vec<bool> {
        let infl = self.sh.inflight.lock().unwrap();
        self.sh.table.lock().unwrap().iter().enumerate().map(|(i, w)| w.is_some() || infl[i] != 0).collect()
    }
    pub fn in_flight(&self, w: usize) -> bool {
        self.sh.inflight.lock().unwrap()[w] != 0
    }

    pub fn teardown(mut self, base: ledger::Snap) -> Option<String> {
        for t in 0..self.stacks.len() {
            while !self.stacks[t].is_empty() {
                let _ = self.apply(&json!({"op":"FWakeEnd","t":t+1}));
            }
        }
        if self.sh.in_poll.load(SeqCst) {
            let _ = self.apply(&json!({"op":"PollEnd"}));
        }
        for w in 0..self.nfw {
            if self.sh.table.lock().unwrap()[w].is_some() {
                let _ = self.apply(&json!({"op":"FDrop","t":1,"w":w+1,"how":"plain"}));
            }
        }
        let counts_after: Vec<usize> = self.origs.iter().map(Arc::strong_count).collect();
        for w in self.workers.iter_mut() {
            let _ = w.tx.send(None);
            if let Some(h) = w.handle.take() {
                let _ = h.join();
            }
        }
        if counts_after != self.bases {
            // the reference count is off: letting the remaining references go would free the
            // waker too early (or never); keep the evidence, leak the rest
            let extras = std::mem::take(&mut self._extras);
            std::mem::forget(extras);
            for o in &self.origs {
                std::mem::forget(o.clone());
                std::mem::forget(o.clone());
            }
            return Some(format!(
                "original wakers' reference counts are {:?} after every foreign waker is gone (base {:?})",
                counts_after, self.bases
            ));
        }
        let s = ledger::snap();
        if s.live != base.live {
            return Some(format!("leak: {} tracked allocations live at quiescence (base {})", s.live, base.live));
        }
        if s.anomalies != base.anomalies {
            return Some(format!("allocator anomalies: {:?}", ledger::anomalies_since(base.anomalies)));
        }
        None
    }
}

fn replay(lines: &[String], nfw: usize, nthreads: usize, flavour: &str) -> (usize, Vec<Value>) {
    let mut failures = vec![];
    let mut steps = 0;
    for (bi, line) in lines.iter().enumerate() {
        vkit::mark(bi);
        let beh: Value = serde_json::from_str(line).expect("behaviour json");
        let base = ledger::snap();
        let mut w = World::new(nfw, nthreads, flavour);
        let mut failed = None;
        for (si, st) in beh.as_array().unwrap().iter().enumerate() {
            steps += 1;
            if let Err(m) = w.apply(&st["a"]) {
                failed = Some((si, format!("operation failed: {}", m)));
                break;
            }
            let got = w.proj();
            if got != st["exp"] {
                failed = Some((si, format!("projection differs: got {} expected {}", got, st["exp"])));
                break;
            }
        }
        let td = w.teardown(base);
        if failed.is_none() {
            if let Some(m) = td {
                failed = Some((beh.as_array().unwrap().len(), m));
            }
        }
        if let Some((si, msg)) = failed {
            failures.push(json!({"behaviour": bi, "step": si, "msg": msg, "beh": beh, "flavour": flavour}));
            if failures.len() >= 20 {
                break;
            }
        }
    }
    (steps, failures)
}

fn trace(out: &str, seed: u64, events: usize, nfw: usize, nthreads: usize) {
    let mut log = vkit::NdJson::create(out);
    let mut rng = vkit::rng::Rng::new(seed);
    let mut emitted = 0;
    let flavours = ["future", "stream", "sink"];
    let mut round = 0;
    while emitted < events {
        let base = ledger::snap();
        let mut w = World::new(nfw, nthreads, flavours[round % 3]);
        round += 1;
        let mut own = vec![1usize; nfw];
        let mut nrec = 0;
        let mut in_poll = false;
        let mut stacks: Vec<Vec<usize>> = vec![vec![]; nthreads];
        log.emit(&json!({"op":"reset"}));
        emitted += 1;
        let run = 30 + rng.below(100);
        for _ in 0..run {
            let occ = w.occupied();
            let free: Vec<usize> = (0..nfw).filter(|&i| !occ[i]).collect();
            let used: Vec<usize> = (0..nfw).filter(|&i| occ[i] && !w.in_flight(i)).collect();
            let mut cand: Vec<Value> = vec![];
            // a by-value wake in progress on a thread ends (innermost first); the polling thread does nothing else with
            // the poll itself while its wake function is running
            for (t, st) in stacks.iter().enumerate() {
                if !st.is_empty() {
                    cand.push(json!({"op":"FWakeEnd","t":t+1}));
                }
            }
            if !stacks[0].is_empty() {
            } else if in_poll {
                cand.push(json!({"op":"PollEnd"}));
                cand.push(json!({"op":"ViewWakeByRef"}));
                if let Some(&d) = free.first() {
                    if nrec < 22 {
                        cand.push(json!({"op":"ViewClone","w":d+1}));
                        cand.push(json!({"op":"ViewClone","w":d+1}));
                    }
                }
            } else {
                cand.push(json!({"op":"PollBegin","o": 1 + rng.below(NORIG)}));
            }
            for _ in 0..3 {
                if used.is_empty() {
                    break;
                }
                let s = *rng.pick(&used);
                let t = own[s];
                let mut c = vec![
                    json!({"op":"FDrop","t":t,"w":s+1,"how": if rng.chance(1, 3) { "unwind" } else { "plain" }}),
                    json!({"op":"FWake","t":t,"w":s+1}),
                    json!({"op":"FWakeByRef","t":t,"w":s+1}),
                ];
                if stacks[t - 1].len() < 2 {
                    c.push(json!({"op":"FWakeBegin","t":t,"w":s+1}));
                }
                if let Some(&d) = free.first() {
                    c.push(json!({"op":"FClone","t":t,"w":s+1,"d":d+1}));
                    c.push(json!({"op":"FClone","t":t,"w":s+1,"d":d+1}));
                }
                if nthreads > 1 {
                    let mut u = 1 + rng.below(nthreads);
                    if u == t {
                        u = u % nthreads + 1;
                    }
                    c.push(json!({"op":"Give","t":t,"w":s+1,"u":u}));
                }
                cand.push(rng.pick(&c).clone());
            }
            let e = rng.pick(&cand).clone();
            match e["op"].as_str().unwrap() {
                "PollBegin" => in_poll = true,
                "PollEnd" => in_poll = false,
                "ViewClone" => {
                    nrec += 1;
                    own[e["w"].as_u64().unwrap() as usize - 1] = 1;
                }
                "FClone" => own[e["d"].as_u64().unwrap() as usize - 1] = e["t"].as_u64().unwrap() as usize,
                "Give" => own[e["w"].as_u64().unwrap() as usize - 1] = e["u"].as_u64().unwrap() as usize,
                "FWakeBegin" => stacks[e["t"].as_u64().unwrap() as usize - 1].push(e["w"].as_u64().unwrap() as usize - 1),
                "FWakeEnd" => {
                    stacks[e["t"].as_u64().unwrap() as usize - 1].pop();
                }
                _ => {}
            }
            let r = w.apply(&e);
            let mut ev = e.clone();
            let o = ev.as_object_mut().unwrap();
            o.insert("proj".into(), w.proj());
            o.insert("ok".into(), json!(r.is_ok()));
            log.emit(&ev);
            emitted += 1;
        }
        for t in 0..nthreads {
            while stacks[t].pop().is_some() {
                let e = json!({"op":"FWakeEnd","t":t+1});
                let _ = w.apply(&e);
                let mut ev = e.clone();
                ev.as_object_mut().unwrap().insert("proj".into(), w.proj());
                log.emit(&ev);
                emitted += 1;
            }
        }
        if in_poll {
            let e = json!({"op":"PollEnd"});
            let _ = w.apply(&e);
            let mut ev = e.clone();
            ev.as_object_mut().unwrap().insert("proj".into(), w.proj());
            log.emit(&ev);
            emitted += 1;
        }
        for s in 0..nfw {
            if w.occupied()[s] {
                let e = json!({"op":"FDrop","t":own[s],"w":s+1,"how":"plain"});
                let _ = w.apply(&e);
                let mut ev = e.clone();
                ev.as_object_mut().unwrap().insert("proj".into(), w.proj());
                log.emit(&ev);
                emitted += 1;
            }
        }
        let td = w.teardown(base);
        log.emit(&json!({"op":"quiescent","ok": td.is_none(), "msg": td.unwrap_or_default()}));
        emitted += 1;
    }
    log.flush();
    println!("{}", json!({"summary":"trace","events":emitted}));
}

pub fn main(args: &[String]) {
    let mode = args[0].as_str();
    let path = args.get(1).cloned().unwrap_or_default();
    let geti = |f: &str, d: usize| vkit::arg_after(args, f).map(|s| s.parse().unwrap()).unwrap_or(d);
    let (nfw, nthreads) = (geti("--fw", 3), geti("--threads", 2));
    let flavour = vkit::arg_after(args, "--flavour").unwrap_or_else(|| "future".into());
    match mode {
        "replay" => {
            let lines = vkit::read_lines(&path);
            let (steps, failures) = replay(&lines, nfw, nthreads, &flavour);
            vkit::summary("waker-replay", lines.len(), steps, &failures, json!({"flavour": flavour}));
        }
        "trace" => trace(&path, geti("--seed", 1) as u64, geti("--events", 1000), nfw, nthreads),
        _ => {
            eprintln!("TOOL-ERROR mode");
            std::process::exit(2)
        }
    }
}
