//! Adapter for spec/Feed.tla (OpaqueCallback / FeedCallback / FromExtend / CIterator).

use cglue::callback::{FeedCallback, FromExtend, OpaqueCallback};
use cglue::iter::CIterator;
use std::collections::VecDeque;
use vkit::payload::{self, Heavy};
use vkit::{json, ledger, Value};

/// what a stopping callback writes to
struct CState {
    stop: usize,
    calls: usize,
    got: Vec<Heavy>,
}
extern "C" fn cfn(c: &mut CState, x: Heavy) -> bool {
    c.calls += 1;
    c.got.push(x);
    !(c.stop > 0 && c.calls >= c.stop)
}
type DynF = Box<dyn FnMut(Heavy) -> bool>;

/// A stopping callback target.  The OpaqueCallback over it is made ONCE, when the sink is made, and the same callback
/// object is then lent to every feed that takes it by reference (feed_into_mut, Extend): a callback that has asked
/// one feed to stop is invoked again by the next feed (Feed!Offered).  Only feed_into, which consumes its callback,
/// gets a fresh one over the same state.
struct ClosureSink {
    cb: OpaqueCallback<'static, Heavy>,
    _f: Option<Box<DynF>>,
    st: Box<CState>,
}
impl ClosureSink {
    fn new(stop: usize) -> Self {
        let mut st = Box::new(CState { stop, calls: 0, got: vec![] });
        let p: *mut CState = &mut *st;
        if (stop + payload::next_id()) % 2 == 1 {
            // a C-style callback: explicit context + extern "C" function (Callback::new, From<Callback> for OpaqueCallback)
            let cb = cglue::callback::Callback::new(unsafe { &mut *p }, cfn).into();
            ClosureSink { cb, _f: None, st }
        } else {
            let mut f: Box<DynF> = Box::new(Box::new(move |x: Heavy| cfn(unsafe { &mut *p }, x)));
            let pf: *mut DynF = &mut *f;
            let cb = (unsafe { &mut *pf }).into();
            ClosureSink { cb, _f: Some(f), st }
        }
    }
}

enum Sink {
    None,
    Closure(ClosureSink),
    Vec { calls_unknown: (), got: Vec<Heavy> },
    Extend { got: VecDeque<Heavy> },
}

/// The source: an iterator that is NOT fused - it polls a queue, reports the end when the queue is empty and yields
/// again once the queue has been refilled (Feed!Refill), like a channel's `try_iter` or `iter::from_fn` over shared state.
type Queue = std::rc::Rc<std::cell::RefCell<VecDeque<Heavy>>>;
struct QSrc(Queue);
impl Iterator for QSrc {
    type Item = Heavy;
    fn next(&mut self) -> Option<Heavy> {
        self.0.borrow_mut().pop_front()
    }
}

struct World {
    src: Option<Box<QSrc>>,
    /// the producer's end of the queue (items still in it die with the last handle)
    q: Option<Queue>,
    wrapper: Option<CIterator<'static, Heavy>>,
    sink: Sink,
    /// number of items delivered to the sink in total (for Vec/Extend = len)
    last: Value,
    base: ledger::Snap,
}

fn ids<'a>(it: impl Iterator<Item = &'a Heavy>) -> Vec<usize> {
    it.map(|h| {
        h.check();
        h.id as usize
    })
    .collect()
}

impl World {
    fn new() -> Self {
        payload::reset_ids();
        World { src: None, q: None, wrapper: None, sink: Sink::None, last: json!({"kind":"init","n":0}), base: ledger::snap() }
    }

    fn feed<I: Iterator<Item = Heavy>>(sink: &mut Sink, items: I, via: &str) -> Option<usize> {
        // build the opaque callback exactly the way a user would for this kind of target
        macro_rules! run {
            ($cb:expr) => {{
                let mut cb: OpaqueCallback<Heavy> = $cb;
                match via {
                    "feed_into" => Some(items.feed_into(cb)),
                    "feed_into_mut" => Some(items.feed_into_mut(&mut cb)),
                    _ => {
                        cb.extend(items);
                        None
                    }
                }
            }};
        }
        match sink {
            Sink::Closure(c) => match via {
                "feed_into" => {
                    let p: *mut CState = &mut *c.st;
                    Some(items.feed_into(cglue::callback::Callback::new(unsafe { &mut *p }, cfn).into()))
                }
                "feed_into_mut" => Some(items.feed_into_mut(&mut c.cb)),
                _ => {
                    c.cb.extend(items);
                    None
                }
            },
            Sink::Vec { got, .. } => run!(got.into()),
            Sink::Extend { got } => run!(got.from_extend()),
            Sink::None => unreachable!(),
        }
    }

    fn apply(&mut self, e: &Value) {
        let op = e["op"].as_str().unwrap();
        let ok = json!({"kind":"ok","n":0});
        match op {
            "NewSrc" => {
                let n = e["n"].as_u64().unwrap() as usize;
                let id0 = payload::next_id();
                let old = (self.src.take(), self.q.take());
                ledger::track(|| drop(old));
                let (it, q) = ledger::track(|| {
                    let v: VecDeque<Heavy> = (0..n).map(|i| Heavy::new(id0 + i, (id0 + i) as i64)).collect();
                    let q: Queue = std::rc::Rc::new(std::cell::RefCell::new(v));
                    (Box::new(QSrc(q.clone())), q)
                });
                self.src = Some(it);
                self.q = Some(q);
                self.last = ok;
            }
            "Refill" => {
                // the producer pushes more items; an iterator (wrapped or not) that has already reported the end yields again
                let n = e["n"].as_u64().unwrap() as usize;
                let id0 = payload::next_id();
                let q = self.q.as_ref().unwrap().clone();
                ledger::track(|| {
                    for i in 0..n {
                        q.borrow_mut().push_back(Heavy::new(id0 + i, (id0 + i) as i64));
                    }
                });
                self.last = ok;
            }
            "NewSink" => {
                let old = std::mem::replace(&mut self.sink, Sink::None);
                ledger::track(|| drop(old));
                let stop = e["stop"].as_u64().unwrap() as usize;
                self.sink = match e["kind"].as_str().unwrap() {
                    "closure" => ledger::track(|| Sink::Closure(ClosureSink::new(stop))),
                    "vec" => Sink::Vec { calls_unknown: (), got: ledger::track(|| Vec::with_capacity(stop)) },
                    _ => Sink::Extend { got: VecDeque::new() },
                };
                self.last = ok;
            }
            "Feed" => {
                let via = e["via"].as_str().unwrap();
                let it = *self.src.take().unwrap();
                let sink = &mut self.sink;
                let q = self.q.take();
                let r = ledger::track(|| {
                    let r = World::feed(sink, it, via);
                    drop(q); // the consumed source was the last user of the queue
                    r
                });
                self.last = match r {
                    Some(n) => json!({"kind":"count","n":n}),
                    None => ok,
                };
            }
            "FeedRef" => {
                // the source is lent, not given: what was not offered must still be in it afterwards
                let via = if e["via"] == "extend_ref" { "extend" } else if payload::next_id() % 2 == 0 { "feed_into_mut" } else { "feed_into" };
                let it: &mut QSrc = &mut **self.src.as_mut().unwrap();
                let sink = &mut self.sink;
                let r = ledger::track(|| World::feed(sink, it, via));
                self.last = match r {
                    Some(n) => json!({"kind":"count","n":n}),
                    None => ok,
                };
            }
            "Wrap" => {
                let p: *mut QSrc = &mut **self.src.as_mut().unwrap();
                // the borrow is kept alive by discipline: the source is not touched while wrapped (the queue behind it may be)
                let it: &'static mut QSrc = unsafe { &mut *p };
                self.wrapper = Some(match payload::next_id() % 3 {
                    0 => CIterator::new(it),
                    1 => it.into(),
                    _ => cglue::iter::AsCIterator::as_citer(it),
                });
                self.last = ok;
            }
            "DropWrap" => {
                let w = self.wrapper.take();
                ledger::track(|| drop(w));
                self.last = ok;
            }
            "Next" => {
                let r = if e["through"] == "wrapper" {
                    let w = self.wrapper.as_mut().unwrap();
                    ledger::track(|| w.next())
                } else {
                    let s = self.src.as_mut().unwrap();
                    ledger::track(|| s.next())
                };
                self.last = match r {
                    None => json!({"kind":"end","n":0}),
                    Some(h) => {
                        h.check();
                        let id = h.id;
                        ledger::track(|| drop(h));
                        json!({"kind":"item","n":id})
                    }
                };
            }
            "FeedWrapped" => {
                let w = self.wrapper.take().unwrap();
                let sink = &mut self.sink;
                let r = ledger::track(|| World::feed(sink, w, "feed_into"));
                self.last = json!({"kind":"count","n":r.unwrap()});
            }
            _ => {
                eprintln!("TOOL-ERROR unknown op {}", op);
                std::process::exit(2);
            }
        }
    }

    fn proj(&self) -> Value {
        let src = self.src.as_ref().map(|s| ids(s.0.borrow().iter())).unwrap_or_default();
        let (got, calls) = match &self.sink {
            Sink::None => (vec![], 0),
            Sink::Closure(c) => (ids(c.st.got.iter()), c.st.calls),
            Sink::Vec { got, .. } => (ids(got.iter()), got.len()),
            Sink::Extend { got } => (ids(got.iter()), got.len()),
        };
        let drops: Vec<u32> = (1..payload::next_id()).map(payload::drops).collect();
        json!({"src": src, "hasSrc": self.src.is_some(), "wrapped": self.wrapper.is_some(),
               "got": got, "calls": calls, "drops": drops, "last": self.last})
    }

    fn teardown(mut self) -> Option<String> {
        self.wrapper = None;
        let (s, q, k) = (self.src.take(), self.q.take(), std::mem::replace(&mut self.sink, Sink::None));
        ledger::track(|| {
            drop(s);
            drop(q);
            drop(k)
        });
        for (id, d) in payload::drop_table() {
            if d != 1 {
                return Some(format!("item {} dropped {} times at quiescence", id, d));
            }
        }
        let s = ledger::snap();
        if s.live != self.base.live {
            return Some(format!("leak: {} blocks live at quiescence", s.live as i64 - self.base.live as i64));
        }
        if s.anomalies != self.base.anomalies {
            return Some(format!("allocator anomalies: {:?}", ledger::anomalies_since(self.base.anomalies)));
        }
        if payload::use_after_drop() > 0 {
            return Some("use after drop observed".into());
        }
        None
    }
}

fn replay(lines: &[String]) -> (usize, Vec<Value>) {
    let mut failures = vec![];
    let mut steps = 0;
    for (bi, line) in lines.iter().enumerate() {
        vkit::mark(bi);
        let beh: Value = serde_json::from_str(line).expect("behaviour json");
        let mut w = World::new();
        let mut failed = None;
        for (si, st) in beh.as_array().unwrap().iter().enumerate() {
            steps += 1;
            w.apply(&st["a"]);
            let got = w.proj();
            if got != st["exp"] {
                failed = Some((si, format!("projection differs: got {} expected {}", got, st["exp"])));
                break;
            }
        }
        let td = w.teardown();
        if failed.is_none() {
            if let Some(m) = td {
                failed = Some((beh.as_array().unwrap().len(), m));
            }
        }
        if let Some((si, msg)) = failed {
            failures.push(json!({"behaviour": bi, "step": si, "msg": msg, "beh": beh}));
            if failures.len() >= 20 {
                break;
            }
        }
    }
    (steps, failures)
}

fn trace(out: &str, seed: u64, events: usize) {
    let mut log = vkit::NdJson::create(out);
    let mut rng = vkit::rng::Rng::new(seed);
    let mut emitted = 0;
    while emitted < events {
        let mut w = World::new();
        log.emit(&json!({"op":"reset"}));
        emitted += 1;
        for _ in 0..(20 + rng.below(40)) {
            if payload::next_id() > 100 {
                break;
            }
            let has_sink = !matches!(w.sink, Sink::None);
            let mut cand = vec![];
            if w.wrapper.is_none() {
                cand.push(json!({"op":"NewSrc","n":rng.below(6)}));
            }
            cand.push(match rng.below(3) {
                0 => json!({"op":"NewSink","kind":"closure","stop":rng.below(6)}),
                1 => json!({"op":"NewSink","kind":"vec","stop":rng.below(7)}),
                _ => json!({"op":"NewSink","kind":"extend","stop":0}),
            });
            if w.src.is_some() {
                cand.push(json!({"op":"Refill","n":1 + rng.below(3)}));
            }
            if w.src.is_some() && w.wrapper.is_none() {
                if has_sink {
                    cand.push(json!({"op":"Feed","via":*rng.pick(&["feed_into","feed_into_mut","extend"])}));
                    cand.push(json!({"op":"FeedRef","via":*rng.pick(&["feed_ref","extend_ref"])}));
                }
                cand.push(json!({"op":"Wrap"}));
                cand.push(json!({"op":"Next","through":"direct"}));
            }
            if w.wrapper.is_some() {
                cand.push(json!({"op":"Next","through":"wrapper"}));
                cand.push(json!({"op":"Next","through":"wrapper"}));
                cand.push(json!({"op":"DropWrap"}));
                if has_sink {
                    cand.push(json!({"op":"FeedWrapped"}));
                }
            }
            let e = rng.pick(&cand).clone();
            w.apply(&e);
            let mut ev = e.clone();
            ev.as_object_mut().unwrap().insert("proj".into(), w.proj());
            log.emit(&ev);
            emitted += 1;
        }
        let td = w.teardown();
        log.emit(&json!({"op":"quiescent","ok": td.is_none(), "msg": td.unwrap_or_default()}));
        emitted += 1;
    }
    log.flush();
    println!("{}", json!({"summary":"trace","events":emitted}));
}

pub fn main(args: &[String]) {
    let mode = args[0].as_str();
    let path = args.get(1).cloned().unwrap_or_default();
    let geti = |f: &str, d: usize| vkit::arg_after(args, f).map(|s| s.parse().unwrap()).unwrap_or(d);
    match mode {
        "replay" => {
            let lines = vkit::read_lines(&path);
            let (steps, failures) = replay(&lines);
            vkit::summary("feed-replay", lines.len(), steps, &failures, json!({}));
        }
        "trace" => trace(&path, geti("--seed", 1) as u64, geti("--events", 1000)),
        _ => {
            eprintln!("TOOL-ERROR mode");
            std::process::exit(2)
        }
    }
}
