//! Runtime adapters: execute specification actions on the real cglue runtime types and project
//! the real state back into the specification's observation format.
//!
//! usage: rt <module> replay <behaviours.jsonl> [--elem K] [--fail-out F]
//!        rt <module> trace  <out.ndjson> --seed S --events N [--elem K]

use vkit::ledger::Ledger;

#[global_allocator]
static GLOBAL: Ledger = Ledger;

mod arcad;
mod boxad;
mod cviewad;
mod cstrad;
mod feedad;
mod intresad;
mod objad;
mod vecad;
mod xmodad;
mod viewsad;
mod wakerad;

fn main() {
    let args: Vec<String> = std::env::args().collect();
    if args.len() < 3 {
        eprintln!("usage: rt <module> <replay|trace> ...");
        std::process::exit(2);
    }
    vkit::silence_panics();
    match args[1].as_str() {
        "vec" => vecad::main(&args[2..]),
        "arc" => arcad::plain::main(&args[2..]),
        "arc64" => arcad::over::main(&args[2..]),
        "arcpod" => arcad::nodrop::main(&args[2..]),
        "boxes" => boxad::main(&args[2..]),
        "xmod" => xmodad::main(&args[2..]),
        "cview" => cviewad::main(&args[2..]),
        "obj" => objad::main(&args[2..]),
        "views" => viewsad::main(&args[2..]),
        "intres" => intresad::main(&args[2..]),
        "feed" => feedad::main(&args[2..]),
        "cstr" => cstrad::main(&args[2..]),
        "waker" => wakerad::main(&args[2..]),
        m => {
            eprintln!("TOOL-ERROR unknown module {}", m);
            std::process::exit(2);
        }
    }
}
