//! Adapter for spec/Views.tla and spec/Utf8.tla (slice views, UTF-8 decision, COption/CResult/CTup).

use cglue::option::COption;
use cglue::result::CResult;
use cglue::slice::{CSliceMut, CSliceRef};
use cglue::tuple::{CTup1, CTup2, CTup3, CTup4};
use std::convert::TryFrom;
use vkit::payload::{self, Heavy};
use vkit::{json, ledger, Value};

pub trait El: Copy + PartialEq + 'static {
    const KIND: &'static str;
    fn from_val(v: u64) -> Self;
    fn val(&self) -> u64;
}
impl El for u8 {
    const KIND: &'static str = "u8";
    fn from_val(v: u64) -> Self { v as u8 }
    fn val(&self) -> u64 { *self as u64 }
}
impl El for u64 {
    const KIND: &'static str = "u64";
    fn from_val(v: u64) -> Self { v + (1 << 40) }
    fn val(&self) -> u64 { *self - (1 << 40) }
}
impl El for () {
    const KIND: &'static str = "zst";
    fn from_val(_: u64) -> Self {}
    fn val(&self) -> u64 { 0 }
}
#[derive(Clone, Copy, PartialEq)]
#[repr(C)]
pub struct P3([u8; 3]);
impl El for P3 {
    const KIND: &'static str = "p3";
    fn from_val(v: u64) -> Self { P3([v as u8, 0xEE, (v >> 8) as u8]) }
    fn val(&self) -> u64 { self.0[0] as u64 | ((self.0[2] as u64) << 8) }
}

enum View<T: 'static> {
    None,
    RustRef(&'static [T]),
    RustMut(&'static mut [T]),
    CRef(CSliceRef<'static, T>),
    CMut(CSliceMut<'static, T>),
}

enum Cell {
    None,
    Opt(Option<Heavy>),
    COpt(COption<Heavy>),
    Res(Result<Heavy, Heavy>),
    CRes(CResult<Heavy, Heavy>),
    T1((Heavy,)), C1(CTup1<Heavy>),
    T2((Tiny, Heavy)), C2(CTup2<Tiny, Heavy>),
    T3((Tiny, Mid, Heavy)), C3(CTup3<Tiny, Mid, Heavy>),
    T4((Mid, Heavy, Tiny, Heavy)), C4(CTup4<Mid, Heavy, Tiny, Heavy>),
}

struct World<T: El> {
    buf: Box<[T]>,
    view: View<T>,
    cell: Cell,
    last: Value,
    base: ledger::Snap,
    flip: usize,
}

/// payloads of other sizes and alignments, so that the fields of a tuple cell differ in size: the Rust tuple is then
/// laid out in an order of the compiler's choosing while the CTupN is in declaration order
struct Tiny(u8);
struct Mid(u16);
impl Tiny {
    fn new(id: usize) -> Self {
        assert!(id < 256);
        payload::note_created(id);
        Tiny(id as u8)
    }
}
impl Mid {
    fn new(id: usize) -> Self {
        payload::note_created(id);
        Mid(id as u16)
    }
}
impl Drop for Tiny {
    fn drop(&mut self) {
        payload::note_drop(self.0 as usize % payload::MAX_ID)
    }
}
impl Drop for Mid {
    fn drop(&mut self) {
        payload::note_drop(self.0 as usize % payload::MAX_ID)
    }
}
trait HasId {
    fn hid(&self) -> usize;
}
impl HasId for Heavy {
    fn hid(&self) -> usize {
        self.check();
        self.id as usize
    }
}
impl HasId for Tiny {
    fn hid(&self) -> usize {
        self.0 as usize
    }
}
impl HasId for Mid {
    fn hid(&self) -> usize {
        self.0 as usize
    }
}
fn hid<H: HasId>(h: &H) -> usize {
    h.hid()
}

impl<T: El> World<T> {
    fn new() -> Self {
        payload::reset_ids();
        World { buf: Vec::new().into_boxed_slice(), view: View::None, cell: Cell::None,
                last: json!({"kind":"init","n":0}), base: ledger::snap(), flip: 0 }
    }

    fn apply(&mut self, e: &Value) {
        let op = e["op"].as_str().unwrap();
        let ok = json!({"kind":"ok","n":0});
        self.flip += 1;
        match op {
            "NewBuf" => {
                self.view = View::None;
                let n = e["n"].as_u64().unwrap();
                self.buf = (1..=n).map(|k| T::from_val(10 + k)).collect::<Vec<_>>().into_boxed_slice();
                self.last = ok;
            }
            "MakeView" => {
                self.view = View::None;
                let (off, len) = (e["off"].as_u64().unwrap() as usize, e["len"].as_u64().unwrap() as usize);
                let p: *mut [T] = &mut self.buf[off..off + len];
                self.view = if e["mut"].as_bool().unwrap() {
                    View::CMut(CSliceMut::from(unsafe { &mut *p }))
                } else if self.flip % 2 == 0 {
                    View::CRef(CSliceRef::from(unsafe { &*p }))
                } else {
                    View::CRef(CSliceRef::from_slice(unsafe { &*p }))
                };
                self.last = ok;
            }
            "Convert" => {
                let how = e["how"].as_str().unwrap();
                let v = std::mem::replace(&mut self.view, View::None);
                // lifetimes are erased through raw pointers: the buffer outlives every view by construction
                fn ext<'a, T>(s: &'a [T]) -> &'static [T] { unsafe { &*(s as *const [T]) } }
                fn ext_mut<'a, T>(s: &'a mut [T]) -> &'static mut [T] { unsafe { &mut *(s as *mut [T]) } }
                self.view = match (v, how) {
                    (View::CRef(c), "as_slice") => View::RustRef(ext(c.as_slice())),
                    (View::CRef(c), "deref") => View::RustRef(ext(&*c)),
                    (View::CRef(c), "into_slice") => View::RustRef(<&[T]>::from(c)),
                    (View::CMut(c), "as_slice") => View::RustRef(ext(c.as_slice())),
                    (View::CMut(c), "deref") => View::RustRef(ext(&*c)),
                    (View::CMut(c), "into_slice") => View::RustRef(<&[T]>::from(c)),
                    (View::CMut(c), "mut_to_ref") => View::CRef(CSliceRef::from(&c)),
                    (View::CMut(mut c), "reborrow") => View::CMut(CSliceMut::from(&mut c)),
                    // the borrowing conversions leave the view they were applied to as it was: a second view is derived, read
                    // through and dropped; the original stays
                    (View::CMut(mut c), "reborrow_keep") => {
                        let (p0, n0) = (c.as_ptr() as usize, c.len());
                        {
                            let second = CSliceMut::from(&mut c);
                            if second.as_ptr() as usize != p0 || second.len() != n0 {
                                self.last = json!({"kind":"derived view differs","n":second.len()});
                                self.view = View::CMut(c);
                                return;
                            }
                        }
                        View::CMut(c)
                    }
                    (View::CMut(c), "ref_keep") => {
                        let ok2 = { let second = CSliceRef::from(&c); second.as_ptr() as usize == c.as_ptr() as usize && second.len() == c.len() };
                        if !ok2 {
                            self.last = json!({"kind":"derived view differs","n":0});
                            self.view = View::CMut(c);
                            return;
                        }
                        View::CMut(c)
                    }
                    (View::CRef(c), "ref_keep") | (View::CRef(c), "as_slice_keep") => {
                        let _n = c.as_slice().len();
                        View::CRef(c)
                    }
                    (View::CMut(c), "as_slice_keep") => {
                        let _n = c.as_slice().len();
                        View::CMut(c)
                    }
                    (View::CMut(mut c), "as_slice_mut_keep") => {
                        // (as_slice_mut ties its result to the view's own lifetime parameter: go through a raw pointer)
                        let pc: *mut CSliceMut<'static, T> = &mut c;
                        let _n = unsafe { (*pc).as_slice_mut().len() };
                        View::CMut(c)
                    }
                    (View::CMut(mut c), "as_slice_mut") => View::RustMut(ext_mut(c.as_slice_mut())),
                    (View::CMut(c), "into_mut_slice") => View::RustMut(<&mut [T]>::from(c)),
                    (View::RustRef(s), "to_c") => View::CRef(s.into()),
                    (View::RustMut(s), "to_c") => View::CMut(s.into()),
                    _ => {
                        eprintln!("TOOL-ERROR convert {} not applicable", how);
                        std::process::exit(2);
                    }
                };
                self.last = ok;
            }
            "WriteThrough" => {
                let (k, v) = (e["k"].as_u64().unwrap() as usize, T::from_val(e["v"].as_u64().unwrap()));
                match &mut self.view {
                    View::CMut(c) => {
                        if self.flip % 2 == 0 {
                            c[k] = v
                        } else {
                            let c2: &'static mut CSliceMut<'static, T> = unsafe { &mut *(c as *mut CSliceMut<'static, T>) };
                            c2.as_slice_mut()[k] = v
                        }
                    }
                    View::RustMut(s) => s[k] = v,
                    _ => unreachable!(),
                }
                self.last = ok;
            }
            "NewCell" => {
                let old = std::mem::replace(&mut self.cell, Cell::None);
                ledger::track(|| drop(old));
                let tag = e["tag"].as_u64().unwrap();
                let mut mk = || {
                    let id = payload::next_id();
                    ledger::track(|| Heavy::new(id, id as i64))
                };
                self.cell = match (e["shape"].as_str().unwrap(), tag) {
                    ("opt", 0) => Cell::Opt(None),
                    ("opt", _) => Cell::Opt(Some(mk())),
                    ("res", 0) => Cell::Res(Ok(mk())),
                    ("res", _) => Cell::Res(Err(mk())),
                    ("tup", 1) => Cell::T1((mk(),)),
                    ("tup", 2) => { let a = Tiny::new(payload::next_id()); Cell::T2((a, mk())) }
                    ("tup", 3) => { let a = Tiny::new(payload::next_id()); let b = Mid::new(payload::next_id()); Cell::T3((a, b, mk())) }
                    _ => { let a = Mid::new(payload::next_id()); let b = mk(); let c = Tiny::new(payload::next_id()); Cell::T4((a, b, c, mk())) }
                };
                self.last = ok;
            }
            "Flip" => {
                let c = std::mem::replace(&mut self.cell, Cell::None);
                self.cell = ledger::track(|| match c {
                    Cell::Opt(o) => Cell::COpt(o.into()),
                    Cell::COpt(o) => Cell::Opt(if self.flip % 2 == 0 || !o.is_some() { o.into() } else { Some(o.unwrap()) }),
                    Cell::Res(r) => Cell::CRes(r.into()),
                    Cell::CRes(r) => Cell::Res(if self.flip % 2 == 0 || !r.is_ok() { r.into() } else { Ok(r.unwrap()) }),
                    Cell::T1(t) => Cell::C1(t.into()),
                    Cell::C1(t) => Cell::T1(t.into_tuple()),
                    Cell::T2(t) => Cell::C2(t.into()),
                    Cell::C2(t) => Cell::T2(t.into()),
                    Cell::T3(t) => Cell::C3(t.into()),
                    Cell::C3(t) => Cell::T3(t.into_tuple()),
                    Cell::T4(t) => Cell::C4(t.into()),
                    Cell::C4(t) => Cell::T4(t.into()),
                    Cell::None => unreachable!(),
                });
                self.last = ok;
            }
            "ResOk" => {
                let c = std::mem::replace(&mut self.cell, Cell::None);
                let mut consistent = true;
                self.cell = ledger::track(|| match c {
                    Cell::CRes(r) => {
                        // is_ok / is_err must agree with the variant the conversion produces
                        let (isok, iserr) = (r.is_ok(), r.is_err());
                        let o = r.ok();
                        consistent = isok != iserr && isok == o.is_some();
                        Cell::Opt(o)
                    }
                    _ => unreachable!(),
                });
                self.last = if consistent { ok } else { json!({"kind":"is_ok/is_err/ok disagree","n":0}) };
            }
            "ReplaceMut" => {
                let id = payload::next_id();
                ledger::track(|| {
                    let newv = Heavy::new(id, id as i64);
                    match &mut self.cell {
                        Cell::COpt(o) => *o.as_mut().unwrap() = newv,
                        Cell::CRes(r) => match r.as_mut() {
                            Ok(v) => *v = newv,
                            Err(e) => *e = newv,
                        },
                        _ => unreachable!(),
                    }
                });
                self.last = ok;
            }
            "DefaultOpt" => {
                let old = std::mem::replace(&mut self.cell, Cell::None);
                ledger::track(|| drop(old));
                self.cell = Cell::COpt(cglue::option::COption::default());
                self.last = ok;
            }
            "TakeOpt" => {
                let n = match &mut self.cell {
                    Cell::COpt(o) => {
                        let t = o.take();
                        let n = if t.is_some() { 1 } else { 0 };
                        ledger::track(|| drop(t));
                        n
                    }
                    _ => unreachable!(),
                };
                self.last = json!({"kind":"took","n":n});
            }
            "DropCell" => {
                let c = std::mem::replace(&mut self.cell, Cell::None);
                ledger::track(|| drop(c));
                self.last = ok;
            }
            _ => {
                eprintln!("TOOL-ERROR unknown op {}", op);
                std::process::exit(2);
            }
        }
    }

    fn proj(&self) -> Value {
        let mem: Vec<u64> = self.buf.iter().map(|x| x.val()).collect();
        let base = self.buf.as_ptr() as usize;
        let sz = std::mem::size_of::<T>().max(1);
        let (ptr, len, form, m, seen): (usize, usize, &str, bool, Vec<u64>) = match &self.view {
            View::None => (base, 0, "none", false, vec![]),
            View::RustRef(s) => (s.as_ptr() as usize, s.len(), "rust", false, s.iter().map(|x| x.val()).collect()),
            View::RustMut(s) => (s.as_ptr() as usize, s.len(), "rust", true, s.iter().map(|x| x.val()).collect()),
            View::CRef(c) => (c.as_ptr() as usize, c.len(), "c", false, c.as_slice().iter().map(|x| x.val()).collect()),
            View::CMut(c) => (c.as_ptr() as usize, c.len(), "c", true, c.as_slice().iter().map(|x| x.val()).collect()),
        };
        let off = if std::mem::size_of::<T>() == 0 { usize::MAX } else { ptr.wrapping_sub(base) / sz };
        let off_exact = std::mem::size_of::<T>() == 0 || ptr.wrapping_sub(base) % sz == 0;
        let (shape, cform, tag, ids): (&str, &str, usize, Vec<usize>) = match &self.cell {
            Cell::None => ("none", "rust", 0, vec![]),
            Cell::Opt(o) => ("opt", "rust", o.is_some() as usize, o.iter().map(hid).collect()),
            Cell::COpt(o) => ("opt", "c", o.is_some() as usize, o.as_ref().into_iter().map(hid).collect()),
            Cell::Res(r) => ("res", "rust", r.is_err() as usize, vec![match r { Ok(h) | Err(h) => hid(h) }]),
            Cell::CRes(r) => ("res", "c", r.is_err() as usize, vec![match r.as_ref() { Ok(h) | Err(h) => hid(h) }]),
            Cell::T1(t) => ("tup", "rust", 1, vec![hid(&t.0)]),
            Cell::C1(t) => ("tup", "c", 1, vec![hid(&t.0)]),
            Cell::T2(t) => ("tup", "rust", 2, vec![hid(&t.0), hid(&t.1)]),
            Cell::C2(t) => ("tup", "c", 2, vec![hid(&t.0), hid(&t.1)]),
            Cell::T3(t) => ("tup", "rust", 3, vec![hid(&t.0), hid(&t.1), hid(&t.2)]),
            Cell::C3(t) => ("tup", "c", 3, vec![hid(&t.0), hid(&t.1), hid(&t.2)]),
            Cell::T4(t) => ("tup", "rust", 4, vec![hid(&t.0), hid(&t.1), hid(&t.2), hid(&t.3)]),
            Cell::C4(t) => ("tup", "c", 4, vec![hid(&t.0), hid(&t.1), hid(&t.2), hid(&t.3)]),
        };
        let drops: Vec<u32> = (1..payload::next_id()).map(payload::drops).collect();
        json!({"mem": mem,
               "view": {"off": if form == "none" { 0 } else { off }, "len": len, "form": form, "mut": m, "seen": seen, "aligned": off_exact},
               "cell": {"shape": shape, "form": cform, "tag": tag, "ids": ids},
               "drops": drops, "last": self.last})
    }

    /// compare at the precision the element type allows (a ZST has neither address nor contents)
    fn compare(&self, exp: &Value) -> Option<String> {
        let mut got = self.proj();
        if got["view"]["aligned"] != json!(true) {
            return Some(format!("view address is not element-aligned inside the buffer: {}", got["view"]));
        }
        got["view"].as_object_mut().unwrap().remove("aligned");
        let mut exp = exp.clone();
        if T::KIND == "zst" {
            for v in [&mut got, &mut exp] {
                v["view"]["off"] = json!(0);
                let n = v["view"]["seen"].as_array().unwrap().len();
                v["view"]["seen"] = json!(vec![0; n]);
                let n = v["mem"].as_array().unwrap().len();
                v["mem"] = json!(vec![0; n]);
            }
        }
        if got != exp {
            return Some(format!("projection differs: got {} expected {}", got, exp));
        }
        None
    }

    fn teardown(mut self) -> Option<String> {
        self.view = View::None;
        let c = std::mem::replace(&mut self.cell, Cell::None);
        ledger::track(|| drop(c));
        for (id, d) in payload::drop_table() {
            if d != 1 {
                return Some(format!("payload {} dropped {} times at quiescence", id, d));
            }
        }
        let s = ledger::snap();
        if s.live != self.base.live {
            return Some(format!("leak: {} blocks live at quiescence", s.live as i64 - self.base.live as i64));
        }
        if s.anomalies != self.base.anomalies {
            return Some(format!("allocator anomalies: {:?}", ledger::anomalies_since(self.base.anomalies)));
        }
        None
    }
}

fn replay<T: El>(lines: &[String]) -> (usize, Vec<Value>) {
    let mut failures = vec![];
    let mut steps = 0;
    for (bi, line) in lines.iter().enumerate() {
        vkit::mark(bi);
        let beh: Value = serde_json::from_str(line).expect("behaviour json");
        let mut w = World::<T>::new();
        let mut failed = None;
        for (si, st) in beh.as_array().unwrap().iter().enumerate() {
            steps += 1;
            w.apply(&st["a"]);
            if let Some(m) = w.compare(&st["exp"]) {
                failed = Some((si, m));
                break;
            }
        }
        let td = w.teardown();
        if failed.is_none() {
            if let Some(m) = td {
                failed = Some((beh.as_array().unwrap().len(), m));
            }
        }
        if let Some((si, msg)) = failed {
            failures.push(json!({"behaviour": bi, "step": si, "msg": msg, "beh": beh, "elem": T::KIND}));
            if failures.len() >= 10 {
                break;
            }
        }
    }
    (steps, failures)
}

/// Every enumerated byte string: the real TryFrom conversions must refuse exactly the invalid ones,
/// and a successful conversion must be the identity on (address, length, bytes).
fn utf8(lines: &[String]) -> (usize, Vec<Value>) {
    let mut failures = vec![];
    for (bi, line) in lines.iter().enumerate() {
        let v: Value = serde_json::from_str(line).unwrap();
        let bytes: Vec<u8> = v["s"].as_array().unwrap().iter().map(|b| b.as_u64().unwrap() as u8).collect();
        let want = v["v"].as_bool().unwrap();
        let mut copy = bytes.clone();
        let mut copy2 = bytes.clone();
        let r1 = <&str>::try_from(CSliceRef::from(&bytes[..]));
        let m: CSliceMut<u8> = (&mut copy[..]).into();
        let mp = m.as_ptr();
        let r2 = <&str>::try_from(m);
        let m2: CSliceMut<u8> = (&mut copy2[..]).into();
        let r3 = <&mut str>::try_from(m2);
        let mut msg = None;
        if r1.is_ok() != want || r2.is_ok() != want || r3.is_ok() != want {
            msg = Some(format!("UTF-8 decision differs: spec says valid={} but TryFrom gives ref={} mut={} mutstr={}",
                               want, r1.is_ok(), r2.is_ok(), r3.is_ok()));
        } else if want {
            let s1 = r1.unwrap();
            let s2 = r2.unwrap();
            if s1.as_ptr() != bytes.as_ptr() || s1.len() != bytes.len() || s1.as_bytes() != &bytes[..]
                || s2.as_ptr() != mp || s2.as_bytes() != &bytes[..] {
                msg = Some("successful &str conversion changed address, length or bytes".to_string());
            }
            // and back: &str -> CSliceRef -> into_str
            let c = CSliceRef::from(s1);
            let c2 = CSliceRef::from_str(s1);
            let back = unsafe { c.into_str() };
            if back.as_ptr() != s1.as_ptr() || back != s1 || c2.as_ptr() != s1.as_ptr() || c2.len() != s1.len() {
                msg = Some("str -> CSliceRef -> str is not the identity".to_string());
            }
            // &mut str -> CSliceMut<u8> -> {&str, &mut str, into_str, into_mut_str, &[u8]}: same address, length, bytes
            let ms: &mut str = r3.unwrap();
            let (mptr, mlen) = (ms.as_ptr(), ms.len());
            let ms2: &mut str = unsafe { &mut *(ms as *mut str) };
            let cm = CSliceMut::from(ms2);
            if cm.as_ptr() != mptr || cm.len() != mlen || cm.as_slice() != &bytes[..] {
                msg = Some(format!("&mut str -> CSliceMut changed address, length or bytes: len {} expected {}", cm.len(), mlen));
            } else {
                let back_mut = unsafe { cm.into_mut_str() };
                if back_mut.as_ptr() != mptr || back_mut.len() != mlen || back_mut.as_bytes() != &bytes[..] {
                    msg = Some("&mut str -> CSliceMut -> into_mut_str is not the identity".to_string());
                }
                let ms3: &mut str = unsafe { &mut *(back_mut as *mut str) };
                let back_ref = unsafe { CSliceMut::from(ms3).into_str() };
                if back_ref.as_ptr() != mptr || back_ref.len() != mlen {
                    msg = Some("&mut str -> CSliceMut -> into_str is not the identity".to_string());
                }
                let ms4: &mut str = unsafe { &mut *(ms as *mut str) };
                match <&mut str>::try_from(CSliceMut::from(ms4)) {
                    Ok(b) if b.as_ptr() == mptr && b.len() == mlen => {}
                    _ => msg = Some("&mut str -> CSliceMut -> TryFrom<&mut str> is refused or not the identity".to_string()),
                }
            }
        }
        if let Some(m) = msg {
            failures.push(json!({"behaviour": bi, "step": 0, "msg": m, "beh": v}));
            if failures.len() >= 10 {
                break;
            }
        }
    }
    (lines.len(), failures)
}

/// impl -> spec: random enabled operations (slices and cells interleaved) on u64 elements, every event with the whole
/// projection observed after it (Trace_Views.tla)
fn trace(out: &str, seed: u64, events: usize) {
    let mut log = vkit::NdJson::create(out);
    let mut rng = vkit::rng::Rng::new(seed);
    let mut emitted = 0;
    while emitted < events {
        let mut w = World::<u64>::new();
        log.emit(&json!({"op":"reset"}));
        emitted += 1;
        for _ in 0..(20 + rng.below(80)) {
            if payload::next_id() > 110 {
                break;
            }
            let p = w.proj();
            let n = p["mem"].as_array().unwrap().len();
            let (vform, vmut, vlen) = (p["view"]["form"].as_str().unwrap().to_string(), p["view"]["mut"].as_bool().unwrap(), p["view"]["len"].as_u64().unwrap() as usize);
            let (shape, cform, nids) = (p["cell"]["shape"].as_str().unwrap().to_string(), p["cell"]["form"].as_str().unwrap().to_string(), p["cell"]["ids"].as_array().unwrap().len());
            let mut cand: Vec<Value> = vec![json!({"op":"NewBuf","n":rng.below(7)})];
            let off = rng.below(n + 1);
            cand.push(json!({"op":"MakeView","off":off,"len":rng.below(n - off + 1),"mut":rng.chance(1, 2)}));
            cand.push(json!({"op":"MakeView","off":0,"len":n,"mut":rng.chance(1, 2)}));
            if vform == "c" {
                for h in ["as_slice", "deref", "into_slice", "as_slice_keep"] {
                    cand.push(json!({"op":"Convert","how":h}));
                }
                if vmut {
                    for h in ["mut_to_ref", "reborrow", "as_slice_mut", "into_mut_slice", "reborrow_keep", "as_slice_mut_keep", "ref_keep"] {
                        cand.push(json!({"op":"Convert","how":h}));
                    }
                }
            }
            if vform == "rust" {
                cand.push(json!({"op":"Convert","how":"to_c"}));
                cand.push(json!({"op":"Convert","how":"to_c"}));
            }
            if vform != "none" && vmut && vlen > 0 {
                for _ in 0..3 {
                    cand.push(json!({"op":"WriteThrough","k":rng.below(vlen),"v":50 + rng.below(200)}));
                }
            }
            cand.push(match rng.below(3) {
                0 => json!({"op":"NewCell","shape":"opt","tag":rng.below(2)}),
                1 => json!({"op":"NewCell","shape":"res","tag":rng.below(2)}),
                _ => json!({"op":"NewCell","shape":"tup","tag":1 + rng.below(4)}),
            });
            if shape != "none" {
                cand.push(json!({"op":"Flip"}));
                cand.push(json!({"op":"Flip"}));
                cand.push(json!({"op":"DropCell"}));
                if cform == "c" && shape == "opt" {
                    cand.push(json!({"op":"TakeOpt"}));
                }
                if cform == "c" && shape == "res" {
                    cand.push(json!({"op":"ResOk"}));
                }
                if cform == "c" && (shape == "opt" || shape == "res") && nids == 1 {
                    cand.push(json!({"op":"ReplaceMut"}));
                }
            }
            if rng.chance(1, 8) {
                cand.push(json!({"op":"DefaultOpt"}));
            }
            let e = rng.pick(&cand).clone();
            w.apply(&e);
            let mut pj = w.proj();
            let aligned = pj["view"]["aligned"] == json!(true);
            pj["view"].as_object_mut().unwrap().remove("aligned");
            let mut ev = e.clone();
            ev.as_object_mut().unwrap().insert("proj".into(), pj);
            log.emit(&ev);
            emitted += 1;
            if !aligned {
                log.emit(&json!({"op":"quiescent","ok":false,"msg":"view address is not element-aligned inside the buffer"}));
                emitted += 1;
            }
        }
        let td = w.teardown();
        log.emit(&json!({"op":"quiescent","ok": td.is_none(), "msg": td.unwrap_or_default()}));
        emitted += 1;
    }
    log.flush();
    println!("{}", json!({"summary":"trace","events":emitted}));
}

pub fn main(args: &[String]) {
    if args[0] == "trace" {
        let geti = |f: &str, d: usize| vkit::arg_after(args, f).map(|s| s.parse().unwrap()).unwrap_or(d);
        return trace(&args[1], geti("--seed", 1) as u64, geti("--events", 1000));
    }
    let mode = args[0].as_str();
    let path = args.get(1).cloned().unwrap_or_default();
    let elem = vkit::arg_after(args, "--elem").unwrap_or_else(|| "u8".into());
    let lines = vkit::read_lines(&path);
    let (steps, failures) = match mode {
        "replay" => match elem.as_str() {
            "u8" => replay::<u8>(&lines),
            "u64" => replay::<u64>(&lines),
            "zst" => replay::<()>(&lines),
            _ => replay::<P3>(&lines),
        },
        "utf8" => utf8(&lines),
        _ => {
            eprintln!("TOOL-ERROR mode");
            std::process::exit(2)
        }
    };
    vkit::summary("views-replay", lines.len(), steps, &failures, json!({"elem": elem, "mode": mode}));
}
