//! Adapter for spec/IntRes.tla (integer result codes, library level).

use cglue::result::{from_int_result, from_int_result_empty, into_int_out_result, into_int_result, IntError};
use std::mem::MaybeUninit;
use vkit::payload::{self, Heavy};
use vkit::{json, ledger, Value};

const PAT: u8 = 0x5A;

enum Decoded {
    None,
    Io(Result<Option<Heavy>, std::io::Error>),
    Unit(Result<Option<Heavy>, ()>),
    Fmt(Result<Option<Heavy>, std::fmt::Error>),
}

struct World {
    slot: MaybeUninit<Heavy>,
    code: i32,
    decoded: Decoded,
    phase: &'static str,
    base: ledger::Snap,
}

fn fresh_slot() -> MaybeUninit<Heavy> {
    let mut s = MaybeUninit::<Heavy>::uninit();
    unsafe { std::ptr::write_bytes(s.as_mut_ptr() as *mut u8, PAT, std::mem::size_of::<Heavy>()) };
    s
}

impl World {
    fn new() -> Self {
        payload::reset_ids();
        World { slot: fresh_slot(), code: 0, decoded: Decoded::None, phase: "idle", base: ledger::snap() }
    }

    fn slot_written(&self) -> bool {
        let p = self.slot.as_ptr() as *const u8;
        (0..std::mem::size_of::<Heavy>()).any(|i| unsafe { *p.add(i) } != PAT)
    }

    fn mk_err(f: &str, n: i32) -> std::io::Error {
        if f == "os" {
            std::io::Error::from_raw_os_error(n)
        } else {
            std::io::Error::new(std::io::ErrorKind::Other, "no os code")
        }
    }

    fn apply(&mut self, e: &Value) {
        let op = e["op"].as_str().unwrap();
        let f = e["f"].as_str().unwrap_or("");
        match op {
            "EncOk" => {
                let id = e["id"].as_u64().unwrap() as usize;
                // the error type is irrelevant for Ok; use io::Error
                let r: Result<Heavy, std::io::Error> = Ok(ledger::track(|| Heavy::new(id, id as i64)));
                self.code = into_int_out_result(r, &mut self.slot);
                self.phase = "encoded";
            }
            "EncEmptyOk" => {
                let id = e["id"].as_u64().unwrap() as usize;
                let r: Result<Heavy, ()> = Ok(ledger::track(|| Heavy::new(id, id as i64)));
                self.code = ledger::track(|| into_int_result(r));
                self.phase = "encoded";
            }
            "EncErr" => {
                let n = e["n"].as_i64().unwrap() as i32;
                let with_slot = n % 2 == 0;
                self.code = match f {
                    "os" | "kind" => {
                        let r: Result<Heavy, std::io::Error> = Err(World::mk_err(f, n));
                        if with_slot { into_int_out_result(r, &mut self.slot) } else { into_int_result(r) }
                    }
                    "unit" => {
                        let r: Result<Heavy, ()> = Err(());
                        into_int_out_result(r, &mut self.slot)
                    }
                    _ => {
                        let r: Result<Heavy, std::fmt::Error> = Err(std::fmt::Error);
                        into_int_out_result(r, &mut self.slot)
                    }
                };
                self.phase = "encoded";
            }
            "Dec" | "DecEmpty" => {
                let code = self.code;
                macro_rules! dec {
                    ($e:ty) => {{
                        if op == "Dec" {
                            // hand the slot over exactly as the generated glue does
                            let slot = std::mem::replace(&mut self.slot, fresh_slot());
                            let was_written = {
                                let p = slot.as_ptr() as *const u8;
                                (0..std::mem::size_of::<Heavy>()).any(|i| unsafe { *p.add(i) } != PAT)
                            };
                            let r: Result<Heavy, $e> = unsafe { from_int_result(code, slot) };
                            // keep the observation "slot written" stable across the move
                            if was_written {
                                unsafe { std::ptr::write_bytes(self.slot.as_mut_ptr() as *mut u8, 0, 1) };
                            }
                            r.map(Some)
                        } else {
                            from_int_result_empty::<$e>(code).map(|_| None)
                        }
                    }};
                }
                self.decoded = match f {
                    "os" | "kind" => Decoded::Io(dec!(std::io::Error)),
                    "unit" => Decoded::Unit(dec!(())),
                    _ => Decoded::Fmt(dec!(std::fmt::Error)),
                };
                self.phase = "decoded";
            }
            "Finish" => {
                let d = std::mem::replace(&mut self.decoded, Decoded::None);
                ledger::track(|| drop(d));
                self.slot = fresh_slot();
                self.phase = "idle";
            }
            _ => {
                eprintln!("TOOL-ERROR unknown op {}", op);
                std::process::exit(2);
            }
        }
    }

    fn proj(&self) -> Value {
        let written = self.slot_written();
        let val = if written && self.phase == "encoded" {
            let h: &Heavy = unsafe { &*self.slot.as_ptr() };
            h.check();
            h.id as usize
        } else if written {
            // after decoding the value has moved out; report what the decoder produced
            match &self.decoded {
                Decoded::Io(Ok(Some(h))) | Decoded::Unit(Ok(Some(h))) | Decoded::Fmt(Ok(Some(h))) => h.id as usize,
                _ => 0,
            }
        } else {
            0
        };
        let none = json!({"f":"none","n":0});
        fn okv(h: &Option<Heavy>) -> usize {
            h.as_ref().map(|h| { h.check(); h.id as usize }).unwrap_or(0)
        }
        let decoded = match &self.decoded {
            Decoded::None => json!({"ok":false,"id":0,"err":none}),
            Decoded::Io(Ok(h)) => json!({"ok":true,"id":okv(h),"err":none}),
            Decoded::Unit(Ok(h)) => json!({"ok":true,"id":okv(h),"err":none}),
            Decoded::Fmt(Ok(h)) => json!({"ok":true,"id":okv(h),"err":none}),
            Decoded::Io(Err(e)) => json!({"ok":false,"id":0,"err":{"f":"os","n":e.raw_os_error().unwrap_or(0)}}),
            Decoded::Unit(Err(())) => json!({"ok":false,"id":0,"err":{"f":"unit","n":0}}),
            Decoded::Fmt(Err(_)) => json!({"ok":false,"id":0,"err":{"f":"fmt","n":0}}),
        };
        let pdrops: Vec<u32> = vec![payload::drops(1)];
        json!({"code": self.code, "written": if written {1} else {0}, "val": val, "decoded": decoded,
               "pdrops": pdrops, "phase": self.phase})
    }

    fn teardown(self) -> Option<String> {
        let World { decoded, base, .. } = self;
        ledger::track(|| drop(decoded));
        let s = ledger::snap();
        if s.live != base.live {
            return Some(format!("leak: {} blocks live after the round trip", s.live as i64 - base.live as i64));
        }
        if s.anomalies != base.anomalies {
            return Some(format!("allocator anomalies: {:?}", ledger::anomalies_since(base.anomalies)));
        }
        if payload::created(1) > 0 && payload::drops(1) != 1 {
            return Some(format!("success payload dropped {} times", payload::drops(1)));
        }
        None
    }
}

fn replay(lines: &[String]) -> (usize, Vec<Value>) {
    let mut failures = vec![];
    let mut steps = 0;
    for (bi, line) in lines.iter().enumerate() {
        vkit::mark(bi);
        let beh: Value = serde_json::from_str(line).expect("behaviour json");
        let mut w = World::new();
        let mut failed = None;
        for (si, st) in beh.as_array().unwrap().iter().enumerate() {
            steps += 1;
            w.apply(&st["a"]);
            let got = w.proj();
            if got != st["exp"] {
                failed = Some((si, format!("projection differs: got {} expected {}", got, st["exp"])));
                break;
            }
        }
        let td = w.teardown();
        if failed.is_none() {
            if let Some(m) = td {
                failed = Some((beh.as_array().unwrap().len(), m));
            }
        }
        if let Some((si, msg)) = failed {
            failures.push(json!({"behaviour": bi, "step": si, "msg": msg, "beh": beh}));
        }
    }
    (steps, failures)
}

fn trace(out: &str, seed: u64, events: usize) {
    let mut log = vkit::NdJson::create(out);
    let mut rng = vkit::rng::Rng::new(seed);
    let mut emitted = 0;
    let interesting: [i64; 12] = [i32::MIN as i64 + 1, -4096, -2, -1, 0, 1, 2, 13, 65534, 65535, 65536, i32::MAX as i64];
    while emitted < events {
        let mut w = World::new();
        log.emit(&json!({"op":"reset"}));
        emitted += 1;
        let n = if rng.chance(1, 2) { *rng.pick(&interesting) } else { rng.range(i32::MIN as i64 + 1, i32::MAX as i64) };
        let f = *rng.pick(&["os", "kind", "unit", "fmt"]);
        let script: Vec<Value> = match rng.below(4) {
            0 => vec![json!({"op":"EncOk","id":1}), json!({"op":"Dec","f":f}), json!({"op":"Finish"})],
            1 => vec![json!({"op":"EncEmptyOk","id":1}), json!({"op":"DecEmpty","f":f}), json!({"op":"Finish"})],
            _ => {
                let back = if f == "kind" { "os" } else { f };
                vec![json!({"op":"EncErr","f":f,"n": if f == "os" { n } else { 0 }}),
                     json!({"op": if rng.chance(1,2) {"Dec"} else {"DecEmpty"},"f":back}), json!({"op":"Finish"})]
            }
        };
        for e in script {
            w.apply(&e);
            let mut ev = e.clone();
            ev.as_object_mut().unwrap().insert("proj".into(), w.proj());
            log.emit(&ev);
            emitted += 1;
        }
        let td = w.teardown();
        log.emit(&json!({"op":"quiescent","ok": td.is_none(), "msg": td.unwrap_or_default()}));
        emitted += 1;
    }
    log.flush();
    println!("{}", json!({"summary":"trace","events":emitted}));
}

/// All 2^32 OS codes against the closed form of IntRes!IoEnc / ErrBack (thorough tier).
fn sweep(threads: usize) {
    let bad = std::sync::atomic::AtomicU64::new(0);
    let first_bad = std::sync::atomic::AtomicI64::new(i64::MAX);
    std::thread::scope(|s| {
        for t in 0..threads {
            let bad = &bad;
            let first_bad = &first_bad;
            s.spawn(move || {
                let total: u64 = 1 << 32;
                let lo = total * t as u64 / threads as u64;
                let hi = total * (t as u64 + 1) / threads as u64;
                for u in lo..hi {
                    let n = u as u32 as i32;
                    let code = std::io::Error::from_raw_os_error(n).into_int_err().get();
                    let want = if n == 0 { 65535 } else { n };
                    let back = std::io::Error::from_int_err(std::num::NonZeroI32::new(code).unwrap()).raw_os_error();
                    if code != want || code == 0 || back != Some(want) {
                        bad.fetch_add(1, std::sync::atomic::Ordering::SeqCst);
                        first_bad.fetch_min(n as i64, std::sync::atomic::Ordering::SeqCst);
                    }
                }
            });
        }
    });
    let b = bad.load(std::sync::atomic::Ordering::SeqCst);
    println!("{}", json!({"summary":"sweep","codes": 1u64 << 32, "bad": b,
                          "first_bad": if b > 0 { first_bad.load(std::sync::atomic::Ordering::SeqCst) } else { 0 }}));
}

pub fn main(args: &[String]) {
    let mode = args[0].as_str();
    let path = args.get(1).cloned().unwrap_or_default();
    let geti = |f: &str, d: usize| vkit::arg_after(args, f).map(|s| s.parse().unwrap()).unwrap_or(d);
    match mode {
        "replay" => {
            let lines = vkit::read_lines(&path);
            let (steps, failures) = replay(&lines);
            vkit::summary("intres-replay", lines.len(), steps, &failures, json!({}));
        }
        "trace" => trace(&path, geti("--seed", 1) as u64, geti("--events", 1000)),
        "sweep" => sweep(geti("--threads", 16)),
        _ => {
            eprintln!("TOOL-ERROR mode");
            std::process::exit(2)
        }
    }
}
