//! Adapter for spec/CGlueObj.tla: real opaque objects, groups and casts over the reference family
//! of `objfam`.  Every handle is a `Box<dyn Caps>`; `Caps` has one entry per specification action
//! family and each concrete static type implements exactly the entries its Rust type supports.

use cglue::arc::{CArc, CArcSome};
use cglue::boxed::CBox;
use cglue::trait_group::{c_void, ContextBounds, NoContext, Opaquable};
use cglue::*;
use cglue_macro::check;
use objfam::*;
use std::sync::Arc;
use vkit::{json, ledger, payload, Value};

// ---------------------------------------------------------------------------------------------
// contexts
// ---------------------------------------------------------------------------------------------
pub struct CtxP {
    pub id: usize,
}
static CTX_DROPS: [std::sync::atomic::AtomicUsize; 8] = {
    const Z: std::sync::atomic::AtomicUsize = std::sync::atomic::AtomicUsize::new(0);
    [Z; 8]
};
impl Drop for CtxP {
    fn drop(&mut self) {
        objfam::emit("ctx_released", self.id);
        if IN_CALLEE.load(std::sync::atomic::Ordering::SeqCst) {
            CTX_RELEASED_IN_CALLEE.fetch_add(1, std::sync::atomic::Ordering::SeqCst);
        }
        CTX_DROPS[self.id].fetch_add(1, std::sync::atomic::Ordering::SeqCst);
        payload::CTX_RELEASES.fetch_add(1, std::sync::atomic::Ordering::SeqCst);
    }
}

pub trait Cx: ContextBounds {
    const HAS: bool;
}
impl Cx for NoContext {
    const HAS: bool = false;
}
impl Cx for CArc<c_void> {
    const HAS: bool = true;
}

use objfam::ctor::{self, ArcI, BoxI, EnvPay, Made, MutI, ObjUnion, RefI};

// ---------------------------------------------------------------------------------------------
// capability interface
// ---------------------------------------------------------------------------------------------
pub enum Moved {
    Yes(Box<dyn Caps>),
    No, // cast failed: the group was consumed and dropped
    Unsupported(Box<dyn Caps>),
}

#[allow(unused_variables)]
pub trait Caps {
    /// identity of the instance the object dispatches to, read through the object itself
    fn id(&self) -> Option<i64> {
        None
    }
    fn call(&mut self, m: &str, a: i64) -> Option<i64> {
        None
    }
    fn clone_h(&self) -> Option<Box<dyn Caps>> {
        None
    }
    fn take(self: Box<Self>) -> Result<i64, Box<dyn Caps>>;
    fn into_child(self: Box<Self>) -> Result<Box<dyn Caps>, Box<dyn Caps>>;
    /// ob_try(self, fail): outer Err = not available; inner Err = the call failed (nothing comes back)
    fn try_child(self: Box<Self>, fail: bool) -> Result<Result<Box<dyn Caps>, ()>, Box<dyn Caps>>;
    fn kid_owned(&self, pinned: bool) -> Option<Box<dyn Caps>> {
        None
    }
    fn kid_ref(&self, sel: i64, m: &str, a: i64) -> Option<i64> {
        None
    }
    fn kid_mut(&mut self, sel: i64, m: &str, a: i64) -> Option<i64> {
        None
    }
    /// lending child: obtain the owned wrapper, look at the world while it lives (`probe`), call through it, drop it
    fn kid_view(&mut self, m: &str, a: i64, probe: &dyn Fn() -> usize) -> Option<(i64, usize)> {
        None
    }
    /// check / as_ref / as_mut: Some(None) = cast refused, Some(Some(r)) = result (check: 1)
    fn group_borrow(&mut self, how: &str, req: &str, m: &str, a: i64) -> Option<Option<i64>> {
        None
    }
    fn group_move(self: Box<Self>, how: &str, req: &str) -> Moved;
    fn upcast(self: Box<Self>) -> Result<Box<dyn Caps>, Box<dyn Caps>>;
    /// by-value call with the vtable slot interposed by a logging trampoline (only for the concrete
    /// boxed single-trait Ob object that carries an Arc context)
    fn take_fine(self: Box<Self>) -> Result<i64, Box<dyn Caps>> {
        Err(self.as_caps())
    }
    fn as_caps(self: Box<Self>) -> Box<dyn Caps>;
}

fn ra_call<T: Ra + ?Sized>(o: &T, m: &str, a: i64) -> Option<i64> {
    match m {
        "ra_get" => Some(o.ra_get()),
        "ra_mix" => Some(o.ra_mix(a)),
        _ => None,
    }
}
fn rb_call<T: Rb + ?Sized>(o: &T, m: &str, _a: i64) -> Option<i64> {
    match m {
        "rb_get" => Some(o.rb_get()),
        _ => None,
    }
}
fn ma_call<T: Ma + ?Sized>(o: &mut T, m: &str, a: i64) -> Option<i64> {
    match m {
        "ma_add" => Some(o.ma_add(a)),
        "ma_peek" => Some(o.ma_peek()),
        _ => None,
    }
}
fn ma_call_ro<T: Ma + ?Sized>(o: &T, m: &str, _a: i64) -> Option<i64> {
    match m {
        "ma_peek" => Some(o.ma_peek()),
        _ => None,
    }
}
fn ob_call<T: Ob + ?Sized>(o: &T, m: &str, _a: i64) -> Option<i64> {
    match m {
        "ob_peek" => Some(o.ob_peek()),
        _ => None,
    }
}

// generic wrappers: one per capability set ------------------------------------------------------
macro_rules! unsupported_moves {
    () => {
        fn group_move(self: Box<Self>, _how: &str, _req: &str) -> Moved {
            Moved::Unsupported(self)
        }
        fn upcast(self: Box<Self>) -> Result<Box<dyn Caps>, Box<dyn Caps>> {
            Err(self)
        }
        fn as_caps(self: Box<Self>) -> Box<dyn Caps> {
            self
        }
    };
}
macro_rules! no_consume {
    () => {
        fn take(self: Box<Self>) -> Result<i64, Box<dyn Caps>> {
            Err(self)
        }
        fn into_child(self: Box<Self>) -> Result<Box<dyn Caps>, Box<dyn Caps>> {
            Err(self)
        }
        fn try_child(self: Box<Self>, _fail: bool) -> Result<Result<Box<dyn Caps>, ()>, Box<dyn Caps>> {
            Err(self)
        }
    };
}
macro_rules! ob_consume {
    () => {
        fn take(self: Box<Self>) -> Result<i64, Box<dyn Caps>> {
            Ok(self.0.ob_take())
        }
        fn into_child(self: Box<Self>) -> Result<Box<dyn Caps>, Box<dyn Caps>> {
            Ok(Box::new(HRa(self.0.ob_into())))
        }
        fn try_child(self: Box<Self>, fail: bool) -> Result<Result<Box<dyn Caps>, ()>, Box<dyn Caps>> {
            Ok(match self.0.ob_try(fail) {
                Ok(c) => Ok(Box::new(HRa(c)) as Box<dyn Caps>),
                Err(()) => Err(()),
            })
        }
    };
}
macro_rules! kid_caps {
    () => {
        fn kid_owned(&self, pinned: bool) -> Option<Box<dyn Caps>> {
            Some(Box::new(HRa(if pinned { unsafe { std::pin::Pin::new_unchecked(&self.0) }.kid_owned_pin() } else { self.0.kid_owned() })))
        }
        fn kid_ref(&self, sel: i64, m: &str, a: i64) -> Option<i64> {
            // sel 0: the fixed accessor; 1, 2: the selecting accessor asked for the first / second inner value
            let k = if sel == 0 { self.0.kid_ref() } else { self.0.kid_sel(sel - 1) };
            ra_call(k, m, a)
        }
        fn kid_mut(&mut self, sel: i64, m: &str, a: i64) -> Option<i64> {
            let k = if sel == 0 { self.0.kid_mut() } else { self.0.kid_sel_mut(sel - 1) };
            ma_call(k, m, a)
        }
        fn kid_view(&mut self, m: &str, a: i64, probe: &dyn Fn() -> usize) -> Option<(i64, usize)> {
            let v = self.0.kid_view();
            let during = probe();
            let r = ra_call(&v, m, a)?;
            drop(v);
            Some((r, during))
        }
    };
}

pub struct HRa<T>(pub T);
impl<T: Ra + 'static> Caps for HRa<T> {
    fn id(&self) -> Option<i64> {
        Some(self.0.ra_id())
    }
    fn call(&mut self, m: &str, a: i64) -> Option<i64> {
        ra_call(&self.0, m, a)
    }
    no_consume!();
    unsupported_moves!();
}
pub struct HRb<T>(pub T);
impl<T: Rb + 'static> Caps for HRb<T> {
    fn id(&self) -> Option<i64> {
        Some(self.0.rb_id())
    }
    fn call(&mut self, m: &str, a: i64) -> Option<i64> {
        rb_call(&self.0, m, a)
    }
    no_consume!();
    unsupported_moves!();
}
pub struct HMa<T>(pub T);
impl<T: Ma + 'static> Caps for HMa<T> {
    fn id(&self) -> Option<i64> {
        Some(self.0.ma_id())
    }
    fn call(&mut self, m: &str, a: i64) -> Option<i64> {
        ma_call(&mut self.0, m, a)
    }
    no_consume!();
    unsupported_moves!();
}
pub struct HOb<T>(pub T);
impl<T: Ob + 'static> Caps for HOb<T> {
    fn id(&self) -> Option<i64> {
        Some(self.0.ob_id())
    }
    fn call(&mut self, m: &str, a: i64) -> Option<i64> {
        ob_call(&self.0, m, a)
    }
    ob_consume!();
    unsupported_moves!();
}
/// The concrete boxed Ob object with an Arc context, as a C caller sees it: word 0 is the vtable
/// pointer, the vtable is four function pointers in declaration order (ob_peek, ob_id, ob_take,
/// ob_into).  `take_fine` copies the vtable, replaces the ob_take slot by a logging trampoline and
/// stores the copy's address in word 0 before making the by-value call.
type ObCont = cglue::trait_group::CGlueObjContainer<BoxI, CArc<c_void>, ObRetTmp<CArc<c_void>>>;
pub struct HObArc(pub ObBase<'static, BoxI, CArc<c_void>>);
static ORIG_TAKE: std::sync::atomic::AtomicUsize = std::sync::atomic::AtomicUsize::new(0);
/// set while control is inside an interposed by-value vtable slot (the callee's module is executing)
static IN_CALLEE: std::sync::atomic::AtomicBool = std::sync::atomic::AtomicBool::new(false);
/// context destructors that ran while control was inside the callee ("during a by-value call the context is not released
/// before control has returned to the caller") - observed in this module whichever module the callee lives in
static CTX_RELEASED_IN_CALLEE: std::sync::atomic::AtomicUsize = std::sync::atomic::AtomicUsize::new(0);
unsafe extern "C" fn take_tramp(cont: ObCont) -> i64 {
    objfam::emit("callee_enter", 0);
    let f: unsafe extern "C" fn(ObCont) -> i64 = std::mem::transmute(ORIG_TAKE.load(std::sync::atomic::Ordering::SeqCst));
    IN_CALLEE.store(true, std::sync::atomic::Ordering::SeqCst);
    let r = f(cont);
    IN_CALLEE.store(false, std::sync::atomic::Ordering::SeqCst);
    objfam::emit("callee_exit", 0);
    r
}
/// the same window for the other by-value entries (ob_into: slot 3, ob_try: slot 4), whatever they return
static ORIG_SLOT: [std::sync::atomic::AtomicUsize; 8] = {
    const Z: std::sync::atomic::AtomicUsize = std::sync::atomic::AtomicUsize::new(0);
    [Z; 8]
};
unsafe extern "C" fn into_tramp<R>(cont: ObCont) -> R {
    let f: unsafe extern "C" fn(ObCont) -> R = std::mem::transmute(ORIG_SLOT[3].load(std::sync::atomic::Ordering::SeqCst));
    IN_CALLEE.store(true, std::sync::atomic::Ordering::SeqCst);
    let r = f(cont);
    IN_CALLEE.store(false, std::sync::atomic::Ordering::SeqCst);
    r
}
unsafe extern "C" fn try_tramp<R>(cont: ObCont, fail: bool) -> R {
    let f: unsafe extern "C" fn(ObCont, bool) -> R = std::mem::transmute(ORIG_SLOT[4].load(std::sync::atomic::Ordering::SeqCst));
    IN_CALLEE.store(true, std::sync::atomic::Ordering::SeqCst);
    let r = f(cont, fail);
    IN_CALLEE.store(false, std::sync::atomic::Ordering::SeqCst);
    r
}
fn into_tramp_for<R>(_f: unsafe extern "C" fn(ObCont) -> R) -> usize {
    into_tramp::<R> as *const () as usize
}
fn try_tramp_for<R>(_f: unsafe extern "C" fn(ObCont, bool) -> R) -> usize {
    try_tramp::<R> as *const () as usize
}
impl HObArc {
    /// copy the object's vtable (five entries: ob_peek, ob_id, ob_take, ob_into, ob_try), replace one slot, point the object at the copy
    unsafe fn interpose(&mut self, slot: usize, tramp: usize) {
        let words = &mut self.0 as *mut _ as *mut *const usize;
        let vt = *words;
        let copy: &'static mut [usize; 5] = ledger::untracked(|| Box::leak(Box::new([*vt, *vt.add(1), *vt.add(2), *vt.add(3), *vt.add(4)])));
        ORIG_SLOT[slot].store(copy[slot], std::sync::atomic::Ordering::SeqCst);
        copy[slot] = tramp;
        *words = copy.as_ptr();
    }
}
impl Caps for HObArc {
    fn id(&self) -> Option<i64> {
        Some(self.0.ob_id())
    }
    fn call(&mut self, m: &str, a: i64) -> Option<i64> {
        ob_call(&self.0, m, a)
    }
    fn take(self: Box<Self>) -> Result<i64, Box<dyn Caps>> {
        Ok(self.0.ob_take())
    }
    fn into_child(mut self: Box<Self>) -> Result<Box<dyn Caps>, Box<dyn Caps>> {
        unsafe {
            let t = into_tramp_for(self.0.get_vtbl().ob_into());
            self.interpose(3, t);
        }
        Ok(Box::new(HRa(self.0.ob_into())))
    }
    fn try_child(mut self: Box<Self>, fail: bool) -> Result<Result<Box<dyn Caps>, ()>, Box<dyn Caps>> {
        unsafe {
            let t = try_tramp_for(self.0.get_vtbl().ob_try());
            self.interpose(4, t);
        }
        Ok(match self.0.ob_try(fail) {
            Ok(c) => Ok(Box::new(HRa(c)) as Box<dyn Caps>),
            Err(()) => Err(()),
        })
    }
    fn take_fine(mut self: Box<Self>) -> Result<i64, Box<dyn Caps>> {
        unsafe {
            ORIG_TAKE.store(*(*(&self.0 as *const _ as *const *const usize)).add(2), std::sync::atomic::Ordering::SeqCst);
            self.interpose(2, take_tramp as *const () as usize);
        }
        Ok(self.0.ob_take())
    }
    unsupported_moves!();
}
pub struct HKid<T>(pub T);
impl<T: Kid + 'static> Caps for HKid<T> {
    fn id(&self) -> Option<i64> {
        Some(self.0.kid_id())
    }
    kid_caps!();
    no_consume!();
    unsupported_moves!();
}
pub struct HClone<T>(pub T);
impl<T: Clone + 'static> Caps for HClone<T> {
    fn clone_h(&self) -> Option<Box<dyn Caps>> {
        Some(Box::new(HClone(self.0.clone())))
    }
    no_consume!();
    unsupported_moves!();
}

// final variants (into!): opaque `impl Ra + ..` types, one wrapper per requested set -----------------
macro_rules! final_wrapper {
    ($name:ident : $($b:ident)+ ; call: [$($c:ident),*] ; $consume:ident ; $($extra:tt)*) => {
        pub struct $name<T>(pub T);
        impl<T: Ra $(+ $b)+ + 'static> Caps for $name<T> {
            fn id(&self) -> Option<i64> { Some(self.0.ra_id()) }
            fn call(&mut self, m: &str, a: i64) -> Option<i64> {
                if let Some(r) = ra_call(&self.0, m, a) { return Some(r); }
                $( if let Some(r) = $c(&mut self.0, m, a) { return Some(r); } )*
                None
            }
            $consume!();
            $($extra)*
            unsupported_moves!();
        }
    };
}
fn rb_call_m<T: Rb>(o: &mut T, m: &str, a: i64) -> Option<i64> {
    rb_call(o, m, a)
}
fn ob_call_m<T: Ob>(o: &mut T, m: &str, a: i64) -> Option<i64> {
    ob_call(o, m, a)
}
final_wrapper!(FMa: Ma; call: [ma_call]; no_consume;);
final_wrapper!(FOb: Ob; call: [ob_call_m]; ob_consume;);
final_wrapper!(FMaOb: Ma Ob; call: [ma_call, ob_call_m]; ob_consume;);
final_wrapper!(FKid: Kid; call: []; no_consume; kid_caps!(););
final_wrapper!(FKidMa: Kid Ma; call: [ma_call]; no_consume; kid_caps!(););
final_wrapper!(FRb: Rb; call: [rb_call_m]; no_consume;);
final_wrapper!(FMaRb: Ma Rb; call: [ma_call, rb_call_m]; no_consume;);
pub struct FClone<T>(pub T);
impl<T: Ra + Clone + 'static> Caps for FClone<T> {
    fn id(&self) -> Option<i64> {
        Some(self.0.ra_id())
    }
    fn call(&mut self, m: &str, a: i64) -> Option<i64> {
        ra_call(&self.0, m, a)
    }
    fn clone_h(&self) -> Option<Box<dyn Caps>> {
        Some(Box::new(FClone(self.0.clone())))
    }
    no_consume!();
    unsupported_moves!();
}

// concrete cast variants (cast!): named types, can be cast back ---------------------------------------
macro_rules! cast_variant {
    ($name:ident, $ty:ident, $inst:ty ; call: [$($c:ident),*] ; $consume:ident ; $($extra:tt)*) => {
        pub struct $name<C: Cx>(pub $ty<'static, $inst, C>);
        impl<C: Cx> Caps for $name<C> {
            fn id(&self) -> Option<i64> { Some(self.0.ra_id()) }
            fn call(&mut self, m: &str, a: i64) -> Option<i64> {
                if let Some(r) = ra_call(&self.0, m, a) { return Some(r); }
                $( if let Some(r) = $c(&mut self.0, m, a) { return Some(r); } )*
                None
            }
            $consume!();
            $($extra)*
            fn group_move(self: Box<Self>, _how: &str, _req: &str) -> Moved { Moved::Unsupported(self) }
            fn upcast(self: Box<Self>) -> Result<Box<dyn Caps>, Box<dyn Caps>> {
                // the two documented ways back: `.upcast()` and the `From` impl of the base group
                static FLIP: std::sync::atomic::AtomicUsize = std::sync::atomic::AtomicUsize::new(0);
                if FLIP.fetch_add(1, std::sync::atomic::Ordering::SeqCst) % 2 == 0 {
                    Ok(Box::new(HGroup::<$inst, C>(self.0.upcast())))
                } else {
                    Ok(Box::new(HGroup::<$inst, C>(From::from(self.0))))
                }
            }
            fn as_caps(self: Box<Self>) -> Box<dyn Caps> { self }
        }
    };
}
macro_rules! clone_cap {
    ($name:ident) => {
        fn clone_h(&self) -> Option<Box<dyn Caps>> {
            Some(Box::new($name(self.0.clone())))
        }
    };
}
cast_variant!(CBoxMa, GWithMa, BoxI; call: [ma_call]; no_consume;);
cast_variant!(CBoxOb, GWithOb, BoxI; call: [ob_call_m]; ob_consume;);
cast_variant!(CBoxMaOb, GWithMaOb, BoxI; call: [ma_call, ob_call_m]; ob_consume;);
cast_variant!(CBoxKid, GWithKid, BoxI; call: []; no_consume; kid_caps!(););
cast_variant!(CBoxClone, GWithClone, BoxI; call: []; no_consume; clone_cap!(CBoxClone););
cast_variant!(CBoxKidMa, GWithKidMa, BoxI; call: [ma_call]; no_consume; kid_caps!(););
cast_variant!(CBoxRb, GWithRb, BoxI; call: [rb_call_m]; no_consume;);
cast_variant!(CBoxMaRb, GWithMaRb, BoxI; call: [ma_call, rb_call_m]; no_consume;);
cast_variant!(CMutMa, GWithMa, MutI; call: [ma_call]; no_consume;);
cast_variant!(CMutKid, GWithKid, MutI; call: []; no_consume; kid_caps!(););
cast_variant!(CMutKidMa, GWithKidMa, MutI; call: [ma_call]; no_consume; kid_caps!(););
cast_variant!(CMutRb, GWithRb, MutI; call: [rb_call_m]; no_consume;);
cast_variant!(CMutMaRb, GWithMaRb, MutI; call: [ma_call, rb_call_m]; no_consume;);
cast_variant!(CRefRb, GWithRb, RefI; call: [rb_call_m]; no_consume;);

// the group itself ---------------------------------------------------------------------------------
pub struct HGroup<I: 'static, C: Cx>(pub G<'static, I, C>)
where
    GContainer<I, C>: cglue::trait_group::CGlueObjBase;

/// one arm per requested set; `$body` is instantiated with the trait list
macro_rules! borrow_arm {
    ($g:expr, $how:expr, $m:expr, $a:expr, ro: [$($ro:ident),*], rw: [$($rw:ident),*], $($tr:tt)+) => {{
        match $how {
            "check" => Some(if check!($g impl $($tr)+) { Some(1) } else { None }),
            "as_ref" => Some(match as_ref!($g impl $($tr)+) {
                None => None,
                Some(r) => {
                    let mut out = ra_call(r, $m, $a);
                    $( if out.is_none() { out = $ro(r, $m, $a); } )*
                    Some(out.expect("method not callable through as_ref"))
                }
            }),
            _ => Some(match as_mut!($g impl $($tr)+) {
                None => None,
                Some(r) => {
                    let mut out = ra_call(r, $m, $a);
                    $( if out.is_none() { out = $rw(r, $m, $a); } )*
                    Some(out.expect("method not callable through as_mut"))
                }
            }),
        }
    }};
}
macro_rules! borrow_arm_ro {
    ($g:expr, $how:expr, $m:expr, $a:expr, ro: [$($ro:ident),*], $($tr:tt)+) => {{
        match $how {
            "check" => Some(if check!($g impl $($tr)+) { Some(1) } else { None }),
            _ => Some(match as_ref!($g impl $($tr)+) {
                None => None,
                Some(r) => {
                    let mut out = ra_call(r, $m, $a);
                    $( if out.is_none() { out = $ro(r, $m, $a); } )*
                    Some(out.expect("method not callable through as_ref"))
                }
            }),
        }
    }};
}
macro_rules! move_arm {
    ($g:expr, $how:expr, $cv:ident, $fv:ident, $($tr:tt)+) => {{
        if $how == "cast" {
            match cast!($g impl $($tr)+) {
                Some(c) => Moved::Yes(Box::new($cv(c))),
                None => Moved::No,
            }
        } else {
            match into!($g impl $($tr)+) {
                Some(c) => Moved::Yes(Box::new($fv(c))),
                None => Moved::No,
            }
        }
    }};
}
fn kid_none<T>(_: &mut T, _: &str, _: i64) -> Option<i64> {
    None
}
fn kid_none_ro<T>(_: &T, _: &str, _: i64) -> Option<i64> {
    None
}

impl<C: Cx> Caps for HGroup<BoxI, C> {
    fn id(&self) -> Option<i64> {
        Some(self.0.ra_id())
    }
    fn call(&mut self, m: &str, a: i64) -> Option<i64> {
        ra_call(&self.0, m, a)
    }
    no_consume!();
    fn group_borrow(&mut self, how: &str, req: &str, m: &str, a: i64) -> Option<Option<i64>> {
        let g = &mut self.0;
        match req {
            "Ma" => borrow_arm!(g, how, m, a, ro: [ma_call_ro], rw: [ma_call], Ma),
            "Ob" => borrow_arm!(g, how, m, a, ro: [ob_call], rw: [ob_call_m], Ob),
            "Ma+Ob" => borrow_arm!(g, how, m, a, ro: [ma_call_ro, ob_call], rw: [ma_call, ob_call_m], Ma + Ob),
            "Kid" => borrow_arm!(g, how, m, a, ro: [kid_none_ro], rw: [kid_none], Kid),
            "Clone" => borrow_arm!(g, how, m, a, ro: [kid_none_ro], rw: [kid_none], Clone),
            "Kid+Ma" => borrow_arm!(g, how, m, a, ro: [ma_call_ro], rw: [ma_call], Kid + Ma),
            "Rb" => borrow_arm!(g, how, m, a, ro: [rb_call], rw: [rb_call_m], Rb),
            "Ma+Rb" => borrow_arm!(g, how, m, a, ro: [ma_call_ro, rb_call], rw: [ma_call, rb_call_m], Ma + Rb),
            _ => None,
        }
    }
    fn group_move(self: Box<Self>, how: &str, req: &str) -> Moved {
        let g = self.0;
        match req {
            "Ma" => move_arm!(g, how, CBoxMa, FMa, Ma),
            "Ob" => move_arm!(g, how, CBoxOb, FOb, Ob),
            "Ma+Ob" => move_arm!(g, how, CBoxMaOb, FMaOb, Ma + Ob),
            "Kid" => move_arm!(g, how, CBoxKid, FKid, Kid),
            "Clone" => move_arm!(g, how, CBoxClone, FClone, Clone),
            "Kid+Ma" => move_arm!(g, how, CBoxKidMa, FKidMa, Kid + Ma),
            "Rb" => move_arm!(g, how, CBoxRb, FRb, Rb),
            "Ma+Rb" => move_arm!(g, how, CBoxMaRb, FMaRb, Ma + Rb),
            _ => Moved::Unsupported(Box::new(HGroup::<BoxI, C>(g))),
        }
    }
    fn upcast(self: Box<Self>) -> Result<Box<dyn Caps>, Box<dyn Caps>> {
        Err(self)
    }
    fn as_caps(self: Box<Self>) -> Box<dyn Caps> {
        self
    }
}

impl<C: Cx> Caps for HGroup<MutI, C> {
    fn id(&self) -> Option<i64> {
        Some(self.0.ra_id())
    }
    fn call(&mut self, m: &str, a: i64) -> Option<i64> {
        ra_call(&self.0, m, a)
    }
    no_consume!();
    fn group_borrow(&mut self, how: &str, req: &str, m: &str, a: i64) -> Option<Option<i64>> {
        let g = &mut self.0;
        match req {
            "Ma" => borrow_arm!(g, how, m, a, ro: [ma_call_ro], rw: [ma_call], Ma),
            "Kid" => borrow_arm!(g, how, m, a, ro: [kid_none_ro], rw: [kid_none], Kid),
            "Kid+Ma" => borrow_arm!(g, how, m, a, ro: [ma_call_ro], rw: [ma_call], Kid + Ma),
            "Rb" => borrow_arm!(g, how, m, a, ro: [rb_call], rw: [rb_call_m], Rb),
            "Ma+Rb" => borrow_arm!(g, how, m, a, ro: [ma_call_ro, rb_call], rw: [ma_call, rb_call_m], Ma + Rb),
            _ => None,
        }
    }
    fn group_move(self: Box<Self>, how: &str, req: &str) -> Moved {
        let g = self.0;
        match req {
            "Ma" => move_arm!(g, how, CMutMa, FMa, Ma),
            "Kid" => move_arm!(g, how, CMutKid, FKid, Kid),
            "Kid+Ma" => move_arm!(g, how, CMutKidMa, FKidMa, Kid + Ma),
            "Rb" => move_arm!(g, how, CMutRb, FRb, Rb),
            "Ma+Rb" => move_arm!(g, how, CMutMaRb, FMaRb, Ma + Rb),
            _ => Moved::Unsupported(Box::new(HGroup::<MutI, C>(g))),
        }
    }
    fn upcast(self: Box<Self>) -> Result<Box<dyn Caps>, Box<dyn Caps>> {
        Err(self)
    }
    fn as_caps(self: Box<Self>) -> Box<dyn Caps> {
        self
    }
}

impl<C: Cx> Caps for HGroup<RefI, C> {
    fn id(&self) -> Option<i64> {
        Some(self.0.ra_id())
    }
    fn call(&mut self, m: &str, a: i64) -> Option<i64> {
        ra_call(&self.0, m, a)
    }
    no_consume!();
    fn group_borrow(&mut self, how: &str, req: &str, m: &str, a: i64) -> Option<Option<i64>> {
        let g = &mut self.0;
        match req {
            "Rb" => borrow_arm_ro!(g, how, m, a, ro: [rb_call], Rb),
            _ => None,
        }
    }
    fn group_move(self: Box<Self>, how: &str, req: &str) -> Moved {
        let g = self.0;
        match req {
            "Rb" => move_arm!(g, how, CRefRb, FRb, Rb),
            _ => Moved::Unsupported(Box::new(HGroup::<RefI, C>(g))),
        }
    }
    fn upcast(self: Box<Self>) -> Result<Box<dyn Caps>, Box<dyn Caps>> {
        Err(self)
    }
    fn as_caps(self: Box<Self>) -> Box<dyn Caps> {
        self
    }
}

// ---------------------------------------------------------------------------------------------
// world
// ---------------------------------------------------------------------------------------------
struct Meta {
    kind: String,
    t: String,
    tr: String,
    req: Vec<String>,
    inst: usize,
    ctx: usize,
}

struct Slot {
    meta: Meta,
    obj: Box<dyn Caps>,
}

/// Where payloads and objects are created: in this module, or in a separately compiled plugin
/// (C05).  Payload bookkeeping (ids, destructor counts) lives in the module that runs the payload
/// code, so it is read through the same interface.
pub enum Backend {
    Local,
    Plugin(PluginFns),
}
pub struct PluginFns {
    _lib: libloading::Library,
    mk_owned: unsafe extern "C" fn(u32, u32, u32, u32, usize, i64, bool, CArc<c_void>) -> Made,
    mk_borrowed: unsafe extern "C" fn(u32, u32, u32, *mut EnvPay, bool, CArc<c_void>) -> ObjUnion,
    env_new: unsafe extern "C" fn(u32, usize, i64) -> *mut EnvPay,
    env_core: unsafe extern "C" fn(*mut EnvPay) -> *const Core,
    env_drop: unsafe extern "C" fn(*mut EnvPay),
    pay_drops: unsafe extern "C" fn(usize) -> u32,
    pay_created: unsafe extern "C" fn(usize) -> u32,
    pay_next_id: unsafe extern "C" fn() -> usize,
    pay_reset: unsafe extern "C" fn(),
    pay_uad: unsafe extern "C" fn() -> usize,
    ledger_live: unsafe extern "C" fn() -> usize,
    ledger_anoms: unsafe extern "C" fn() -> usize,
    pub build_info: String,
}
impl PluginFns {
    pub fn load(path: &str) -> Self {
        unsafe {
            let lib = libloading::Library::new(path).unwrap_or_else(|e| {
                eprintln!("TOOL-ERROR cannot load plugin {}: {}", path, e);
                std::process::exit(2)
            });
            macro_rules! sym { ($n:expr) => { *lib.get($n).unwrap_or_else(|e| { eprintln!("TOOL-ERROR plugin symbol: {}", e); std::process::exit(2) }) }; }
            let info: unsafe extern "C" fn() -> *const std::os::raw::c_char = sym!(b"xp_build_info");
            let build_info = std::ffi::CStr::from_ptr(info()).to_string_lossy().into_owned();
            PluginFns {
                mk_owned: sym!(b"xp_mk_owned"), mk_borrowed: sym!(b"xp_mk_borrowed"), env_new: sym!(b"xp_env_new"),
                env_core: sym!(b"xp_env_core"), env_drop: sym!(b"xp_env_drop"), pay_drops: sym!(b"xp_pay_drops"),
                pay_created: sym!(b"xp_pay_created"), pay_next_id: sym!(b"xp_pay_next_id"), pay_reset: sym!(b"xp_pay_reset"),
                pay_uad: sym!(b"xp_pay_uad"), ledger_live: sym!(b"xp_ledger_live"), ledger_anoms: sym!(b"xp_ledger_anoms"),
                build_info, _lib: lib,
            }
        }
    }
}
impl Backend {
    fn next_id(&self) -> usize { match self { Backend::Local => payload::next_id(), Backend::Plugin(p) => unsafe { (p.pay_next_id)() } } }
    fn drops(&self, i: usize) -> u32 { match self { Backend::Local => payload::drops(i), Backend::Plugin(p) => unsafe { (p.pay_drops)(i) } } }
    fn created(&self, i: usize) -> u32 { match self { Backend::Local => payload::created(i), Backend::Plugin(p) => unsafe { (p.pay_created)(i) } } }
    fn reset(&self) { match self { Backend::Local => payload::reset_ids(), Backend::Plugin(p) => unsafe { (p.pay_reset)() } } }
    fn uad(&self) -> usize { match self { Backend::Local => payload::use_after_drop(), Backend::Plugin(p) => unsafe { (p.pay_uad)() } } }
    fn foreign_live(&self) -> usize { match self { Backend::Local => 0, Backend::Plugin(p) => unsafe { (p.ledger_live)() } } }
    fn foreign_anoms(&self) -> usize { match self { Backend::Local => 0, Backend::Plugin(p) => unsafe { (p.ledger_anoms)() } } }
    fn drop_table(&self) -> Vec<(usize, u32)> {
        (1..self.next_id()).filter(|&i| self.created(i) > 0).map(|i| (i, self.drops(i))).collect()
    }
}

/// environment payload handle: owned here, or living in the plugin
enum EnvH {
    Local(EnvPay),
    Foreign(*mut EnvPay),
}

/// wrap whatever a constructor produced into the adapter's capability interface (host-side glue)
fn wrap(u: ObjUnion) -> Option<Box<dyn Caps>> {
    Some(match u {
        ObjUnion::None => return None,
        ObjUnion::RaBoxN(o) => Box::new(HRa(o)), ObjUnion::RaBoxA(o) => Box::new(HRa(o)),
        ObjUnion::RaMutN(o) => Box::new(HRa(o)), ObjUnion::RaMutA(o) => Box::new(HRa(o)),
        ObjUnion::RaRefN(o) => Box::new(HRa(o)), ObjUnion::RaRefA(o) => Box::new(HRa(o)),
        ObjUnion::RaArcN(o) => Box::new(HRa(o)), ObjUnion::RaArcA(o) => Box::new(HRa(o)),
        ObjUnion::RbBoxN(o) => Box::new(HRb(o)), ObjUnion::RbBoxA(o) => Box::new(HRb(o)),
        ObjUnion::RbMutN(o) => Box::new(HRb(o)), ObjUnion::RbMutA(o) => Box::new(HRb(o)),
        ObjUnion::RbRefN(o) => Box::new(HRb(o)), ObjUnion::RbRefA(o) => Box::new(HRb(o)),
        ObjUnion::MaBoxN(o) => Box::new(HMa(o)), ObjUnion::MaBoxA(o) => Box::new(HMa(o)),
        ObjUnion::MaMutN(o) => Box::new(HMa(o)), ObjUnion::MaMutA(o) => Box::new(HMa(o)),
        ObjUnion::ObBoxN(o) => Box::new(HOb(o)), ObjUnion::ObBoxA(o) => Box::new(HObArc(o)),
        ObjUnion::KidBoxN(o) => Box::new(HKid(o)), ObjUnion::KidBoxA(o) => Box::new(HKid(o)),
        ObjUnion::KidMutN(o) => Box::new(HKid(o)), ObjUnion::KidMutA(o) => Box::new(HKid(o)),
        ObjUnion::CloneBoxN(o) => Box::new(HClone(o)), ObjUnion::CloneBoxA(o) => Box::new(HClone(o)),
        ObjUnion::GBoxN(o) => Box::new(HGroup::<BoxI, NoContext>(o)), ObjUnion::GBoxA(o) => Box::new(HGroup::<BoxI, CArc<c_void>>(o)),
        ObjUnion::GMutN(o) => Box::new(HGroup::<MutI, NoContext>(o)), ObjUnion::GMutA(o) => Box::new(HGroup::<MutI, CArc<c_void>>(o)),
        ObjUnion::GRefN(o) => Box::new(HGroup::<RefI, NoContext>(o)), ObjUnion::GRefA(o) => Box::new(HGroup::<RefI, CArc<c_void>>(o)),
    })
}

pub struct World {
    slots: Vec<Option<Slot>>,
    be: Backend,
    env: Vec<Option<EnvH>>,            // by instance id
    shadow: Vec<Option<*const Core>>,  // address of every payload ever created (read val/ival while live)
    ctx_keep: Vec<Option<Arc<CtxP>>>,  // the environment's reference
    ctx_weak: Vec<std::sync::Weak<CtxP>>,
    nctx: usize,
    last: Value,
    base: ledger::Snap,
    foreign_base: (usize, usize),
    pub notes: Vec<String>,
}

fn mk_ctx(keep: &Arc<CtxP>) -> CArc<c_void> {
    if FOREIGN_CTX.load(std::sync::atomic::Ordering::SeqCst) {
        return fctx::make(keep.clone());
    }
    // the handle reaches the object by the routes a host may take: straight from the Arc, or through the conversions of
    // the handle types (CArc -> Option<CArcSome> -> CArc, take()) - none of which changes what it owns
    static ROUTE: std::sync::atomic::AtomicUsize = std::sync::atomic::AtomicUsize::new(0);
    let c = CArc::<CtxP>::from(keep.clone());
    match ROUTE.fetch_add(1, std::sync::atomic::Ordering::SeqCst) % 3 {
        0 => c.into_opaque(),
        1 => c.transpose().expect("non-empty handle").transpose().into_opaque(),
        _ => {
            let mut c = c;
            let t = c.take();
            drop(c); // the emptied handle: a no-op
            let some: Option<CArcSome<CtxP>> = t.into();
            CArc::<CtxP>::from(some).into_opaque()
        }
    }
}

/// every other behaviour runs with contexts made by "foreign code" (CArc.tla: FromForeign)
pub static FOREIGN_CTX: std::sync::atomic::AtomicBool = std::sync::atomic::AtomicBool::new(false);

/// A context the way a C / C++ host makes one: the three published words, filled in by hand, over the host's own
/// reference-counting scheme - here one HANDLE OBJECT per reference (its clone function returns a new handle object, its
/// drop function must be given each handle object it handed out exactly once).  Every handle object keeps one reference
/// on the environment's context value, so the projection's count is still the number of holders.  Handle objects are kept
/// until the next behaviour starts: a second release is counted instead of being undefined.
mod fctx {
    use super::CtxP;
    use cglue::arc::CArc;
    use cglue::trait_group::c_void;
    use std::sync::atomic::{AtomicUsize, Ordering::SeqCst};
    use std::sync::{Arc, Mutex};
    use vkit::ledger;

    struct FH {
        arc: Mutex<Option<Arc<CtxP>>>,
    }
    #[repr(C)]
    struct RawCtx {
        instance: *const c_void,
        clone_fn: Option<unsafe extern "C" fn(*const c_void) -> *const c_void>,
        drop_fn: Option<unsafe extern "C" fn(*const c_void)>,
    }
    static HANDLES: Mutex<Vec<usize>> = Mutex::new(Vec::new());
    pub static BAD: AtomicUsize = AtomicUsize::new(0);

    fn new_handle(arc: Arc<CtxP>) -> *const c_void {
        ledger::untracked(|| {
            let h = Box::into_raw(Box::new(FH { arc: Mutex::new(Some(arc)) }));
            HANDLES.lock().unwrap().push(h as usize);
            h as *const c_void
        })
    }
    fn known(p: *const c_void) -> Option<&'static FH> {
        if HANDLES.lock().unwrap().contains(&(p as usize)) {
            Some(unsafe { &*(p as *const FH) })
        } else {
            None
        }
    }
    unsafe extern "C" fn f_clone(p: *const c_void) -> *const c_void {
        let arc = known(p).and_then(|h| h.arc.lock().unwrap().clone());
        match arc {
            Some(a) => new_handle(a),
            None => {
                // cloned through a handle object that was never handed out, or that has been released already
                BAD.fetch_add(1, SeqCst);
                p
            }
        }
    }
    unsafe extern "C" fn f_drop(p: *const c_void) {
        let arc = known(p).and_then(|h| h.arc.lock().unwrap().take());
        match arc {
            Some(a) => ledger::untracked(|| drop(a)),
            None => {
                BAD.fetch_add(1, SeqCst);
            }
        }
    }
    pub fn make(arc: Arc<CtxP>) -> CArc<c_void> {
        let raw = RawCtx { instance: new_handle(arc), clone_fn: Some(f_clone), drop_fn: Some(f_drop) };
        assert_eq!(std::mem::size_of::<RawCtx>(), std::mem::size_of::<CArc<c_void>>());
        unsafe { std::mem::transmute::<RawCtx, CArc<c_void>>(raw) }
    }
    /// handle objects still holding their reference
    pub fn live() -> usize {
        HANDLES.lock().unwrap().iter().filter(|&&h| unsafe { &*(h as *const FH) }.arc.lock().unwrap().is_some()).count()
    }
    pub fn reset() {
        ledger::untracked(|| {
            for h in HANDLES.lock().unwrap().drain(..) {
                drop(unsafe { Box::from_raw(h as *mut FH) });
            }
        });
        BAD.store(0, SeqCst);
    }
}

macro_rules! build_obj {
    // $p: payload value (owned) or reference; produces Box<dyn Caps> for a single-trait object
    ($tr:expr, $inst:expr, $ctx:expr) => {{
        let b: Box<dyn Caps> = match ($tr, $ctx) {
            ("Ra", None) => Box::new(HRa(trait_obj!($inst as Ra))),
            ("Ra", Some(c)) => Box::new(HRa(trait_obj!(($inst, c) as Ra))),
            ("Rb", None) => Box::new(HRb(trait_obj!($inst as Rb))),
            ("Rb", Some(c)) => Box::new(HRb(trait_obj!(($inst, c) as Rb))),
            _ => unreachable!(),
        };
        b
    }};
}

impl World {
    pub fn new(nslots: usize, nctx: usize, be: Backend) -> Self {
        be.reset();
        fctx::reset();
        payload::LATE_PAYLOAD_DROPS.store(0, std::sync::atomic::Ordering::SeqCst);
        for c in CTX_DROPS.iter() {
            c.store(0, std::sync::atomic::Ordering::SeqCst);
        }
        let base = ledger::snap();
        let foreign_base = (be.foreign_live(), be.foreign_anoms());
        let keep: Vec<Option<Arc<CtxP>>> = (0..=nctx).map(|c| if c == 0 { None } else { Some(Arc::new(CtxP { id: c })) }).collect();
        let weak = keep.iter().map(|k| k.as_ref().map(Arc::downgrade).unwrap_or_default()).collect();
        World {
            slots: (0..nslots).map(|_| None).collect(),
            be,
            env: (0..64).map(|_| None).collect(),
            shadow: (0..64).map(|_| None).collect(),
            ctx_keep: keep,
            ctx_weak: weak,
            nctx,
            last: json!({"kind":"init","n":0}),
            base,
            foreign_base,
            notes: vec![],
        }
    }

    fn ctx_for(&self, c: usize) -> Option<CArc<c_void>> {
        if c == 0 {
            None
        } else {
            Some(mk_ctx(self.ctx_keep[c].as_ref().expect("context no longer held by the environment")))
        }
    }

    fn note_new_payloads(&mut self) {
        // payloads created inside the library (clones, children) are found through the id counter;
        // their addresses are unknown to the adapter, so their registers are read through objects
    }

    pub fn apply(&mut self, e: &Value) {
        payload::STEP_EPOCH.store(payload::CTX_RELEASES.load(std::sync::atomic::Ordering::SeqCst), std::sync::atomic::Ordering::SeqCst);
        let op = e["op"].as_str().unwrap();
        let x = e["x"].as_u64().unwrap_or(1) as usize - 1;
        let ok = json!({"kind":"ok","n":0});
        let ret = |n: i64| json!({"kind":"ret","n":n});
        match op {
            "EnvNew" => {
                let (pt, v) = (e["pt"].as_u64().unwrap() as u32, e["v"].as_i64().unwrap());
                let id = self.be.next_id();
                match &self.be {
                    Backend::Local => {
                        let p = ledger::track(|| EnvPay::new(pt, id, v));
                        self.shadow[id] = Some(p.core() as *const Core);
                        self.env[id] = Some(EnvH::Local(p));
                    }
                    Backend::Plugin(f) => unsafe {
                        let p = (f.env_new)(pt, id, v);
                        self.shadow[id] = Some((f.env_core)(p));
                        self.env[id] = Some(EnvH::Foreign(p));
                    },
                }
                self.last = ok;
            }
            "EnvDrop" => {
                let i = e["i"].as_u64().unwrap() as usize;
                match self.env[i].take() {
                    Some(EnvH::Local(p)) => ledger::track(|| drop(p)),
                    Some(EnvH::Foreign(p)) => unsafe {
                        if let Backend::Plugin(f) = &self.be { (f.env_drop)(p) }
                    },
                    None => {}
                }
                self.last = ok;
            }
            "EnvRelease" => {
                let c = e["c"].as_u64().unwrap() as usize;
                let k = self.ctx_keep[c].take();
                ledger::track(|| drop(k));
                self.last = ok;
            }
            "NewOwned" => {
                let (kind, t, tr) = (e["kind"].as_str().unwrap(), e["t"].as_str().unwrap(), e["tr"].as_str().unwrap());
                let (pt, v, c) = (e["pt"].as_u64().unwrap() as u32, e["v"].as_i64().unwrap(), e["c"].as_u64().unwrap() as usize);
                let id = self.be.next_id();
                let ctx = self.ctx_for(c);
                let (kc, tc, trc) = (ctor::kind_code(kind), if t == "group" { ctor::T_GROUP } else { ctor::T_OBJ }, ctor::tr_code(tr));
                let made = match &self.be {
                    Backend::Local => ledger::track(|| ctor::mk_owned(kc, tc, trc, pt, id, v, ctx)),
                    Backend::Plugin(f) => unsafe {
                        let has = ctx.is_some();
                        (f.mk_owned)(kc, tc, trc, pt, id, v, has, ctx.unwrap_or_default())
                    },
                };
                self.shadow[id] = Some(made.core);
                let obj = wrap(made.obj).unwrap_or_else(|| {
                    eprintln!("TOOL-ERROR NewOwned combination not in the family: {}", e);
                    std::process::exit(2)
                });
                self.slots[x] = Some(Slot {
                    meta: Meta { kind: kind.into(), t: t.into(), tr: tr.into(), req: vec![], inst: id, ctx: c },
                    obj,
                });
                self.last = ok;
            }
            "NewBorrowed" => {
                let (kind, t, tr) = (e["kind"].as_str().unwrap(), e["t"].as_str().unwrap(), e["tr"].as_str().unwrap());
                let (i, c) = (e["i"].as_u64().unwrap() as usize, e["c"].as_u64().unwrap() as usize);
                let ctx = self.ctx_for(c);
                let (kc, tc, trc) = (ctor::kind_code(kind), if t == "group" { ctor::T_GROUP } else { ctor::T_OBJ }, ctor::tr_code(tr));
                let u = match self.env[i].as_mut().expect("borrow of a dead environment payload") {
                    EnvH::Local(p) => ledger::track(|| ctor::mk_borrowed(kc, tc, trc, p, ctx)),
                    EnvH::Foreign(p) => unsafe {
                        let has = ctx.is_some();
                        match &self.be {
                            Backend::Plugin(f) => (f.mk_borrowed)(kc, tc, trc, *p, has, ctx.unwrap_or_default()),
                            _ => unreachable!(),
                        }
                    },
                };
                let obj = wrap(u).unwrap_or_else(|| {
                    eprintln!("TOOL-ERROR NewBorrowed combination not in the family: {}", e);
                    std::process::exit(2)
                });
                self.slots[x] = Some(Slot {
                    meta: Meta { kind: kind.into(), t: t.into(), tr: tr.into(), req: vec![], inst: i, ctx: c },
                    obj,
                });
                self.last = ok;
            }
            "Call" => {
                let (m, a) = (e["m"].as_str().unwrap(), e["a"].as_i64().unwrap());
                let s = self.slots[x].as_mut().unwrap();
                let r = ledger::track(|| s.obj.call(m, a)).expect("method not available on this handle type");
                self.last = ret(r);
            }
            "CastBorrow" => {
                let (how, m, a) = (e["how"].as_str().unwrap(), e["m"].as_str().unwrap(), e["a"].as_i64().unwrap());
                let req = join_req(&e["req"]);
                let s = self.slots[x].as_mut().unwrap();
                match ledger::track(|| s.obj.group_borrow(how, &req, m, a)) {
                    None => {
                        // this (kind, requested set) has no Rust type at all: the cast cannot even be written;
                        // the specification says it is refused
                        self.last = json!({"kind":"no","n":0});
                        self.notes.push(format!("uncompilable cast {} on {} treated as refused", req, s.meta.kind));
                    }
                    Some(None) => self.last = json!({"kind":"no","n":0}),
                    Some(Some(r)) => self.last = if how == "check" { json!({"kind":"yes","n":0}) } else { ret(r) },
                }
            }
            "CastMove" => {
                let how = e["how"].as_str().unwrap();
                let req = join_req(&e["req"]);
                let Slot { mut meta, obj } = self.slots[x].take().unwrap();
                match ledger::track(|| obj.group_move(how, &req)) {
                    Moved::Yes(o) => {
                        meta.t = if how == "cast" { "cast".into() } else { "final".into() };
                        meta.req = e["req"].as_array().unwrap().iter().map(|s| s.as_str().unwrap().to_string()).collect();
                        self.slots[x] = Some(Slot { meta, obj: o });
                        self.last = json!({"kind":"yes","n":0});
                    }
                    Moved::No => self.last = json!({"kind":"no","n":0}),
                    Moved::Unsupported(o) => {
                        // not expressible in Rust for this container kind: nothing happened
                        self.slots[x] = Some(Slot { meta, obj: o });
                        self.last = json!({"kind":"unsupported","n":0});
                    }
                }
            }
            "Upcast" => {
                let Slot { mut meta, obj } = self.slots[x].take().unwrap();
                let o = obj.upcast().unwrap_or_else(|_| panic!("upcast on a non-cast handle"));
                meta.t = "group".into();
                meta.req = vec![];
                self.slots[x] = Some(Slot { meta, obj: o });
                self.last = ok;
            }
            "Clone" => {
                let y = e["y"].as_u64().unwrap() as usize - 1;
                let id = self.be.next_id();
                let s = self.slots[x].as_ref().unwrap();
                let o = ledger::track(|| s.obj.clone_h()).expect("clone not available");
                let meta = Meta { kind: s.meta.kind.clone(), t: s.meta.t.clone(), tr: s.meta.tr.clone(), req: s.meta.req.clone(), inst: id, ctx: s.meta.ctx };
                self.slots[y] = Some(Slot { meta, obj: o });
                self.last = ok;
            }
            "KidOwned" => {
                let y = e["y"].as_u64().unwrap() as usize - 1;
                let id = self.be.next_id();
                let s = self.slots[x].as_ref().unwrap();
                let pinned = e["via"] == "pin";
                let o = ledger::track(|| s.obj.kid_owned(pinned)).expect("kid_owned not available");
                let meta = Meta { kind: "box".into(), t: "obj".into(), tr: "Ra".into(), req: vec![], inst: id, ctx: s.meta.ctx };
                self.slots[y] = Some(Slot { meta, obj: o });
                self.last = ok;
            }
            "KidBorrowed" => {
                let (which, m, a) = (e["which"].as_str().unwrap(), e["m"].as_str().unwrap(), e["a"].as_i64().unwrap());
                let sel = e["sel"].as_i64().unwrap_or(0);
                let s = self.slots[x].as_mut().unwrap();
                let r = ledger::track(|| if which == "ref" { s.obj.kid_ref(sel, m, a) } else { s.obj.kid_mut(sel, m, a) })
                    .expect("borrowed child not available");
                self.last = ret(r);
            }
            "KidView" => {
                let (m, a) = (e["m"].as_str().unwrap(), e["a"].as_i64().unwrap());
                let c = self.slots[x].as_ref().unwrap().meta.ctx;
                let weak = if c == 0 { None } else { Some(self.ctx_weak[c].clone()) };
                let probe = move || weak.as_ref().map(|w| w.strong_count()).unwrap_or(0);
                let s = self.slots[x].as_mut().unwrap();
                let (r, during) = ledger::track(|| s.obj.kid_view(m, a, &probe)).expect("lending child not available");
                self.last = json!({"kind":"view","n": r + 1000 * during as i64});
            }
            "Consume" => {
                let m = e["m"].as_str().unwrap();
                let Slot { meta, obj } = self.slots[x].take().unwrap();
                if m == "ob_take" {
                    // where the object's type allows it, through an interposed vtable slot: the window in which control
                    // is inside the callee is then known, and a context destructor running inside it is counted
                    let r = ledger::track(|| match obj.take_fine() {
                        Ok(r) => Ok(r),
                        Err(o) => o.take(),
                    })
                    .unwrap_or_else(|_| panic!("ob_take not available"));
                    self.last = ret(r);
                } else if m == "ob_try_err" {
                    let r = ledger::track(|| obj.try_child(true)).unwrap_or_else(|_| panic!("ob_try not available"));
                    self.last = if r.is_err() { json!({"kind":"err","n":0}) } else { json!({"kind":"unexpected-ok","n":0}) };
                } else if m == "ob_try_ok" {
                    let y = e["y"].as_u64().unwrap() as usize - 1;
                    let id = self.be.next_id();
                    let o = ledger::track(|| obj.try_child(false)).unwrap_or_else(|_| panic!("ob_try not available"));
                    match o {
                        Ok(o) => {
                            let meta2 = Meta { kind: "box".into(), t: "obj".into(), tr: "Ra".into(), req: vec![], inst: id, ctx: meta.ctx };
                            self.slots[y] = Some(Slot { meta: meta2, obj: o });
                            self.last = ok;
                        }
                        Err(()) => self.last = json!({"kind":"unexpected-err","n":0}),
                    }
                } else {
                    let y = e["y"].as_u64().unwrap() as usize - 1;
                    let id = self.be.next_id();
                    let o = ledger::track(|| obj.into_child()).unwrap_or_else(|_| panic!("ob_into not available"));
                    let meta2 = Meta { kind: "box".into(), t: "obj".into(), tr: "Ra".into(), req: vec![], inst: id, ctx: meta.ctx };
                    self.slots[y] = Some(Slot { meta: meta2, obj: o });
                    self.last = ok;
                }
            }
            "Drop" => {
                let s = self.slots[x].take().unwrap();
                ledger::track(|| drop(s.obj));
                self.last = ok;
            }
            _ => {
                eprintln!("TOOL-ERROR unknown op {}", op);
                std::process::exit(2);
            }
        }
    }

    /// registers of payload `i`, read from its memory while it is live (never after its drop)
    fn regs(&self, i: usize) -> (i64, i64, i64) {
        match self.shadow[i] {
            Some(p) if self.be.drops(i) == 0 => unsafe { ((*p).val, (*p).inner.val, (*p).inner2.val) },
            _ => (-1, -1, -1),
        }
    }

    pub fn proj(&mut self) -> Value {
        // learn the addresses of payloads created inside the library from the objects that own them
        let n = self.be.next_id();
        let pay: Vec<Value> = (1..n)
            .map(|i| {
                let d = self.be.drops(i);
                let st = if d == 0 { "live" } else { "dropped" };
                let (v, iv, iv2) = self.regs(i);
                json!([st, v, iv, d, iv2])
            })
            .collect();
        let h: Vec<Value> = self
            .slots
            .iter()
            .map(|s| match s {
                None => json!({"kind":"none","t":"none","tr":"","req":[],"inst":0,"ctx":0}),
                Some(s) => {
                    // the instance is read through the object whenever its traits allow it
                    let inst = match s.obj.id() {
                        Some(id) => id,
                        None => s.meta.inst as i64,
                    };
                    json!({"kind": s.meta.kind, "t": s.meta.t, "tr": s.meta.tr, "req": s.meta.req, "inst": inst, "ctx": s.meta.ctx})
                }
            })
            .collect();
        let cnt: Vec<usize> = (1..=self.nctx).map(|c| self.ctx_weak[c].strong_count()).collect();
        let env: Vec<bool> = (1..=self.nctx).map(|c| self.ctx_keep[c].is_some()).collect();
        let crel: Vec<usize> = (1..=self.nctx).map(|c| CTX_DROPS[c].load(std::sync::atomic::Ordering::SeqCst)).collect();
        json!({"pay": pay, "h": h, "cnt": cnt, "env": env, "crel": crel, "last": self.last})
    }

    /// Compare with the specification's expectation.  Returns (verdict, message):
    /// "ok", "known:F2" (context count explained by the listed borrowed-child leak) or "bad".
    pub fn compare(&mut self, exp: &Value, op: &str) -> (&'static str, String) {
        let (v, m) = self.compare_inner(exp, op);
        (v, m)
    }

    /// verdict strings: "ok", "known:F2", or "bad:<class>" with class in
    /// drop (C06) | ctx (C07) | call (C01) | cast (C08)
    fn compare_inner(&mut self, exp: &Value, op: &str) -> (&'static str, String) {
        let got = self.proj();
        let mut known = false;
        // payload registers of payloads whose address the adapter never saw (created inside the
        // library) cannot be read directly: compare them only when known
        let gp = got["pay"].as_array().unwrap();
        let ep = exp["pay"].as_array().unwrap();
        if gp.len() != ep.len() {
            return ("bad:drop", format!("number of payloads ever created differs: got {} expected {}", gp.len(), ep.len()));
        }
        for (i, (g, e)) in gp.iter().zip(ep.iter()).enumerate() {
            if g[0] != e[0] || g[3] != e[3] {
                return ("bad:drop", format!("payload {}: state/drop count differs: got {} expected {}", i + 1, g, e));
            }
            if g[1] != json!(-1) && e[0] == "live" && (g[1] != e[1] || g[2] != e[2] || g[4] != e[4]) {
                return ("bad:call", format!("payload {}: registers differ (a call changed the wrong state or the wrong amount): got {} expected {}", i + 1, g, e));
            }
        }
        let is_cast = op == "CastBorrow" || op == "CastMove" || op == "Upcast";
        if got["h"] != exp["h"] {
            let cls = if is_cast { "bad:cast" } else { "bad:call" };
            return (cls, format!("handles differ (view, requested traits or the instance the object dispatches to): got {} expected {}", got["h"], exp["h"]));
        }
        if got["last"] != exp["last"] && got["last"]["kind"] == "view" && exp["last"]["kind"] == "view"
            && got["last"]["n"].as_i64().unwrap_or(0) % 1000 == exp["last"]["n"].as_i64().unwrap_or(0) % 1000 {
            // the call through the lent wrapper returned what it should; what differs is the context count while it lived
            return ("bad:ctx", format!("context reference count while a lent child object is alive is {}, expected {} (the child holds its own clone)",
                                       got["last"]["n"].as_i64().unwrap_or(0) / 1000, exp["last"]["n"].as_i64().unwrap_or(0) / 1000));
        }
        if got["last"] != exp["last"] {
            let verdict_differs = got["last"]["kind"] != exp["last"]["kind"];
            let cls = if is_cast && verdict_differs { "bad:cast" } else { "bad:call" };
            return (cls, format!("outcome differs: got {} expected {}", got["last"], exp["last"]));
        }
        if got["env"] != exp["env"] {
            return ("bad:ctx", "environment context bookkeeping differs".into());
        }
        let nc = exp["cnt"].as_array().unwrap().len();
        for c in 0..nc {
            let real = got["cnt"][c].as_i64().unwrap();
            let with_leak = exp["cnt"][c].as_i64().unwrap();
            let leaked = exp["leaked"][c].as_i64().unwrap();
            let ideal = with_leak - leaked;
            if real == ideal {
                // the property's own predicate holds
            } else if leaked > 0 && real == with_leak {
                known = true;
            } else {
                return ("bad:ctx", format!("context {} reference count is {}, expected {} (holders + environment){}", c + 1, real, ideal,
                                       if leaked > 0 { format!(" or {} with the listed leak", with_leak) } else { String::new() }));
            }
            let crel_real = got["crel"][c].as_i64().unwrap();
            let crel_ideal = if ideal == 0 { 1 } else { 0 };
            let crel_dev = exp["crel"][c].as_i64().unwrap();
            if crel_real != crel_ideal && !(leaked > 0 && crel_real == crel_dev) {
                return ("bad:ctx", format!("context {} destructor ran {} times, expected {}", c + 1, crel_real, crel_ideal));
            }
        }
        if self.be.uad() > 0 {
            return ("bad:drop", "a call reached a destroyed payload".into());
        }
        // CGlueObj!ReleaseContainer: the instance is destroyed first, the context clone released after it.  (Payloads and
        // contexts of this module only: a plugin's payload destructors count in the plugin.)
        if payload::LATE_PAYLOAD_DROPS.swap(0, std::sync::atomic::Ordering::SeqCst) > 0 {
            return ("bad:ctx", "a payload's destructor ran after the context of the same object had been released (the last holder let the context go before its instance)".into());
        }
        if fctx::BAD.swap(0, std::sync::atomic::Ordering::SeqCst) > 0 {
            return ("bad:ctx", "a foreign-made context: a handle object was released twice, or a clone was taken / a release made through a handle the context's clone function never returned".into());
        }
        if CTX_RELEASED_IN_CALLEE.swap(0, std::sync::atomic::Ordering::SeqCst) > 0 {
            return ("bad:ctx", "the context was released while a by-value call was still executing in the callee (no guard clone alive across the call)".into());
        }
        if known { ("known:F2", String::new()) } else { ("ok", String::new()) }
    }

    /// Drop everything; returns (verdict, message) for the quiescent-state clauses.
    pub fn teardown(mut self, leaked_expected: &[i64]) -> (&'static str, String) {
        for s in self.slots.iter_mut() {
            if let Some(s) = s.take() {
                payload::STEP_EPOCH.store(payload::CTX_RELEASES.load(std::sync::atomic::Ordering::SeqCst), std::sync::atomic::Ordering::SeqCst);
                ledger::track(|| drop(s.obj));
            }
        }
        payload::STEP_EPOCH.store(payload::CTX_RELEASES.load(std::sync::atomic::Ordering::SeqCst), std::sync::atomic::Ordering::SeqCst);
        for p in self.env.iter_mut() {
            match p.take() {
                Some(EnvH::Local(p)) => ledger::track(|| drop(p)),
                Some(EnvH::Foreign(p)) => unsafe {
                    if let Backend::Plugin(f) = &self.be { (f.env_drop)(p) }
                },
                None => {}
            }
        }
        for (id, d) in self.be.drop_table() {
            if d != 1 {
                return ("bad:drop", format!("payload {} dropped {} times once every object is gone", id, d));
            }
        }
        if payload::LATE_PAYLOAD_DROPS.swap(0, std::sync::atomic::Ordering::SeqCst) > 0 {
            return ("bad:ctx", "a payload's destructor ran after the context of the same object had been released".into());
        }
        if fctx::BAD.swap(0, std::sync::atomic::Ordering::SeqCst) > 0 {
            return ("bad:ctx", "a foreign-made context: a handle object was released twice or through a handle its clone function never returned".into());
        }
        let mut known = false;
        for c in 1..=self.nctx {
            let real = self.ctx_weak[c].strong_count() as i64;
            let base = if self.ctx_keep[c].is_some() { 1 } else { 0 };
            let leak = leaked_expected.get(c - 1).copied().unwrap_or(0);
            if real == base {
            } else if leak > 0 && real == base + leak {
                known = true;
            } else {
                return ("bad:ctx", format!("context {} reference count is {} after every derived object is gone (starting value {})", c, real, base));
            }
        }
        let keep = std::mem::take(&mut self.ctx_keep);
        ledger::track(|| drop(keep));
        let s = ledger::snap();
        if s.anomalies != self.base.anomalies {
            return ("bad:drop", format!("allocator anomalies: {:?}", ledger::anomalies_since(self.base.anomalies)));
        }
        if !known && s.live != self.base.live {
            return ("bad:drop", format!("leak: {} blocks still allocated after every object and context is gone", s.live as i64 - self.base.live as i64));
        }
        if self.be.uad() > 0 {
            return ("bad:drop", "a call reached a destroyed payload".into());
        }
        // memory owned by plugin-created values must have been released by the plugin's allocator
        if !known && self.be.foreign_live() != self.foreign_base.0 {
            return ("bad:drop", format!("plugin-side leak: {} blocks still allocated in the plugin after every object is gone",
                                        self.be.foreign_live() as i64 - self.foreign_base.0 as i64));
        }
        if self.be.foreign_anoms() != self.foreign_base.1 {
            return ("bad:drop", "the plugin's allocator was handed memory it did not allocate (or a wrong layout)".into());
        }
        if known { ("known:F2", String::new()) } else { ("ok", String::new()) }
    }
}

fn join_req(v: &Value) -> String {
    v.as_array().unwrap().iter().map(|s| s.as_str().unwrap()).collect::<Vec<_>>().join("+")
}

fn replay(lines: &[String], nslots: usize, nctx: usize, plugin: &Option<String>) -> (usize, Vec<Value>, usize) {
    let mut failures = vec![];
    let mut steps = 0;
    let mut known = 0;
    for (bi, line) in lines.iter().enumerate() {
        vkit::mark(bi);
        let beh: Value = serde_json::from_str(line).expect("behaviour json");
        crate::xmodad::AllocTrace::begin();
        // every other behaviour with contexts made by foreign code (one handle object per reference)
        FOREIGN_CTX.store(bi % 2 == 1, std::sync::atomic::Ordering::SeqCst);
        let mut w = World::new(nslots, nctx, mk_backend(plugin));
        let mut failed = None;
        let mut beh_known = false;
        let mut leaked: Vec<i64> = vec![0; nctx];
        for (si, st) in beh.as_array().unwrap().iter().enumerate() {
            steps += 1;
            vkit::mark_op(st["a"]["op"].as_str().unwrap());
            w.apply(&st["a"]);
            let (v, msg) = w.compare(&st["exp"], st["a"]["op"].as_str().unwrap());
            leaked = st["exp"]["leaked"].as_array().unwrap().iter().map(|x| x.as_i64().unwrap()).collect();
            match v {
                "ok" => {}
                "known:F2" => beh_known = true,
                _ => {
                    failed = Some((si, msg, v));
                    break;
                }
            }
        }
        if failed.is_none() {
            let (v, msg) = w.teardown(&leaked);
            match v {
                "ok" => {}
                "known:F2" => beh_known = true,
                _ => failed = Some((beh.as_array().unwrap().len(), msg, v)),
            }
        } else {
            std::mem::forget(w); // state is suspect: do not run more destructors
        }
        if beh_known {
            known += 1;
        }
        // a behaviour touched by the listed finding F2 keeps a context reference for good: not balanced, by that finding
        crate::xmodad::AllocTrace::end(failed.is_none() && !beh_known);
        if let Some((si, msg, v)) = failed {
            failures.push(json!({"behaviour": bi, "step": si, "msg": msg, "class": &v[4..], "beh": beh}));
            if failures.len() >= 40 {
                break;
            }
        }
    }
    (steps, failures, known)
}

/// impl -> spec: execute behaviours, log what the real objects show after every operation
/// (never the generator's expectation).  Behaviours that exercise a wrapped borrowed child on an
/// object with a context go to a second file (`<out>.kid`): they are the ones the listed finding
/// F2 can affect, and are judged separately.
fn mk_backend(plugin: &Option<String>) -> Backend {
    match plugin {
        None => Backend::Local,
        Some(p) => Backend::Plugin(PluginFns::load(p)),
    }
}

fn trace(lines: &[String], out: &str, nslots: usize, nctx: usize, plugin: &Option<String>) {
    let mut main_log = vkit::NdJson::create(out);
    let mut kid_log = vkit::NdJson::create(&format!("{}.kid", out));
    for (li, line) in lines.iter().enumerate() {
        let beh: Value = serde_json::from_str(line).expect("behaviour json");
        // recorded executions too: every other one with contexts made by foreign code
        FOREIGN_CTX.store(li % 2 == 1, std::sync::atomic::Ordering::SeqCst);
        let touches_kid = beh.as_array().unwrap().iter().any(|st| st["a"]["op"] == "KidBorrowed");
        let log = if touches_kid { &mut kid_log } else { &mut main_log };
        let mut w = World::new(nslots, nctx, mk_backend(plugin));
        log.emit(&json!({"op":"reset"}));
        for st in beh.as_array().unwrap() {
            let a = &st["a"];
            if a["op"] == "Consume" && a["m"] == "ob_take" {
                // try the interposed-vtable path
                let x = a["x"].as_u64().unwrap() as usize - 1;
                let Slot { meta, obj } = w.slots[x].take().unwrap();
                objfam::EVENT_SINK.lock().unwrap().clear();
                objfam::BODY_EVENTS.store(1, std::sync::atomic::Ordering::SeqCst);
                match ledger::track(|| obj.take_fine()) {
                    Ok(r) => {
                        objfam::BODY_EVENTS.store(0, std::sync::atomic::Ordering::SeqCst);
                        w.last = json!({"kind":"ret","n":r});
                        log.emit(&json!({"op":"ConsumeFine","x":a["x"],"m":"ob_take"}));
                        let evs: Vec<(String, usize)> = objfam::EVENT_SINK.lock().unwrap().drain(..).collect();
                        for (ev, id) in evs {
                            log.emit(&json!({"op":"fine","ev":ev,"c":id}));
                        }
                        log.emit(&json!({"op":"fine","ev":"done","y":a["y"],"proj":w.proj()}));
                        continue;
                    }
                    Err(o) => {
                        objfam::BODY_EVENTS.store(0, std::sync::atomic::Ordering::SeqCst);
                        w.slots[x] = Some(Slot { meta, obj: o });
                    }
                }
            }
            w.apply(a);
            let mut ev = a.clone();
            ev.as_object_mut().unwrap().insert("proj".into(), w.proj());
            log.emit(&ev);
        }
        let (v, msg) = if touches_kid { ("ok", String::new()) } else { w.teardown(&vec![0; nctx]) };
        log.emit(&json!({"op":"quiescent","ok": v == "ok", "msg": msg}));
    }
    main_log.flush();
    kid_log.flush();
    println!("{}", json!({"summary":"trace","events": main_log.lines, "kid_events": kid_log.lines}));
}

pub fn main(args: &[String]) {
    let mode = args[0].as_str();
    let path = args.get(1).cloned().unwrap_or_default();
    let geti = |f: &str, d: usize| vkit::arg_after(args, f).map(|s| s.parse().unwrap()).unwrap_or(d);
    let (nslots, nctx) = (geti("--slots", 3), geti("--ctx", 1));
    let plugin = vkit::arg_after(args, "--plugin");
    match mode {
        "replay" => {
            let lines = vkit::read_lines(&path);
            crate::xmodad::AllocTrace::start_from_args(args);
            let (steps, failures, known) = replay(&lines, nslots, nctx, &plugin);
            let at = crate::xmodad::AllocTrace::finish();
            let info = plugin.as_ref().map(|p| PluginFns::load(p).build_info).unwrap_or_default();
            vkit::summary("obj-replay", lines.len(), steps, &failures, json!({"known_F2": known, "plugin": info, "alloc_trace_events": at}));
        }
        "trace" => {
            let lines = vkit::read_lines(&path);
            let out = args.get(2).cloned().unwrap();
            trace(&lines, &out, nslots, nctx, &plugin);
        }
        _ => {
            eprintln!("TOOL-ERROR mode");
            std::process::exit(2)
        }
    }
}
