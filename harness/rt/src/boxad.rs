//! Adapter for spec/Boxes.tla: CBox / CSliceBox / typed single-trait objects with heap-owning and
//! zero-sized payloads, dropped directly, after into_opaque, or unwrapped with into_inner.
use cglue::boxed::{CBox, CSliceBox};
use cglue::trait_group::{c_void, IntoInner, NoContext, Opaquable};
use cglue::*;
use std::sync::atomic::{AtomicUsize, Ordering::SeqCst};
use vkit::payload::{self, Heavy};
use vkit::{json, ledger, Value};

/// zero-sized payload with a destructor; identities are positional: the k-th created / k-th dropped
pub struct Z;
static Z_DROPS: AtomicUsize = AtomicUsize::new(0);
impl Drop for Z {
    fn drop(&mut self) {
        Z_DROPS.fetch_add(1, SeqCst);
    }
}

/// plain data: no drop glue at all (`needs_drop::<Pod>()` is false); only the block that holds it has a life cycle
#[derive(Clone, Copy)]
pub struct Pod {
    id: u64,
    val: u64,
}
impl Pod {
    fn new(id: usize) -> Self {
        Pod { id: id as u64, val: !(id as u64) }
    }
}
impl Tag for Pod {
    fn tag(&self) -> u64 {
        assert_eq!(self.val, !self.id);
        self.id
    }
}

#[cglue_trait]
pub trait Tag {
    fn tag(&self) -> u64;
}
impl Tag for Heavy {
    fn tag(&self) -> u64 {
        self.check();
        self.id as u64
    }
}
impl Tag for Z {
    fn tag(&self) -> u64 {
        0
    }
}

// ---- boxes made by foreign code (Boxes.tla: own = "foreign" | "loan") -------------------------------------------------
// The two published words filled in by hand.  The maker's release function checks that it is given a pointer it handed
// out and that it sees it only once (released storage stays registered, so a second release is counted, not undefined).
#[repr(C)]
struct RawBox<T> {
    instance: *mut T,
    drop_fn: Option<unsafe extern "C" fn(*mut T)>,
}
static F_LIVE: std::sync::Mutex<Vec<usize>> = std::sync::Mutex::new(Vec::new());
static F_DEAD: std::sync::Mutex<Vec<usize>> = std::sync::Mutex::new(Vec::new());
static F_BAD: AtomicUsize = AtomicUsize::new(0);
unsafe extern "C" fn f_release<T>(p: *mut T) {
    let mut live = F_LIVE.lock().unwrap();
    match live.iter().position(|&x| x == p as usize) {
        Some(i) => {
            live.swap_remove(i);
            ledger::untracked(|| F_DEAD.lock().unwrap().push(p as usize));
            drop(live);
            drop(Box::from_raw(p));
        }
        None => {
            F_BAD.fetch_add(1, SeqCst);
        }
    }
}
/// returns the box and the storage the environment keeps for a loan
fn foreign_box<T>(v: T, owned: bool) -> (CBox<'static, T>, *mut T) {
    let p = Box::into_raw(Box::new(v));
    if owned {
        ledger::untracked(|| F_LIVE.lock().unwrap().push(p as usize));
    }
    let raw = RawBox { instance: p, drop_fn: if owned { Some(f_release::<T> as unsafe extern "C" fn(*mut T)) } else { None } };
    assert_eq!(std::mem::size_of::<RawBox<T>>(), std::mem::size_of::<CBox<'static, T>>());
    (unsafe { std::mem::transmute_copy::<RawBox<T>, CBox<'static, T>>(&raw) }, p)
}
enum Lent {
    H(*mut Heavy),
    P(*mut Pod),
}

enum B {
    BoxH(CBox<'static, Heavy>),
    BoxZ(CBox<'static, Z>),
    BoxP(CBox<'static, Pod>),
    BoxO(CBox<'static, c_void>),
    SliceH(CSliceBox<'static, Heavy>),
    SliceZ(CSliceBox<'static, Z>),
    SliceP(CSliceBox<'static, Pod>),
    SliceO(CSliceBox<'static, c_void>),
    ObjH(TagBaseBox<'static, Heavy>),
    ObjZ(TagBaseBox<'static, Z>),
    ObjP(TagBaseBox<'static, Pod>),
    ObjO(TagBox<'static>),
}

struct Slot {
    b: B,
    kind: &'static str,
    form: &'static str,
    pk: &'static str,
    ids: Vec<usize>,
    own: &'static str,
    lent: Option<Lent>,
}

struct World {
    slots: Vec<Option<Slot>>,
    next: usize,
    zids: Vec<usize>,      // ids handed to zero-sized payloads, in creation order
    pids: Vec<usize>,      // ids handed to plain-data payloads (no destructor to count)
    kept: Vec<(Vec<usize>, Lent)>, // storage lent through a box that is gone: the environment's to destroy
    zdropped: Vec<usize>,  // ids the model says are dropped (zero-sized), to compare counts
    base: ledger::Snap,
}

impl World {
    fn new(n: usize) -> Self {
        payload::reset_ids();
        Z_DROPS.store(0, SeqCst);
        F_LIVE.lock().unwrap().clear();
        F_DEAD.lock().unwrap().clear();
        F_BAD.store(0, SeqCst);
        World { slots: (0..n).map(|_| None).collect(), next: 1, zids: vec![], pids: vec![], kept: vec![], zdropped: vec![], base: ledger::snap() }
    }
    fn fresh(&mut self, pk: &str) -> usize {
        let id = self.next;
        self.next += 1;
        if pk == "zst" {
            self.zids.push(id);
        }
        if pk == "pod" {
            self.pids.push(id);
        }
        id
    }
    fn apply(&mut self, e: &Value) {
        let s = e["s"].as_u64().unwrap_or(1) as usize - 1;
        match e["op"].as_str().unwrap() {
            "EnvRelease" => {
                for (_, l) in std::mem::take(&mut self.kept) {
                    ledger::track(|| unsafe {
                        match l {
                            Lent::H(p) => drop(Box::from_raw(p)),
                            Lent::P(p) => drop(Box::from_raw(p)),
                        }
                    });
                }
            }
            "New" => {
                let (kind, pk, n, via) = (e["kind"].as_str().unwrap(), e["pk"].as_str().unwrap(), e["n"].as_u64().unwrap() as usize, e["via"].as_str().unwrap());
                let ids: Vec<usize> = (0..n).map(|_| self.fresh(pk)).collect();
                let mut lent = None;
                let b = ledger::track(|| match (kind, pk) {
                    ("cbox", "heavy") if via == "foreign" || via == "loan" => {
                        let (b, p) = foreign_box(Heavy::new(ids[0], ids[0] as i64), via == "foreign");
                        if via == "loan" {
                            lent = Some(Lent::H(p));
                        }
                        B::BoxH(b)
                    }
                    ("cbox", "pod") if via == "foreign" || via == "loan" => {
                        let (b, p) = foreign_box(Pod::new(ids[0]), via == "foreign");
                        if via == "loan" {
                            lent = Some(Lent::P(p));
                        }
                        B::BoxP(b)
                    }
                    ("cbox", "heavy") => {
                        let h = Heavy::new(ids[0], ids[0] as i64);
                        B::BoxH(match via { "from_t" => CBox::from(h), "from_box" => CBox::from(Box::new(h)), _ => CBox::from((h, NoContext::default())) })
                    }
                    ("cbox", "pod") => {
                        let h = Pod::new(ids[0]);
                        B::BoxP(match via { "from_t" => CBox::from(h), "from_box" => CBox::from(Box::new(h)), _ => CBox::from((h, NoContext::default())) })
                    }
                    ("sbox", "pod") => B::SliceP(CSliceBox::from(ids.iter().map(|&i| Pod::new(i)).collect::<Vec<_>>().into_boxed_slice())),
                    ("obj", "pod") => B::ObjP(TagBaseBox::from(Pod::new(ids[0]))),
                    ("cbox", _) => B::BoxZ(match via { "from_t" => CBox::from(Z), "from_box" => CBox::from(Box::new(Z)), _ => CBox::from((Z, NoContext::default())) }),
                    ("sbox", "heavy") => B::SliceH(CSliceBox::from(ids.iter().map(|&i| Heavy::new(i, i as i64)).collect::<Vec<_>>().into_boxed_slice())),
                    ("sbox", _) => B::SliceZ(CSliceBox::from((0..n).map(|_| Z).collect::<Vec<_>>().into_boxed_slice())),
                    ("obj", "heavy") => B::ObjH(TagBaseBox::from(Heavy::new(ids[0], ids[0] as i64))),
                    _ => B::ObjZ(TagBaseBox::from(Z)),
                });
                let (k, p): (&'static str, &'static str) = (match kind { "cbox" => "cbox", "sbox" => "sbox", _ => "obj" }, match pk { "heavy" => "heavy", "pod" => "pod", _ => "zst" });
                let own = match via { "foreign" => "foreign", "loan" => "loan", _ => "rust" };
                self.slots[s] = Some(Slot { b, kind: k, form: "typed", pk: p, ids, own, lent });
            }
            "IntoOpaque" => {
                let mut sl = self.slots[s].take().unwrap();
                sl.b = match sl.b {
                    B::BoxH(b) => B::BoxO(b.into_opaque()),
                    B::BoxZ(b) => B::BoxO(b.into_opaque()),
                    B::BoxP(b) => B::BoxO(b.into_opaque()),
                    B::SliceP(b) => B::SliceO(b.into_opaque()),
                    B::ObjP(o) => B::ObjO(o.into_opaque()),
                    B::SliceH(b) => B::SliceO(b.into_opaque()),
                    B::SliceZ(b) => B::SliceO(b.into_opaque()),
                    B::ObjH(o) => B::ObjO(o.into_opaque()),
                    B::ObjZ(o) => B::ObjO(o.into_opaque()),
                    other => other,
                };
                sl.form = "opaque";
                self.slots[s] = Some(sl);
            }
            "IntoInner" => {
                let sl = self.slots[s].take().unwrap();
                if sl.pk == "zst" {
                    self.zdropped.extend(sl.ids.iter());
                }
                ledger::track(|| match sl.b {
                    B::BoxH(b) => drop(unsafe { b.into_inner() }),
                    B::BoxZ(b) => drop(unsafe { b.into_inner() }),
                    B::BoxP(b) => {
                        let v = unsafe { b.into_inner() };
                        assert_eq!(v.tag() as usize, sl.ids[0]);
                    }
                    _ => unreachable!(),
                });
            }
            "Write" => {
                let k = e["k"].as_u64().unwrap() as usize - 1;
                let pk = self.slots[s].as_ref().unwrap().pk;
                let id = self.fresh(pk);
                let old = {
                    let sl = self.slots[s].as_mut().unwrap();
                    let old = sl.ids[k];
                    sl.ids[k] = id;
                    ledger::track(|| match &mut sl.b {
                        B::BoxH(b) => **b = Heavy::new(id, id as i64),
                        B::BoxZ(b) => **b = Z,
                        B::BoxP(b) => {
                            assert_eq!(b.tag() as usize, old);
                            **b = Pod::new(id)
                        }
                        B::SliceP(b) => {
                            assert_eq!(b[k].tag() as usize, old);
                            b[k] = Pod::new(id)
                        }
                        B::SliceH(b) => b[k] = Heavy::new(id, id as i64),
                        B::SliceZ(b) => b[k] = Z,
                        _ => unreachable!(),
                    });
                    old
                };
                if pk == "zst" {
                    self.zdropped.push(old);
                }
            }
            "Drop" => {
                let sl = self.slots[s].take().unwrap();
                if sl.pk == "zst" {
                    self.zdropped.extend(sl.ids.iter());
                }
                if let B::BoxP(b) = &sl.b {
                    assert_eq!(b.tag() as usize, sl.ids[0]);
                }
                let Slot { b, ids, lent, .. } = sl;
                ledger::track(|| drop(b));
                if let Some(l) = lent {
                    self.kept.push((ids, l));
                }
            }
            _ => unreachable!(),
        }
    }
    /// compare with the model: slots exactly; heavy payload drop counts per id; zero-sized: total count
    fn compare(&self, exp: &Value) -> Option<String> {
        let slots: Vec<Value> = self.slots.iter().map(|s| match s {
            None => json!(["free", "typed", "heavy", [], "rust"]),
            Some(s) => json!([s.kind, s.form, s.pk, s.ids, s.own]),
        }).collect();
        if json!(slots) != exp["slots"] {
            return Some(format!("slots differ: got {} expected {}", json!(slots), exp["slots"]));
        }
        let kept: Vec<bool> = (1..self.next).map(|i| self.kept.iter().any(|(ids, _)| ids.contains(&i))).collect();
        if json!(kept) != exp["kept"] {
            return Some(format!("payloads still held by the environment differ: got {} expected {}", json!(kept), exp["kept"]));
        }
        // what the environment still holds must be intact
        for (ids, l) in self.kept.iter() {
            let ok = unsafe {
                match l {
                    Lent::H(p) => (**p).check() && (**p).id as usize == ids[0],
                    Lent::P(p) => (**p).tag() as usize == ids[0],
                }
            };
            if !ok {
                return Some(format!("the value lent through a box (payload {}) was destroyed or altered by dropping the box", ids[0]));
            }
        }
        if F_BAD.load(SeqCst) > 0 {
            return Some("the release function of a box made by foreign code was given a pointer it never handed out, or the same one twice".into());
        }
        let ed = exp["drops"].as_array().unwrap();
        let mut zexp = 0;
        for (i, d) in ed.iter().enumerate() {
            let id = i + 1;
            if self.zids.contains(&id) {
                zexp += d.as_u64().unwrap() as usize;
            } else if self.pids.contains(&id) {
                // plain data: nothing to count; the block is accounted for by the allocator ledger
            } else if payload::drops(id) as u64 != d.as_u64().unwrap() {
                return Some(format!("payload {} dropped {} times, expected {}", id, payload::drops(id), d));
            }
        }
        if Z_DROPS.load(SeqCst) != zexp {
            return Some(format!("zero-sized payloads: destructor ran {} times, expected {}", Z_DROPS.load(SeqCst), zexp));
        }
        if payload::use_after_drop() > 0 {
            return Some("use after drop observed".into());
        }
        let s = ledger::snap();
        if s.anomalies != self.base.anomalies {
            return Some(format!("allocator anomalies: {:?}", ledger::anomalies_since(self.base.anomalies)));
        }
        None
    }
    fn teardown(mut self) -> Option<String> {
        let mut ztotal = 0;
        for s in self.slots.iter_mut() {
            if let Some(sl) = s.take() {
                let Slot { b, ids, lent, .. } = sl;
                ledger::track(|| drop(b));
                if let Some(l) = lent {
                    self.kept.push((ids, l));
                }
            }
        }
        for (_, l) in std::mem::take(&mut self.kept) {
            ledger::track(|| unsafe {
                match l {
                    Lent::H(p) => drop(Box::from_raw(p)),
                    Lent::P(p) => drop(Box::from_raw(p)),
                }
            });
        }
        if F_BAD.load(SeqCst) > 0 || !F_LIVE.lock().unwrap().is_empty() {
            return Some(format!("boxes made by foreign code: {} never given back to their release function, {} bad releases", F_LIVE.lock().unwrap().len(), F_BAD.load(SeqCst)));
        }
        for (id, d) in payload::drop_table() {
            if d != 1 {
                return Some(format!("payload {} dropped {} times once everything is gone", id, d));
            }
        }
        ztotal += self.zids.len();
        if Z_DROPS.load(SeqCst) != ztotal {
            return Some(format!("zero-sized payloads: {} created, destructor ran {} times once everything is gone", ztotal, Z_DROPS.load(SeqCst)));
        }
        let s = ledger::snap();
        if s.live != self.base.live {
            return Some(format!("leak: {} blocks still allocated", s.live as i64 - self.base.live as i64));
        }
        if s.anomalies != self.base.anomalies {
            return Some(format!("allocator anomalies: {:?}", ledger::anomalies_since(self.base.anomalies)));
        }
        None
    }
}

impl World {
    /// the observable state in the shape of Boxes!Proj (Trace_Boxes!Observed says which parts are compared how)
    fn proj(&self) -> Value {
        let slots: Vec<Value> = self.slots.iter().map(|s| match s {
            None => json!(["free", "typed", "heavy", [], "rust"]),
            Some(s) => json!([s.kind, s.form, s.pk, s.ids, s.own]),
        }).collect();
        let kept: Vec<bool> = (1..self.next).map(|i| self.kept.iter().any(|(ids, _)| ids.contains(&i))).collect();
        let drops: Vec<u32> = (1..self.next).map(|i| if self.zids.contains(&i) || self.pids.contains(&i) { 0 } else { payload::drops(i) }).collect();
        json!({"slots": slots, "kept": kept, "drops": drops, "zdrops": Z_DROPS.load(SeqCst)})
    }
}

/// impl -> spec: random operations on the real types, every event with the state observed after it (Trace_Boxes.tla)
fn trace(out: &str, seed: u64, events: usize) {
    let mut log = vkit::NdJson::create(out);
    let mut rng = vkit::rng::Rng::new(seed);
    let mut emitted = 0;
    let nslots = 3;
    while emitted < events {
        let mut w = World::new(nslots);
        log.emit(&json!({"op":"reset"}));
        emitted += 1;
        for _ in 0..(20 + rng.below(60)) {
            if w.next > 140 {
                break;
            }
            let mut cand: Vec<Value> = vec![];
            for s in 0..nslots {
                match &w.slots[s] {
                    None => {
                        let pk = *rng.pick(&["heavy", "zst", "pod"]);
                        cand.push(match rng.below(4) {
                            0 => json!({"op":"New","s":s+1,"kind":"sbox","pk":pk,"n":rng.below(4),"via":"from_box"}),
                            1 => json!({"op":"New","s":s+1,"kind":"obj","pk":pk,"n":1,"via":"from_t"}),
                            2 if pk != "zst" => json!({"op":"New","s":s+1,"kind":"cbox","pk":pk,"n":1,"via":*rng.pick(&["foreign","loan"])}),
                            _ => json!({"op":"New","s":s+1,"kind":"cbox","pk":pk,"n":1,"via":*rng.pick(&["from_t","from_box","from_tuple"])}),
                        });
                    }
                    Some(sl) => {
                        cand.push(json!({"op":"Drop","s":s+1}));
                        if sl.form == "typed" {
                            cand.push(json!({"op":"IntoOpaque","s":s+1}));
                            if sl.kind == "cbox" && sl.own == "rust" {
                                cand.push(json!({"op":"IntoInner","s":s+1}));
                            }
                            if (sl.kind == "cbox" || sl.kind == "sbox") && !sl.ids.is_empty() {
                                cand.push(json!({"op":"Write","s":s+1,"k":1 + rng.below(sl.ids.len())}));
                                cand.push(json!({"op":"Write","s":s+1,"k":1 + rng.below(sl.ids.len())}));
                            }
                        }
                    }
                }
            }
            if !w.kept.is_empty() {
                cand.push(json!({"op":"EnvRelease"}));
            }
            let e = rng.pick(&cand).clone();
            w.apply(&e);
            let mut ev = e.clone();
            ev.as_object_mut().unwrap().insert("proj".into(), w.proj());
            log.emit(&ev);
            emitted += 1;
        }
        let bad = F_BAD.load(SeqCst) > 0 || payload::use_after_drop() > 0;
        let td = w.teardown();
        log.emit(&json!({"op":"quiescent","ok": td.is_none() && !bad, "msg": td.unwrap_or_default()}));
        emitted += 1;
    }
    log.flush();
    println!("{}", json!({"summary":"trace","events":emitted}));
}

pub fn main(args: &[String]) {
    if args[0] == "trace" {
        let geti = |f: &str, d: usize| vkit::arg_after(args, f).map(|s| s.parse().unwrap()).unwrap_or(d);
        return trace(&args[1], geti("--seed", 1) as u64, geti("--events", 1000));
    }
    let lines = vkit::read_lines(&args[1]);
    let mut failures = vec![];
    let mut steps = 0;
    for (bi, line) in lines.iter().enumerate() {
        vkit::mark(bi);
        let beh: Value = serde_json::from_str(line).unwrap();
        let mut w = World::new(2);
        let mut failed = None;
        for (si, st) in beh.as_array().unwrap().iter().enumerate() {
            steps += 1;
            w.apply(&st["a"]);
            if let Some(m) = w.compare(&st["exp"]) {
                failed = Some((si, m));
                break;
            }
        }
        let td = w.teardown();
        if failed.is_none() {
            if let Some(m) = td {
                failed = Some((beh.as_array().unwrap().len(), m));
            }
        }
        if let Some((si, msg)) = failed {
            failures.push(json!({"behaviour": bi, "step": si, "msg": msg, "beh": beh}));
            if failures.len() >= 10 {
                break;
            }
        }
    }
    vkit::summary("boxes-replay", lines.len(), steps, &failures, json!({}));
}
