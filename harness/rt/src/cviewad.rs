//! C16: the runtime types driven purely through their published C layout by cview/cview.c.
//!   rt cview vec <behaviours.jsonl> --elem u8|u64|p3|a16   (Gen_CVec behaviours, every mutation done in C)
//!   rt cview misc                                           (box, slices, callbacks, iterators, tags: C vs Rust)
use cglue::boxed::CBox;
use cglue::callback::{FeedCallback, OpaqueCallback};
use cglue::iter::CIterator;
use cglue::option::COption;
use cglue::result::CResult;
use cglue::slice::{CSliceMut, CSliceRef};
use cglue::trait_group::Opaquable;
use cglue::vec::CVec;
use std::ffi::c_void;
use vkit::payload::{self, Heavy};
use vkit::{json, ledger, Value};

pub trait Pod: Copy + PartialEq + std::fmt::Debug + 'static {
    fn from_val(v: u64) -> Self;
    fn val(&self) -> u64;
}
impl Pod for u8 {
    fn from_val(v: u64) -> Self { v as u8 }
    fn val(&self) -> u64 { *self as u64 }
}
impl Pod for u64 {
    fn from_val(v: u64) -> Self { v.wrapping_mul(0x0101_0101_0101_0101) }
    fn val(&self) -> u64 { *self & 0xff }
}
#[repr(C)]
#[derive(Clone, Copy, PartialEq, Debug)]
pub struct P3([u8; 3]);
impl Pod for P3 {
    fn from_val(v: u64) -> Self { P3([v as u8, 0xEE, !(v as u8)]) }
    fn val(&self) -> u64 { if self.0[1] == 0xEE && self.0[2] == !self.0[0] { self.0[0] as u64 } else { 9999 } }
}
#[repr(C, align(16))]
#[derive(Clone, Copy, PartialEq, Debug)]
pub struct A16(u64, u64);
impl Pod for A16 {
    fn from_val(v: u64) -> Self { A16(v, !v) }
    fn val(&self) -> u64 { if self.1 == !self.0 { self.0 } else { 9999 } }
}

fn vp<T>(t: &T) -> *const c_void { t as *const T as *const c_void }
fn vpm<T>(t: &mut T) -> *mut c_void { t as *mut T as *mut c_void }

fn vec_replay<T: Pod>(lines: &[String], slots: usize) -> (usize, usize, Vec<Value>) {
    let sz = std::mem::size_of::<T>();
    let mut failures = vec![];
    let (mut steps, mut used) = (0, 0);
    'beh: for (bi, line) in lines.iter().enumerate() {
        vkit::mark(bi);
        let beh: Value = serde_json::from_str(line).unwrap();
        // operations a C caller cannot provoke (Rust-side panics) are outside this check
        if beh.as_array().unwrap().iter().any(|st| matches!(st["a"]["op"].as_str().unwrap(), "InsertOOB" | "RemoveOOB")) {
            continue;
        }
        used += 1;
        let base = ledger::snap();
        let mut vecs: Vec<Option<CVec<T>>> = (0..slots).map(|_| None).collect();
        let mut next_id = 1u64;
        for (si, st) in beh.as_array().unwrap().iter().enumerate() {
            steps += 1;
            let a = &st["a"];
            let v = a["v"].as_u64().unwrap() as usize - 1;
            let k = a["k"].as_u64().unwrap_or(0) as usize;
            let mut last_val: Option<u64> = None;
            unsafe {
                match a["op"].as_str().unwrap() {
                    "FromVec" => {
                        let n = a["n"].as_u64().unwrap() as usize;
                        let cap = a["cap"].as_u64().unwrap() as usize;
                        let cv = ledger::track(|| {
                            let mut sv: Vec<T> = Vec::with_capacity(cap);
                            for i in 0..n { sv.push(T::from_val(next_id + i as u64)); }
                            CVec::from(sv)
                        });
                        next_id += n as u64;
                        vecs[v] = Some(cv);
                    }
                    "Push" => {
                        let e = T::from_val(next_id); next_id += 1;
                        ledger::track(|| cview::cv_vec_push(vpm(vecs[v].as_mut().unwrap()), vp(&e), sz));
                    }
                    "Pop" => {
                        let mut out = T::from_val(0);
                        let r = ledger::track(|| cview::cv_vec_pop(vpm(vecs[v].as_mut().unwrap()), vpm(&mut out), sz));
                        if r != 0 { last_val = Some(out.val()); }
                    }
                    "Insert" => {
                        let e = T::from_val(next_id); next_id += 1;
                        ledger::track(|| cview::cv_vec_insert(vpm(vecs[v].as_mut().unwrap()), k, vp(&e), sz));
                    }
                    "Remove" => {
                        let mut out = T::from_val(0);
                        ledger::track(|| cview::cv_vec_remove(vpm(vecs[v].as_mut().unwrap()), k, vpm(&mut out), sz));
                        last_val = Some(out.val());
                    }
                    "Reserve" => {
                        let n = a["n"].as_u64().unwrap() as usize;
                        ledger::track(|| cview::cv_vec_reserve(vpm(vecs[v].as_mut().unwrap()), n));
                        // what a C caller relies on before writing n elements at data[len..]
                        let cv = vecs[v].as_ref().unwrap();
                        if cv.capacity() - cv.len() < n {
                            failures.push(json!({"behaviour": bi, "step": si, "msg": format!("after reserve_fn(vec, {}) through the C layout only {} free slots (len {}, capacity {})", n, cv.capacity() - cv.len(), cv.len(), cv.capacity()), "beh": beh}));
                            for cv in vecs.iter_mut() { std::mem::forget(cv.take()); }
                            if failures.len() >= 10 { break 'beh; }
                            continue 'beh;
                        }
                    }
                    "Clone" => {
                        let w = a["w"].as_u64().unwrap() as usize - 1;
                        let n = vecs[v].as_ref().unwrap().len();
                        let c = ledger::track(|| vecs[v].as_ref().unwrap().clone());
                        next_id += n as u64;
                        vecs[w] = Some(c);
                    }
                    "WriteAt" => {
                        let e = T::from_val(next_id); next_id += 1;
                        cview::cv_vec_write(vpm(vecs[v].as_mut().unwrap()), k, vp(&e), sz);
                    }
                    "Drop" => {
                        let mut cv = vecs[v].take().unwrap();
                        ledger::track(|| cview::cv_vec_release(vpm(&mut cv)));
                        // the C side cleared drop_fn: the Rust destructor must now be a no-op
                        ledger::track(|| drop(cv));
                    }
                    _ => unreachable!(),
                }
            }
            // project through the Rust API and compare with the specification's expectation
            let exp = &st["exp"];
            let mut msg = None;
            for (s, cv) in vecs.iter().enumerate() {
                let e = exp["vecs"][s].as_array().unwrap();
                match cv {
                    None => if exp["live"][s] != json!(false) { msg = Some("liveness differs".to_string()); },
                    Some(cv) => {
                        let got: Vec<u64> = cv.iter().map(|x| x.val()).collect();
                        let want: Vec<u64> = e.iter().map(|p| p[1].as_u64().unwrap() & 0xff).collect();
                        if cv.len() != unsafe { cview::cv_vec_len(vp(cv)) } || cv.capacity() < cv.len() {
                            msg = Some("length/capacity fields disagree between C and Rust view".into());
                        }
                        if got != want {
                            msg = Some(format!("contents after C-side {}: {:?}, expected {:?}", a["op"], got, want));
                        }
                    }
                }
            }
            if exp["last"]["kind"] == "ret" {
                let want = exp["last"]["id"].as_u64().unwrap();
                // the element handed out must be the one the model says left (fresh elements: val = id)
                let want_val = exp_val_of(&beh, si, want);
                if last_val != Some(want_val & 0xff) {
                    msg = Some(format!("element returned to the C caller has value {:?}, expected {}", last_val, want_val));
                }
            }
            if ledger::snap().anomalies != base.anomalies {
                msg = Some(format!("allocator anomalies: {:?}", ledger::anomalies_since(base.anomalies)));
            }
            if let Some(m) = msg {
                failures.push(json!({"behaviour": bi, "step": si, "msg": m, "beh": beh}));
                for cv in vecs.iter_mut() { std::mem::forget(cv.take()); }
                if failures.len() >= 10 { break 'beh; }
                continue 'beh;
            }
        }
        for cv in vecs.iter_mut() { if let Some(cv) = cv.take() { ledger::track(|| drop(cv)); } }
        let s = ledger::snap();
        if s.live != base.live || s.anomalies != base.anomalies {
            failures.push(json!({"behaviour": bi, "step": 99, "msg": format!("leak or anomaly at quiescence: live {} anomalies {:?}", s.live as i64 - base.live as i64, ledger::anomalies_since(base.anomalies)), "beh": beh}));
        }
    }
    (used, steps, failures)
}

/// value carried by element `id` according to the behaviour's expectations so far (clones keep the
/// source's value): look it up in any earlier/later `vecs` table
fn exp_val_of(beh: &Value, upto: usize, id: u64) -> u64 {
    for st in beh.as_array().unwrap()[..=upto].iter().rev() {
        for v in st["exp"]["vecs"].as_array().unwrap() {
            for p in v.as_array().unwrap() {
                if p[0].as_u64() == Some(id) { return p[1].as_u64().unwrap(); }
            }
        }
    }
    id
}

fn misc() -> (usize, Vec<Value>) {
    let mut fails = vec![];
    let mut n = 0;
    macro_rules! check { ($what:expr, $ok:expr, $($d:tt)*) => {{ n += 1; if !$ok { fails.push(json!({"behaviour": n, "step": 0, "msg": format!("{}: {}", $what, format!($($d)*))})); } }}; }
    unsafe {
        // box: released through drop_fn(instance) exactly once
        payload::reset_ids();
        let base = ledger::snap();
        let mut b = ledger::track(|| CBox::from(Heavy::new(1, 5)));
        let inst = cview::cv_box_instance(vp(&b));
        check!("box instance", inst == &*b as *const Heavy as *const c_void, "instance field is not the payload address");
        ledger::track(|| cview::cv_box_release(vpm(&mut b)));
        check!("box release", payload::drops(1) == 1, "payload dropped {} times after C release", payload::drops(1));
        ledger::track(|| drop(b));
        check!("box release once", payload::drops(1) == 1 && ledger::snap().live == base.live && ledger::snap().anomalies == base.anomalies,
               "drops {} live {} anomalies {:?}", payload::drops(1), ledger::snap().live as i64 - base.live as i64, ledger::anomalies_since(base.anomalies));
        // boxes over payloads of other sizes and alignments: one byte, zero-sized with a destructor, over-aligned
        {
            use std::sync::atomic::{AtomicUsize, Ordering::SeqCst};
            static XD: AtomicUsize = AtomicUsize::new(0);
            struct Small(u8);
            impl Drop for Small { fn drop(&mut self) { XD.fetch_add(1, SeqCst); } }
            struct Nothing;
            impl Drop for Nothing { fn drop(&mut self) { XD.fetch_add(1, SeqCst); } }
            #[repr(align(64))]
            struct Wide { tag: u64, pad: [u8; 70] }
            impl Drop for Wide { fn drop(&mut self) { if self.tag == 0xC0FFEE && self.pad[69] == 9 { XD.fetch_add(1, SeqCst); } } }
            macro_rules! box_case { ($name:expr, $mk:expr) => {{
                XD.store(0, SeqCst);
                let base = ledger::snap();
                let mut b = ledger::track(|| CBox::from($mk));
                let inst = cview::cv_box_instance(vp(&b));
                check!(concat!("box instance ", $name), inst == &*b as *const _ as *const c_void, "instance field is not the payload address");
                ledger::track(|| cview::cv_box_release(vpm(&mut b)));
                check!(concat!("box release ", $name), XD.load(SeqCst) == 1, "payload dropped {} times after C release", XD.load(SeqCst));
                ledger::track(|| drop(b));
                let s = ledger::snap();
                check!(concat!("box release once ", $name), XD.load(SeqCst) == 1 && s.live == base.live && s.anomalies == base.anomalies,
                       "drops {} live {} anomalies {:?}", XD.load(SeqCst), s.live as i64 - base.live as i64, ledger::anomalies_since(base.anomalies));
            }}; }
            box_case!("(1 byte)", Small(3));
            box_case!("(zero-sized)", Nothing);
            box_case!("(aligned to 64)", Wide { tag: 0xC0FFEE, pad: [9; 70] });
        }
        // slices of every element size: data/len as C reads them
        macro_rules! slices { ($t:ty, $name:expr) => {{
            for len in 0..6usize {
                let data: Vec<$t> = (0..len).map(|i| <$t as Pod>::from_val(i as u64 + 3)).collect();
                let cs = CSliceRef::from(&data[..]);
                let bytes = std::slice::from_raw_parts(data.as_ptr() as *const u8, len * std::mem::size_of::<$t>());
                let mut want = 0u64; for b in bytes { want = want.wrapping_mul(31).wrapping_add(*b as u64); }
                let got = cview::cv_slice_sum(vp(&cs), std::mem::size_of::<$t>());
                check!(concat!("slice read ", $name), got == want.wrapping_add(len as u64), "len {} got {} want {}", len, got, want.wrapping_add(len as u64));
                let mut buf: Vec<$t> = data.clone();
                let mut cm = CSliceMut::from(&mut buf[..]);
                cview::cv_slice_fill(vpm(&mut cm), std::mem::size_of::<$t>(), 7);
                let after = std::slice::from_raw_parts(buf.as_ptr() as *const u8, len * std::mem::size_of::<$t>());
                check!(concat!("slice write ", $name), after.iter().enumerate().all(|(i, b)| *b == (7usize + i) as u8), "bytes written by C did not land in the buffer");
            }
        }}; }
        slices!(u8, "u8"); slices!(u64, "u64"); slices!(P3, "p3"); slices!(A16, "a16");
        // callbacks: C feed loop vs Rust feed_into on identical targets
        for len in 0..6u64 {
            for stop in 0..=(len as usize + 1) {
                let items: Vec<u64> = (0..len).map(|i| i * 3 + 1).collect();
                let run = |via_c: bool| -> (usize, Vec<u64>, usize) {
                    let mut got: Vec<u64> = vec![]; let mut calls = 0usize;
                    let mut f = |x: u64| { calls += 1; got.push(x); !(stop > 0 && calls >= stop) };
                    let mut cb: OpaqueCallback<u64> = (&mut f).into();
                    let cnt = if via_c { cview::cv_feed(vpm(&mut cb), items.as_ptr(), items.len()) } else { items.iter().copied().feed_into_mut(&mut cb) };
                    drop(cb);
                    (cnt, got, calls)
                };
                let (c, r) = (run(true), run(false));
                check!("callback closure", c == r, "C {:?} vs Rust {:?} (len {} stop {})", c, r, len, stop);
                let mut vc: Vec<u64> = vec![]; let mut vr: Vec<u64> = vec![];
                let mut cbc: OpaqueCallback<u64> = (&mut vc).into();
                let cc = cview::cv_feed(vpm(&mut cbc), items.as_ptr(), items.len());
                let cr = items.iter().copied().feed_into((&mut vr).into());
                check!("callback vec", cc == cr && vc == vr && vc == items, "C {} {:?} vs Rust {} {:?}", cc, vc, cr, vr);
            }
        }
        // iterators: advance until non-zero
        for len in 0..6u64 {
            let src: Vec<u64> = (0..len).map(|i| i * 7 + 2).collect();
            let mut it = src.iter().copied();
            let mut ci: CIterator<u64> = (&mut it).into();
            let mut out = [0u64; 8];
            let k = cview::cv_iter_drain(vpm(&mut ci), out.as_mut_ptr(), 8);
            let mut again = 0u64;
            let end = cview::cv_iter_next(vpm(&mut ci), &mut again);
            check!("iterator", k == src.len() && out[..k] == src[..] && end != 0, "C drained {:?} of {:?}, end code {}", &out[..k], src, end);
            // interleave: two through C, rest through Rust
            let mut it2 = src.iter().copied();
            let mut c2: CIterator<u64> = (&mut it2).into();
            let mut first = [0u64; 2];
            let k2 = cview::cv_iter_drain(vpm(&mut c2), first.as_mut_ptr(), 2);
            let rest: Vec<u64> = c2.collect();
            let mut all = first[..k2].to_vec(); all.extend(rest);
            check!("iterator interleaved", all == src, "{:?} vs {:?}", all, src);
        }
        // iterator over items with a destructor, advanced by C into ONE reused output slot (`T out; while (next(&out) == 0)
        // consume(out);`): the slot is output only - whatever bits it holds, nothing in it is destroyed by advancing
        {
            static LOG: std::sync::Mutex<Vec<u64>> = std::sync::Mutex::new(Vec::new());
            struct Tok(u64, [u64; 2]);
            impl Drop for Tok { fn drop(&mut self) { LOG.lock().unwrap().push(self.0); } }
            for len in 0..5u64 {
                LOG.lock().unwrap().clear();
                let mut it = (1..=len).map(|i| Tok(i, [i, i]));
                let mut ci: CIterator<Tok> = (&mut it).into();
                let mut slot = std::mem::MaybeUninit::<Tok>::uninit();
                std::ptr::write_bytes(slot.as_mut_ptr() as *mut u8, 0xEE, std::mem::size_of::<Tok>());
                let mut taken: Vec<Tok> = vec![];
                while cview::cv_iter_next(vpm(&mut ci), slot.as_mut_ptr() as *mut u64) == 0 {
                    taken.push(std::ptr::read(slot.as_ptr()));   // the C caller moves the item out and owns it
                }
                let during: Vec<u64> = LOG.lock().unwrap().clone();
                let got: Vec<u64> = taken.iter().map(|t| t.0).collect();
                drop(taken);
                let after: Vec<u64> = LOG.lock().unwrap().clone();
                check!("iterator of droppable items", got == (1..=len).collect::<Vec<_>>() && during.is_empty() && after == got,
                       "len {}: items {:?}, destroyed while C advanced {:x?}, destroyed in total {:x?}", len, got, during, after);
            }
        }
        // an iterator built by C from the published layout, consumed in Rust: every non-zero status ends it - whatever its
        // low byte is - and the slot of a refused advance is never read
        for status in [1i32, -1, 2, 255, 0x100, 0x10000, -256, i32::MIN] {
            let items: Vec<u64> = vec![11, 22, 33];
            let mut st = cview::CvArrState { items: items.as_ptr(), n: items.len(), pos: 0, end_status: status, calls_after_end: 0 };
            let mut it = std::mem::MaybeUninit::<CIterator<u64>>::uninit();
            cview::cv_arr_iter(it.as_mut_ptr() as *mut c_void, &mut st);
            let got: Vec<u64> = it.assume_init().take(50).collect();
            check!("iterator made by C", got == items && st.calls_after_end == 1, "end status {:#x}: Rust saw {:?} and asked {} times after the end", status, got, st.calls_after_end);
        }
        // a box made by C (caller-provided storage, C's own release function): Rust reads and writes through it, converts it
        // to opaque form, and on drop hands exactly that pointer to exactly that function, once; a box without a release
        // function is a loan: dropping it releases nothing
        for (owned, opaque) in [(1, false), (1, true), (0, false), (0, true)] {
            let mut storage = 0u64;
            let before = cview::cv_box_freed();
            let mut raw = std::mem::MaybeUninit::<CBox<'static, u64>>::uninit();
            cview::cv_box_make(raw.as_mut_ptr() as *mut c_void, &mut storage, 4242, owned);
            let mut b = raw.assume_init();
            let seen = *b;
            *b += 1;
            let wrote = std::ptr::read_volatile(&storage);
            if opaque { drop(b.into_opaque()) } else { drop(b) }
            let freed = cview::cv_box_freed() - before;
            check!("box made by C", seen == 4242 && wrote == 4243 && freed == owned as usize && (owned == 0 || cview::cv_box_freed_ptr() == &storage as *const u64 as *const c_void),
                   "owned={} opaque={}: read {}, wrote {}, C's release function ran {} times", owned, opaque, seen, wrote, freed);
        }
        // a vector made by C over malloc/realloc/free, grown, edited and dropped in Rust: growing goes through the vector's
        // reserve function, the drop through its release function with the data pointer, length and capacity it has then
        for n in [0usize, 1, 3, 9, 40] {
            let mut raw = std::mem::MaybeUninit::<cglue::vec::CVec<u64>>::uninit();
            cview::cv_vec_make(raw.as_mut_ptr() as *mut c_void);
            let mut v = raw.assume_init();
            let mut model: Vec<u64> = vec![];
            for i in 0..n as u64 {
                if i % 3 == 2 { v.insert(1, 100 + i); model.insert(1, 100 + i); } else { v.push(i); model.push(i); }
            }
            if n >= 3 {
                let a = v.remove(0); let b = model.remove(0);
                let c = v.pop(); let d = model.pop();
                check!("vector made by C: remove/pop", a == b && c == d, "n={}: remove {} vs {}, pop {:?} vs {:?}", n, a, b, c, d);
            }
            v.reserve(5);
            let same = &v[..] == &model[..];
            let (len, cap, data) = (v.len(), v.capacity(), v.as_ptr() as usize);
            let mut mid = cview::CvVecStat::default();
            cview::cv_vec_stat(&mut mid);
            drop(v);
            let mut st = cview::CvVecStat::default();
            cview::cv_vec_stat(&mut st);
            check!("vector made by C", same && mid.drops == 0 && mid.reserves >= 1 && cap >= len + 5 && st.drops == 1 && st.dropped_len == len && st.dropped_cap == cap && st.dropped_data == data && st.live_blocks == 0,
                   "n={}: contents equal {}, len {} cap {}, C saw before the drop {:?}, after {:?}", n, same, len, cap, mid, st);
        }
        // a callback made by C, fed from Rust - the same callback object across two feeds and an Extend: one invocation per
        // item offered, none after it asked to stop within a feed, invoked again by the next feed (Feed!Offered)
        for stop in 0..5usize {
            for len in 0..5u64 {
                let mut st = cview::CvCbState { got: [0; 32], n: 0, stop, calls: 0 };
                let mut raw = std::mem::MaybeUninit::<OpaqueCallback<u64>>::uninit();
                cview::cv_cb_make(raw.as_mut_ptr() as *mut c_void, &mut st);
                let mut cb = raw.assume_init();
                let offered = |calls: usize, n: usize| if stop == 0 { n } else if n == 0 { 0 } else if calls >= stop { 1 } else { n.min(stop - calls) };
                let mut exp_calls = 0usize;
                let mut exp_got: Vec<u64> = vec![];
                let c1 = (1..=len).feed_into_mut(&mut cb);
                let k1 = offered(exp_calls, len as usize); exp_got.extend(1..=k1 as u64); exp_calls += k1;
                let c2 = (101..=100 + len).feed_into_mut(&mut cb);
                let k2 = offered(exp_calls, len as usize); exp_got.extend(101..=100 + k2 as u64); exp_calls += k2;
                cb.extend(201..=200 + len);
                let k3 = offered(exp_calls, len as usize); exp_got.extend(201..=200 + k3 as u64); exp_calls += k3;
                let got = st.got[..st.n].to_vec();
                check!("callback made by C", c1 == k1 && c2 == k2 && st.calls == exp_calls && got == exp_got,
                       "stop {} len {}: counts {} {} (expected {} {}), invocations {} (expected {}), received {:?} (expected {:?})", stop, len, c1, c2, k1, k2, st.calls, exp_calls, got, exp_got);
            }
        }
        // tags
        let some: COption<u64> = Some(77u64).into(); let none: COption<u64> = None.into();
        check!("option tags", cview::cv_opt_tag(vp(&some)) == 1 && cview::cv_opt_value(vp(&some)) == 77 && cview::cv_opt_tag(vp(&none)) == 0, "Some tag {} None tag {}", cview::cv_opt_tag(vp(&some)), cview::cv_opt_tag(vp(&none)));
        let made = cview::cv_opt_make(1, 41);
        let back: COption<u64> = std::mem::transmute_copy(&made);
        check!("option built by C", Option::from(back) == Some(41u64), "C-built Some(41) reads back differently");
        let made0 = cview::cv_opt_make(0, 0);
        let back0: COption<u64> = std::mem::transmute_copy(&made0);
        check!("option None built by C", Option::<u64>::from(back0).is_none(), "C-built None reads back as Some");
        let ok: CResult<u64, u32> = Ok(9).into(); let er: CResult<u64, u32> = Err(4).into();
        check!("result tags", cview::cv_res_tag(vp(&ok)) == 0 && cview::cv_res_ok(vp(&ok)) == 9 && cview::cv_res_tag(vp(&er)) == 1 && cview::cv_res_err(vp(&er)) == 4,
               "Ok tag {} Err tag {}", cview::cv_res_tag(vp(&ok)), cview::cv_res_tag(vp(&er)));
        // payloads narrower than the tag: the published declaration is {int tag; payload}, so size, payload offset and every
        // byte of the tag matter (the value is written into memory pre-filled with a pattern: padding is not "zero by luck")
        let sizes = [std::mem::size_of::<COption<u8>>(), std::mem::size_of::<COption<u16>>(), std::mem::size_of::<COption<u64>>(),
                     std::mem::size_of::<CResult<u8, u16>>(), std::mem::size_of::<CResult<u64, u32>>()];
        for (k, sz) in sizes.iter().enumerate() {
            check!("option/result size", *sz == cview::cv_sizeof(k as i32), "type #{}: Rust size {} C size {}", k, sz, cview::cv_sizeof(k as i32));
        }
        {
            let mut slot = std::mem::MaybeUninit::<COption<u8>>::uninit();
            std::ptr::write_bytes(slot.as_mut_ptr() as *mut u8, 0xA5, std::mem::size_of::<COption<u8>>());
            slot.as_mut_ptr().write(Some(0x34u8).into());
            let p = slot.as_ptr() as *const c_void;
            check!("option<u8> read by C", cview::cv_opt8_tag(p) == 1 && cview::cv_opt8_value(p) == 0x34, "tag {:#x} value {:#x}", cview::cv_opt8_tag(p), cview::cv_opt8_value(p));
            slot.as_mut_ptr().write(None.into());
            check!("option<u8> None read by C", cview::cv_opt8_tag(p) == 0, "tag {:#x}", cview::cv_opt8_tag(p));
            let mut cbuilt = [0u8; 16];
            cview::cv_opt8_fill(cbuilt.as_mut_ptr() as *mut c_void, 1, 0x77);
            if std::mem::size_of::<COption<u8>>() <= 16 {
                let back: COption<u8> = std::ptr::read_unaligned(cbuilt.as_ptr() as *const COption<u8>);
                check!("option<u8> built by C", Option::from(back) == Some(0x77u8), "C-built Some(0x77) reads back as {:?}", Option::<u8>::from(back));
            }
            let mut slot16 = std::mem::MaybeUninit::<COption<u16>>::uninit();
            std::ptr::write_bytes(slot16.as_mut_ptr() as *mut u8, 0xA5, std::mem::size_of::<COption<u16>>());
            slot16.as_mut_ptr().write(Some(0x1234u16).into());
            let p = slot16.as_ptr() as *const c_void;
            check!("option<u16> read by C", cview::cv_opt16_tag(p) == 1 && cview::cv_opt16_value(p) == 0x1234, "tag {:#x} value {:#x}", cview::cv_opt16_tag(p), cview::cv_opt16_value(p));
            let mut r = std::mem::MaybeUninit::<CResult<u8, u16>>::uninit();
            std::ptr::write_bytes(r.as_mut_ptr() as *mut u8, 0xA5, std::mem::size_of::<CResult<u8, u16>>());
            r.as_mut_ptr().write(Ok(9u8).into());
            let p = r.as_ptr() as *const c_void;
            check!("result<u8,u16> Ok read by C", cview::cv_res816_tag(p) == 0 && cview::cv_res816_ok(p) == 9, "tag {:#x}", cview::cv_res816_tag(p));
            r.as_mut_ptr().write(Err(0x4321u16).into());
            check!("result<u8,u16> Err read by C", cview::cv_res816_tag(p) == 1 && cview::cv_res816_err(p) == 0x4321, "tag {:#x} err {:#x}", cview::cv_res816_tag(p), cview::cv_res816_err(p));
        }
    }
    (n, fails)
}

pub fn main(args: &[String]) {
    match args[0].as_str() {
        "vec" => {
            let lines = vkit::read_lines(&args[1]);
            let elem = vkit::arg_after(args, "--elem").unwrap_or_else(|| "u64".into());
            let (used, steps, failures) = match elem.as_str() {
                "u8" => vec_replay::<u8>(&lines, 2),
                "u64" => vec_replay::<u64>(&lines, 2),
                "p3" => vec_replay::<P3>(&lines, 2),
                _ => vec_replay::<A16>(&lines, 2),
            };
            vkit::summary("cview-vec", used, steps, &failures, json!({"elem": elem}));
        }
        "misc" => {
            let (n, fails) = misc();
            vkit::summary("cview-misc", n, n, &fails, json!({}));
        }
        _ => { eprintln!("TOOL-ERROR mode"); std::process::exit(2) }
    }
}
