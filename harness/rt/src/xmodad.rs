//! C05, runtime types created in the plugin and used here (scripts; the object behaviours and the
//! CVec behaviours are replayed by objad / vecad with --plugin).
use cglue::arc::{CArc, CArcSome};
use cglue::trait_group::{c_void, Opaquable};
use vkit::{json, ledger, Value};

pub fn main(args: &[String]) {
    let p = vkit::arg_after(args, "--plugin").expect("--plugin");
    let mut fails: Vec<Value> = vec![];
    let mut n = 0;
    unsafe {
        let lib = libloading::Library::new(&p).unwrap();
        let info: libloading::Symbol<unsafe extern "C" fn() -> *const std::os::raw::c_char> = lib.get(b"xp_build_info").unwrap();
        let _ = info();
        let arc_new: libloading::Symbol<unsafe extern "C" fn(usize) -> CArc<u64>> = lib.get(b"xp_arc_new").unwrap();
        let arc_drops: libloading::Symbol<unsafe extern "C" fn(usize) -> usize> = lib.get(b"xp_arc_drops").unwrap();
        let live: libloading::Symbol<unsafe extern "C" fn() -> usize> = lib.get(b"xp_ledger_live").unwrap();
        let anoms: libloading::Symbol<unsafe extern "C" fn() -> usize> = lib.get(b"xp_ledger_anoms").unwrap();
        macro_rules! check { ($what:expr, $ok:expr, $($d:tt)*) => {{ n += 1; if !$ok { fails.push(json!({"behaviour": n, "step": 0, "msg": format!("{}: {}", $what, format!($($d)*))})); } }}; }
        // every order of dropping k clones (k <= 4), mixing opaque conversion, take and transpose on the way
        for k in 1..=4usize {
            for order in 0..(1..=k).product::<usize>() {
                let (l0, a0, h0) = (live(), anoms(), ledger::snap());
                let first = ledger::track(|| arc_new(k));
                let mut handles: Vec<Option<CArc<u64>>> = vec![Some(first)];
                for i in 1..k {
                    let c = ledger::track(|| handles[0].as_ref().unwrap().clone());
                    // route some through other flavours and back
                    let c = match i % 3 {
                        0 => c,
                        1 => { let s: Option<CArcSome<u64>> = c.transpose(); CArc::from(s) }
                        _ => { let mut c = c; c.take() }
                    };
                    handles.push(Some(c));
                }
                // drop in the permutation number `order`
                let mut idx: Vec<usize> = (0..k).collect();
                let mut o = order;
                let mut seq = vec![];
                for r in (1..=k).rev() { seq.push(idx.remove(o % r)); o /= r; }
                for (step, i) in seq.iter().enumerate() {
                    let h = handles[*i].take().unwrap();
                    if step % 2 == 0 { ledger::track(|| drop(h.into_opaque())) } else { ledger::track(|| drop(h)) };
                    let want = if step + 1 == k { 1 } else { 0 };
                    check!("arc value dropped with the last handle only", arc_drops(k) == want, "k={} order={} after {} drops: destructor ran {} times", k, order, step + 1, arc_drops(k));
                }
                let h1 = ledger::snap();
                check!("arc: plugin memory released by the plugin", live() == l0 && anoms() == a0, "plugin live {} -> {}, anomalies {} -> {}", l0, live(), a0, anoms());
                check!("arc: host allocator untouched", h1.live == h0.live && h1.anomalies == h0.anomalies, "host live {} -> {}, anomalies {:?}", h0.live, h1.live, ledger::anomalies_since(h0.anomalies));
            }
        }
    }
    vkit::summary("xmod-misc", n, n, &fails, json!({}));
}
