//! C05, runtime types created in the plugin and used here (scripts; the object behaviours and the
//! CVec behaviours are replayed by objad / vecad with --plugin).
use cglue::arc::{CArc, CArcSome};
use cglue::boxed::{CBox, CSliceBox};
use cglue::callback::OpaqueCallback;
use cglue::iter::CIterator;
use cglue::repr_cstring::ReprCString;
use cglue::slice::CSliceRef;
use cglue::vec::CVec;

fn xp_text(i: usize) -> String {
    format!("s{}-\u{e9}\u{20ac}-{}", i, "x".repeat(i % 5))
}
fn fold(v: &[u64]) -> u64 {
    v.iter().fold(0u64, |a, b| a.wrapping_mul(31).wrapping_add(*b))
}
/// Merged allocator log of host and plugin (one clock), written as events of spec/Modules.tla.
pub struct AllocTrace {
    _lib: libloading::Library,
    drain: unsafe extern "C" fn(*mut ledger::Ev, usize) -> usize,
    log: vkit::NdJson,
    live_at: std::collections::HashMap<usize, (u32, u64, usize)>,
    gone: std::collections::HashMap<(u32, u64), u64>,
    next_id: u64,
    pub emitted: usize,
    hv: Vec<ledger::Ev>,
    pv: Vec<ledger::Ev>,
}
pub static ALLOC_TRACE: std::sync::Mutex<Option<AllocTrace>> = std::sync::Mutex::new(None);
const ATCAP: usize = 1 << 17;
impl AllocTrace {
    /// `--alloc-trace <path>` next to `--plugin <so>`: both allocators start recording on the host's clock.
    pub fn start_from_args(args: &[String]) {
        let (Some(out), Some(p)) = (vkit::arg_after(args, "--alloc-trace"), vkit::arg_after(args, "--plugin")) else { return };
        unsafe {
            let lib = libloading::Library::new(&p).expect("plugin");
            let drain = {
                let d: libloading::Symbol<unsafe extern "C" fn(*mut ledger::Ev, usize) -> usize> = lib.get(b"xp_drain_events").unwrap();
                *d
            };
            let zero = ledger::Ev { seq: 0, kind: 0, ptr: 0, size: 0, serial: 0 };
            let t = AllocTrace { drain, log: vkit::NdJson::create(&out), live_at: Default::default(), gone: Default::default(), next_id: 1, emitted: 0,
                                 hv: vec![zero; ATCAP], pv: vec![zero; ATCAP], _lib: lib };
            ledger::events(true, 0);
            let ev2: libloading::Symbol<unsafe extern "C" fn(bool, usize)> = t._lib.get(b"xp_events").unwrap();
            ev2(true, ledger::clock_addr());
            *ALLOC_TRACE.lock().unwrap() = Some(t);
        }
    }
    pub fn active() -> bool {
        ALLOC_TRACE.lock().unwrap().is_some()
    }
    /// a behaviour starts: what each module holds now is the reference
    pub fn begin() {
        if Self::active() {
            ledger::mark(1);
        }
    }
    /// a behaviour is over; `balanced` = every value it created is gone (no listed finding involved, no earlier failure)
    pub fn end(balanced: bool) {
        if balanced && Self::active() {
            ledger::mark(2);
        }
        if let Some(t) = ALLOC_TRACE.lock().unwrap().as_mut() {
            t.flush();
        }
    }
    pub fn finish() -> usize {
        match ALLOC_TRACE.lock().unwrap().take() {
            Some(mut t) => {
                t.flush();
                t.log.flush();
                t.emitted
            }
            None => 0,
        }
    }
    fn flush(&mut self) {
        let hn = ledger::drain_events(self.hv.as_mut_ptr(), ATCAP);
        let pn = unsafe { (self.drain)(self.pv.as_mut_ptr(), ATCAP) };
        if hn == usize::MAX || pn == usize::MAX {
            eprintln!("TOOL-ERROR allocator event log overflowed");
            std::process::exit(2);
        }
        let mut all: Vec<(u32, ledger::Ev)> = self.hv[..hn].iter().map(|e| (1u32, *e)).chain(self.pv[..pn].iter().map(|e| (2u32, *e))).collect();
        all.sort_by_key(|(_, e)| e.seq);
        for (m, e) in all {
            if let Some(ev) = self.event(m, e) {
                self.log.emit(&ev);
                self.emitted += 1;
            }
        }
    }
    /// block identity: a number per tracked allocation; an address names the block that is live at it
    fn event(&mut self, m: u32, e: ledger::Ev) -> Option<Value> {
        Some(match e.kind {
            ledger::EV_ALLOC => {
                let id = self.next_id;
                self.next_id += 1;
                self.live_at.insert(e.ptr, (m, id, e.size));
                json!({"op":"alloc","m":m,"b":id,"size":e.size})
            }
            ledger::EV_FREE => match self.live_at.remove(&e.ptr) {
                Some((o, id, _)) => {
                    self.gone.insert((o, e.serial), id);
                    json!({"op":"free","m":m,"o":o,"b":id,"size":e.size})
                }
                None => json!({"op":"free","m":m,"o":m,"b":0,"size":e.size}),
            },
            // a free that reached an allocator which does not know the address: whose block is it?
            ledger::EV_UNKNOWN_FREE | ledger::EV_MISMATCH => match self.live_at.get(&e.ptr) {
                Some(&(o, id, _)) => json!({"op":"free","m":m,"o":o,"b":id,"size":e.size}),
                None => json!({"op":"free","m":m,"o":0,"b":0,"size":e.size}),
            },
            ledger::EV_DOUBLE_FREE => json!({"op":"free","m":m,"o":m,"b":self.gone.get(&(m, e.serial)).copied().unwrap_or(0),"size":e.size}),
            ledger::EV_MARK => {
                if e.ptr == 1 { json!({"op":"base"}) } else { json!({"op":"quiescent"}) }
            }
            _ => return None,
        })
    }
}

unsafe fn xp_events_pause(lib: &libloading::Library) {
    let f: libloading::Symbol<unsafe extern "C" fn()> = lib.get(b"xp_events_pause").unwrap();
    f()
}
/// called by the plugin with an iterator and a callback it created: drain one into the other
extern "C" fn host_user(it: CIterator<u64>, mut cb: OpaqueCallback<u64>) -> u64 {
    use cglue::callback::FeedCallback;
    it.feed_into_mut(&mut cb) as u64
}
use cglue::trait_group::{c_void, Opaquable};
use vkit::{json, ledger, Value};

pub fn main(args: &[String]) {
    let p = vkit::arg_after(args, "--plugin").expect("--plugin");
    // `xmod trace <out.ndjson> --plugin ..`: the same scripts, with both allocators recording what they are asked to do on
    // one clock; the merged log is validated against spec/Modules.tla
    let trace_out = if args.first().map(|s| s.as_str()) == Some("trace") { Some(args[1].clone()) } else { None };
    let mut fails: Vec<Value> = vec![];
    let mut n = 0;
    unsafe {
        let lib = libloading::Library::new(&p).unwrap();
        if let Some(out) = &trace_out {
            let a = vec!["--alloc-trace".to_string(), out.clone(), "--plugin".to_string(), p.clone()];
            AllocTrace::start_from_args(&a);
        }
        let info: libloading::Symbol<unsafe extern "C" fn() -> *const std::os::raw::c_char> = lib.get(b"xp_build_info").unwrap();
        let _ = info();
        let arc_new: libloading::Symbol<unsafe extern "C" fn(usize) -> CArc<u64>> = lib.get(b"xp_arc_new").unwrap();
        let arc_drops: libloading::Symbol<unsafe extern "C" fn(usize) -> usize> = lib.get(b"xp_arc_drops").unwrap();
        let live: libloading::Symbol<unsafe extern "C" fn() -> usize> = lib.get(b"xp_ledger_live").unwrap();
        let anoms: libloading::Symbol<unsafe extern "C" fn() -> usize> = lib.get(b"xp_ledger_anoms").unwrap();
        macro_rules! check { ($what:expr, $ok:expr, $($d:tt)*) => {{ n += 1; if !$ok { fails.push(json!({"behaviour": n, "step": 0, "msg": format!("{}: {}", $what, format!($($d)*))})); } }}; }
        // every order of dropping k clones (k <= 4), mixing opaque conversion, take and transpose on the way
        for k in 1..=4usize {
            for order in 0..(1..=k).product::<usize>() {
                let (l0, a0, h0) = (live(), anoms(), ledger::snap()); ledger::mark(1);
                let first = ledger::track(|| arc_new(k));
                let mut handles: Vec<Option<CArc<u64>>> = vec![Some(first)];
                for i in 1..k {
                    let c = ledger::track(|| handles[0].as_ref().unwrap().clone());
                    // route some through other flavours and back
                    let c = match i % 3 {
                        0 => c,
                        1 => { let s: Option<CArcSome<u64>> = c.transpose(); CArc::from(s) }
                        _ => { let mut c = c; c.take() }
                    };
                    handles.push(Some(c));
                }
                // drop in the permutation number `order`
                let mut idx: Vec<usize> = (0..k).collect();
                let mut o = order;
                let mut seq = vec![];
                for r in (1..=k).rev() { seq.push(idx.remove(o % r)); o /= r; }
                for (step, i) in seq.iter().enumerate() {
                    let h = handles[*i].take().unwrap();
                    if step % 2 == 0 { ledger::track(|| drop(h.into_opaque())) } else { ledger::track(|| drop(h)) };
                    let want = if step + 1 == k { 1 } else { 0 };
                    check!("arc value dropped with the last handle only", arc_drops(k) == want, "k={} order={} after {} drops: destructor ran {} times", k, order, step + 1, arc_drops(k));
                }
                ledger::mark(2);
                let h1 = ledger::snap();
                check!("arc: plugin memory released by the plugin", live() == l0 && anoms() == a0, "plugin live {} -> {}, anomalies {} -> {}", l0, live(), a0, anoms());
                check!("arc: host allocator untouched", h1.live == h0.live && h1.anomalies == h0.anomalies, "host live {} -> {}, anomalies {:?}", h0.live, h1.live, ledger::anomalies_since(h0.anomalies));
            }
        }
        // ---- values whose elements own memory of the creating module ----
        let vec_str: libloading::Symbol<unsafe extern "C" fn(usize) -> CVec<ReprCString>> = lib.get(b"xp_vec_str").unwrap();
        let vec_str_consume: libloading::Symbol<unsafe extern "C" fn(CVec<ReprCString>) -> u64> = lib.get(b"xp_vec_str_consume").unwrap();
        let box_str: libloading::Symbol<unsafe extern "C" fn(usize) -> CBox<'static, ReprCString>> = lib.get(b"xp_box_str").unwrap();
        let box_str_consume: libloading::Symbol<unsafe extern "C" fn(CBox<'static, ReprCString>) -> u64> = lib.get(b"xp_box_str_consume").unwrap();
        let slicebox: libloading::Symbol<unsafe extern "C" fn(usize) -> CSliceBox<'static, ReprCString>> = lib.get(b"xp_slicebox").unwrap();
        let slice_static: libloading::Symbol<unsafe extern "C" fn() -> CSliceRef<'static, u8>> = lib.get(b"xp_slice_static").unwrap();
        let feed: libloading::Symbol<unsafe extern "C" fn(u64, u64, OpaqueCallback<u64>) -> usize> = lib.get(b"xp_feed").unwrap();
        let sum_iter: libloading::Symbol<unsafe extern "C" fn(CIterator<u64>) -> u64> = lib.get(b"xp_sum_iter").unwrap();
        let lend: libloading::Symbol<unsafe extern "C" fn(u64, usize, extern "C" fn(CIterator<u64>, OpaqueCallback<u64>) -> u64, &mut u64) -> u64> = lib.get(b"xp_lend").unwrap();
        macro_rules! balanced { ($what:expr, $l0:expr, $a0:expr, $h0:expr) => {{
            ledger::mark(2);
            let h1 = ledger::snap();
            check!(concat!($what, ": the creating module's memory is released by the creating module"), live() == $l0 && anoms() == $a0 && h1.live == $h0.live && h1.anomalies == $h0.anomalies,
                   "plugin live {} -> {}, plugin anomalies {} -> {}, host live {} -> {}, host anomalies {:?}", $l0, live(), $a0, anoms(), $h0.live, h1.live, ledger::anomalies_since($h0.anomalies));
        }}; }
        for nn in [0usize, 1, 3, 8] {
            // plugin-made vector of strings: read, cloned... and destroyed here
            let (l0, a0, h0) = (live(), anoms(), ledger::snap()); ledger::mark(1);
            let v = ledger::track(|| vec_str(nn));
            let ok = v.len() == nn && v.iter().enumerate().all(|(i, s)| { let t: &str = s.as_ref(); t == xp_text(i) });
            check!("plugin-made CVec<ReprCString> read in the host", ok, "n={} len={}", nn, v.len());
            ledger::track(|| drop(v));
            balanced!("CVec<ReprCString> made by the plugin, dropped by the host", l0, a0, h0);
            // part of it popped first (the popped strings go back to their creator inside a vector again)
            let (l0, a0, h0) = (live(), anoms(), ledger::snap());
            let mut v = ledger::track(|| vec_str(nn));
            let mut back: Vec<ReprCString> = vec![];
            if nn > 1 { if let Some(s) = ledger::track(|| v.pop()) { back.push(s) } }
            let remaining = v.len();
            ledger::track(|| drop(v));
            let popped = back.len();
            // a popped element has no release function: hand it to its creator in the only way the API offers
            for s in back { std::mem::forget(s) }
            let h1 = ledger::snap();
            check!("CVec<ReprCString> after pop, dropped by the host", anoms() == a0 && live() == l0 + popped && h1.live == h0.live && h1.anomalies == h0.anomalies,
                   "n={} remaining={} plugin live {} -> {} (popped {}), anomalies {} -> {}, host {:?}", nn, remaining, l0, live(), popped, a0, anoms(), ledger::anomalies_since(h0.anomalies));
            // host-made vector: read and destroyed by the plugin
            let (l0, a0, h0) = (live(), anoms(), ledger::snap()); ledger::mark(1);
            let hv: CVec<ReprCString> = ledger::track(|| CVec::from((0..nn).map(|i| ReprCString::from(xp_text(i))).collect::<Vec<_>>()));
            let want: u64 = (0..nn).map(|i| xp_text(i).len() as u64 * 1000 + 1).sum();
            let got = ledger::track(|| vec_str_consume(hv));
            check!("host-made CVec<ReprCString> read in the plugin", got == want, "n={} digest {} expected {}", nn, got, want);
            balanced!("CVec<ReprCString> made by the host, dropped by the plugin", l0, a0, h0);
            // boxed slice of strings made by the plugin
            let (l0, a0, h0) = (live(), anoms(), ledger::snap()); ledger::mark(1);
            let sb = ledger::track(|| slicebox(nn));
            let ok = sb.len() == nn && sb.iter().enumerate().all(|(i, s)| { let t: &str = s.as_ref(); t == xp_text(i) });
            check!("plugin-made CSliceBox<ReprCString> read in the host", ok, "n={}", nn);
            ledger::track(|| drop(sb));
            balanced!("CSliceBox<ReprCString> made by the plugin, dropped by the host", l0, a0, h0);
            // boxes, both directions
            let (l0, a0, h0) = (live(), anoms(), ledger::snap()); ledger::mark(1);
            let b = ledger::track(|| box_str(nn));
            let t: &str = (*b).as_ref();
            check!("plugin-made CBox<ReprCString> read in the host", t == xp_text(nn), "{:?}", t);
            ledger::track(|| drop(b));
            let hb = ledger::track(|| CBox::from(ReprCString::from(xp_text(nn + 1))));
            let r = ledger::track(|| box_str_consume(hb));
            check!("host-made CBox<ReprCString> read in the plugin", r == xp_text(nn + 1).len() as u64, "{}", r);
            balanced!("CBox<ReprCString> in both directions", l0, a0, h0);
        }
        {
            let s = slice_static();
            check!("plugin-made CSliceRef read in the host", s.as_slice() == &[9u8, 8, 7, 6, 5], "{:?}", s.as_slice());
        }
        for (nn, stop) in [(0u64, 0usize), (5, 0), (5, 2), (40, 0), (40, 17)] {
            // host callback, plugin iterator
            let (l0, a0, h0) = (live(), anoms(), ledger::snap()); ledger::mark(1);
            let mut got: Vec<u64> = vec![];
            let fed = {
                let mut f = |x: u64| { got.push(x); !(stop > 0 && got.len() >= stop) };
                feed(nn, 7, (&mut f).into())
            };
            let want: Vec<u64> = (0..nn).map(|i| i * 7 + 1).take(if stop > 0 { stop } else { usize::MAX }).collect();
            check!("host callback fed by the plugin", got == want && fed == want.len(), "n={} stop={} got {:?} fed {}", nn, stop, got, fed);
            // host iterator, plugin consumer
            let items: Vec<u64> = (0..nn).map(|i| i * i + 3).collect();
            let mut it = items.iter().copied();
            let s = sum_iter((&mut it).into());
            check!("host iterator drained by the plugin", s == fold(&items) && it.next().is_none(), "n={} {} vs {}", nn, s, fold(&items));
            // plugin iterator and plugin callback, connected by a host function
            let mut seen = 0u64;
            let r = lend(nn, stop, host_user, &mut seen);
            let want: Vec<u64> = (0..nn).map(|i| i * 3 + 2).take(if stop > 0 { stop } else { usize::MAX }).collect();
            check!("plugin iterator drained into a plugin callback by the host", r == want.len() as u64 && seen == fold(&want) + want.len() as u64 * 1_000_000,
                   "n={} stop={} fed {} digest {}", nn, stop, r, seen);
            balanced!("callbacks and iterators across modules", l0, a0, h0);
        }
        if trace_out.is_some() {
            let n = AllocTrace::finish();
            println!("{}", json!({"summary":"trace","events":n}));
            return;
        }
    }
    vkit::summary("xmod-misc", n, n, &fails, json!({}));
}
