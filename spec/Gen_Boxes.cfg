CONSTANTS
  Slot = {1, 2}
  MaxId = 12
  Depth = 4
SPECIFICATION GenSpec
INVARIANTS Emit DropAtMostOnce ExactlyOnce
CHECK_DEADLOCK FALSE
