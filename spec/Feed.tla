-------------------------------- MODULE Feed --------------------------------
(***************************************************************************)
(* cglue::callback (OpaqueCallback, FeedCallback, FromExtend, Extend) and   *)
(* cglue::iter::CIterator (property C15).                                   *)
(*                                                                          *)
(* One world: a source iterator holding the items not yet yielded, an       *)
(* optional CIterator wrapper borrowing it, and a callback sink (closure    *)
(* with a stop position, Vec, or Extend collection).  Items have identities *)
(* and destructor counters.                                                 *)
(***************************************************************************)
EXTENDS Naturals, Sequences, FiniteSets

CONSTANTS MaxId

Id == 1..MaxId

VARIABLES src,      \* Seq(Id): items the source has not yielded yet
          hasSrc,   \* a source exists
          wrapped,  \* a CIterator currently borrows the source
          sink,     \* [kind : {"none","closure","vec","extend"}, stop : Nat, calls : Nat, got : Seq(Id)]
          drops,    \* [Id -> Nat]
          nextId,
          last      \* [kind, n]: outcome of the last call ("count" n / "item" id / "end" / "ok")

vars == <<src, hasSrc, wrapped, sink, drops, nextId, last>>

L(k, n) == [kind |-> k, n |-> n]
NoSink == [kind |-> "none", stop |-> 0, calls |-> 0, got |-> <<>>]
Bump(f, S) == [i \in DOMAIN f |-> IF i \in S THEN f[i] + 1 ELSE f[i]]
Range(s) == {s[k] : k \in DOMAIN s}
Min(a, b) == IF a < b THEN a ELSE b

Init ==
  /\ src = <<>> /\ hasSrc = FALSE /\ wrapped = FALSE
  /\ sink = NoSink
  /\ drops = [i \in Id |-> 0]
  /\ nextId = 1
  /\ last = L("init", 0)

(* a new source iterator over n fresh items; an old source (and what it still holds) is dropped *)
NewSrc(n) ==
  /\ ~wrapped
  /\ nextId + n - 1 <= MaxId
  /\ src' = [k \in 1..n |-> nextId + k - 1]
  /\ hasSrc' = TRUE
  /\ nextId' = nextId + n
  /\ drops' = Bump(drops, Range(src))
  /\ UNCHANGED <<wrapped, sink>>
  /\ last' = L("ok", 0)

(* the source is not a fused iterator: it polls a queue, reports the end when the queue is empty, and yields again   *)
(* after the producer has pushed more (a channel's try_iter, iter::from_fn over shared state).  Refilling is the     *)
(* producer's step; it may happen while a CIterator borrows the source, also after that wrapper has reported the end *)
Refill(n) ==
  /\ hasSrc /\ n > 0
  /\ nextId + n - 1 <= MaxId
  /\ src' = src \o [k \in 1..n |-> nextId + k - 1]
  /\ nextId' = nextId + n
  /\ UNCHANGED <<hasSrc, wrapped, sink, drops>>
  /\ last' = L("ok", 0)

(* a new callback target; the old one (and the items it collected) is dropped.  The OpaqueCallback over a closure target  *)
(* is made here, once, and the same callback object is lent to every feed that takes it by reference: `calls` is the     *)
(* closure's own count across feeds - a callback that asked one feed to stop IS invoked again by the next (Offered)      *)
NewSink(kind, stop) ==
  /\ kind \in {"closure", "vec", "extend"}
  \* for a Vec target `stop` is only the capacity the vector was made with (Vec::with_capacity): collecting never stops
  /\ (kind = "extend" => stop = 0)
  /\ sink' = [kind |-> kind, stop |-> stop, calls |-> 0, got |-> <<>>]
  /\ drops' = Bump(drops, Range(sink.got))
  /\ UNCHANGED <<src, hasSrc, wrapped, nextId>>
  /\ last' = L("ok", 0)

(* how many of `n` items on offer the callback is invoked with (callback.rs:112-123):       *)
(* one invocation per item, in order, stopping after the first invocation returning false.  *)
(* Vec and Extend callbacks always return true; the closure returns false from its stop-th  *)
(* invocation on.                                                                            *)
Offered(n) ==
  IF sink.kind # "closure" \/ sink.stop = 0 THEN n   \* Vec / Extend targets take everything, whatever room they had
  ELSE IF n = 0 THEN 0
  ELSE IF sink.calls >= sink.stop THEN 1
  ELSE Min(n, sink.stop - sink.calls)

(* feed the whole source (taken by value) into the callback:                                *)
(*   via = "feed_into" | "feed_into_mut" -> returns the number of items offered             *)
(*   via = "extend"    (Extend for OpaqueCallback) -> returns nothing                       *)
(* items not offered die with the consumed source                                            *)
Feed(via) ==
  /\ hasSrc /\ ~wrapped /\ sink.kind # "none"
  /\ via \in {"feed_into", "feed_into_mut", "extend"}
  /\ LET k == Offered(Len(src)) IN
       /\ sink' = [sink EXCEPT !.got = @ \o SubSeq(src, 1, k), !.calls = @ + k]
       /\ drops' = Bump(drops, Range(SubSeq(src, k + 1, Len(src))))
       /\ last' = IF via = "extend" THEN L("ok", 0) ELSE L("count", k)
  /\ src' = <<>>
  /\ hasSrc' = FALSE
  /\ UNCHANGED <<wrapped, nextId>>

(* the same with the source passed by reference (`(&mut it).feed_into(cb)`, `cb.extend(&mut it)`): the items  *)
(* that were not offered stay in the source - nothing is pulled from it after the callback asked to stop     *)
FeedRef(via) ==
  /\ hasSrc /\ ~wrapped /\ sink.kind # "none"
  /\ via \in {"feed_ref", "extend_ref"}
  /\ LET k == Offered(Len(src)) IN
       /\ sink' = [sink EXCEPT !.got = @ \o SubSeq(src, 1, k), !.calls = @ + k]
       /\ src' = SubSeq(src, k + 1, Len(src))
       /\ last' = IF via = "extend_ref" THEN L("ok", 0) ELSE L("count", k)
  /\ UNCHANGED <<hasSrc, wrapped, drops, nextId>>

(* CIterator::new / From<&mut I> / as_citer (iter.rs:51-83)                                  *)
Wrap == /\ hasSrc /\ ~wrapped /\ wrapped' = TRUE
        /\ UNCHANGED <<src, hasSrc, sink, drops, nextId>> /\ last' = L("ok", 0)

(* dropping the wrapper drops nothing else                                                   *)
DropWrap == /\ wrapped /\ wrapped' = FALSE
            /\ UNCHANGED <<src, hasSrc, sink, drops, nextId>> /\ last' = L("ok", 0)

(* next() through the wrapper (iter.rs:85-95) or directly on the source: yields exactly the  *)
(* source's next item (handed to the caller, who drops it), or the end                        *)
NextItem(through) ==
  /\ hasSrc
  /\ (through = "wrapper") <=> wrapped
  /\ IF src = <<>>
       THEN /\ last' = L("end", 0)
            /\ UNCHANGED <<src, drops>>
       ELSE /\ last' = L("item", Head(src))
            /\ drops' = Bump(drops, {Head(src)})
            /\ src' = Tail(src)
  /\ UNCHANGED <<hasSrc, wrapped, sink, nextId>>

(* feed the CIterator itself into the callback (consumes the wrapper, not the source):       *)
(* items not offered stay in the source                                                       *)
FeedWrapped ==
  /\ wrapped /\ sink.kind # "none"
  /\ LET k == Offered(Len(src)) IN
       /\ sink' = [sink EXCEPT !.got = @ \o SubSeq(src, 1, k), !.calls = @ + k]
       /\ src' = SubSeq(src, k + 1, Len(src))
       /\ last' = L("count", k)
  /\ wrapped' = FALSE
  /\ UNCHANGED <<hasSrc, drops, nextId>>

Do(e) ==
  \/ e.op = "NewSrc"      /\ NewSrc(e.n)
  \/ e.op = "Refill"      /\ Refill(e.n)
  \/ e.op = "NewSink"     /\ NewSink(e.kind, e.stop)
  \/ e.op = "Feed"        /\ Feed(e.via)
  \/ e.op = "FeedRef"     /\ FeedRef(e.via)
  \/ e.op = "Wrap"        /\ Wrap
  \/ e.op = "DropWrap"    /\ DropWrap
  \/ e.op = "Next"        /\ NextItem(e.through)
  \/ e.op = "FeedWrapped" /\ FeedWrapped

Proj == [src |-> src, hasSrc |-> hasSrc, wrapped |-> wrapped,
         got |-> sink.got, calls |-> sink.calls,
         drops |-> [i \in 1..(nextId - 1) |-> drops[i]], last |-> last]

(***************************************************************************)
(* Properties (C15)                                                        *)
(***************************************************************************)
DropAtMostOnce == \A i \in Id : drops[i] <= 1
Held == Range(src) \cup Range(sink.got)
(* every item is in exactly one place: still in the source, collected by the sink, or destroyed once *)
ExactlyOnce == \A i \in 1..(nextId - 1) : IF i \in Held THEN drops[i] = 0 ELSE drops[i] = 1
NoDup == /\ Range(src) \cap Range(sink.got) = {}
         /\ \A j, k \in 1..Len(sink.got) : j # k => sink.got[j] # sink.got[k]
(* items reach the sink in the order the source held them: ids are allocated in source order *)
InOrder == \A j, k \in 1..Len(sink.got) : j < k => sink.got[j] < sink.got[k]
(* a closure is never invoked again within a feed once it has returned false: at most one     *)
(* invocation beyond its stop position per feed is covered by Offered; globally calls count    *)
CallsMatch == sink.calls = Len(sink.got)
=============================================================================
