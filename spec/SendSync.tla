------------------------------ MODULE SendSync ------------------------------
(***************************************************************************)
(* Type erasure and the auto traits Send / Sync (property C09).             *)
(*                                                                          *)
(* For every opaque-conversion rule of the library and of generated code    *)
(* (Kinds) and every payload class, Base(k, p) is the marker set of the     *)
(* concrete (typed) handle by Rust's own rules, and the property is         *)
(*     the opaque form has marker m  =>  the typed form has marker m.       *)
(* ImplOpaque transcribes the bounds actually written in the library        *)
(* (`as implemented`): `unsafe impl<T: Send> Opaquable for CBox<T>`,        *)
(* unbounded impls for &T, &mut T, CSliceBox, CArc, CArcSome, Fwd, and      *)
(* `c_void: Send + Sync`.  TLC enumerates the finite matrix completely and  *)
(* prints, per cell, the prediction of both rule sets.                      *)
(***************************************************************************)
EXTENDS Naturals, Sequences, FiniteSets, TLC, Json

Payloads == {"SendSync", "SendOnly", "SyncOnly", "Neither"}
PSend(p) == p \in {"SendSync", "SendOnly"}
PSync(p) == p \in {"SendSync", "SyncOnly"}

(* instance-handle kinds; object/group wrappers inherit from their instance handle *)
Inst == {"ref", "mut", "cbox", "cslicebox", "carc", "carcsome"}
Wrap == {"inst", "fwd", "obj", "group"}
Kinds == {<<w, i>> : w \in Wrap, i \in Inst}
Markers == {"Send", "Sync"}

(* Rust's rules for the typed handle = the rules of the std handle it is built from (Box<T>, Box<[T]>,  *)
(* Arc<T>).  The library's own `unsafe impl Send/Sync` for CBox, CSliceBox, CArc, CArcSome must not claim *)
(* more than this (wrapper level of C09: "a smart pointer can be sent only if the instance handle it was *)
(* built from could be sent"); the probe compares the observed markers of the typed pointers with it.    *)
BaseHas(i, p, m) ==
  CASE i = "ref"       -> PSync(p)                               \* &T: Send iff T: Sync; Sync iff T: Sync
    [] i = "mut"       -> IF m = "Send" THEN PSend(p) ELSE PSync(p)
    [] i = "cbox"      -> IF m = "Send" THEN PSend(p) ELSE PSync(p)   \* holds &mut T
    [] i = "cslicebox" -> IF m = "Send" THEN PSend(p) ELSE PSync(p)   \* unsafe impls in slice.rs
    [] OTHER           -> PSend(p) /\ PSync(p)                   \* carc / carcsome: unsafe impl<T: Send + Sync>

(* as implemented: does a conversion to the opaque form exist, and which markers does it have *)
Convertible(i, p) == IF i = "cbox" THEN PSend(p) ELSE TRUE       \* boxed.rs:78 (only bound in the library)
OpaqueHas(i, p, m) == TRUE                                        \* c_void: Send + Sync

(* the property, per cell *)
CellHolds(i, p, m) == (Convertible(i, p) /\ OpaqueHas(i, p, m)) => BaseHas(i, p, m)
ViolatingCells == {<<i, p, m>> \in Inst \X Payloads \X Markers : ~CellHolds(i, p, m)}

(* what the property demands of any rule set: a conversion may exist only ... *)
PropertyRulesOk == \A i \in Inst, p \in Payloads, m \in Markers : CellHolds(i, p, m)

(* The conversion rules the library ships (every `impl Opaquable for X` in cglue/src, self type with lifetimes removed).   *)
(* The matrix above speaks for these; the check takes a census of the real impls and an impl that is NOT in this set is a  *)
(* new way into the opaque world - it is probed with the four payload classes on the spot (the property's own predicate:   *)
(* convertible, opaque form has the marker, typed form has not).                                                           *)
KnownRules == {"Fwd<T>", "CBox<T>", "CSliceBox<T>", "CGlueObjContainer<T,C,R>", "&T", "&mutT", "CGlueTraitObj<T,F,C,R>",
               "std::marker::PhantomData<T>", "()", "c_void", "CArc<T>", "CArcSome<T>"}

Cells == {[w |-> k[1], i |-> k[2], p |-> p,
           base |-> [Send |-> BaseHas(k[2], p, "Send"), Sync |-> BaseHas(k[2], p, "Sync")],
           conv |-> Convertible(k[2], p),
           opaque |-> [Send |-> OpaqueHas(k[2], p, "Send"), Sync |-> OpaqueHas(k[2], p, "Sync")]] :
           k \in Kinds, p \in Payloads}

VARIABLE done
Init == done = FALSE
Next == ~done /\ done' = TRUE
Spec == Init /\ [][Next]_done
Emit == done => PrintT(<<"REPLAY", ToJson([cells |-> Cells, violating |-> ViolatingCells, rules |-> KnownRules])>>)
=============================================================================
