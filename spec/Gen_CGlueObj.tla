---------------------------- MODULE Gen_CGlueObj ----------------------------
(* Behaviour generator for CGlueObj.  A by-value call is recorded as one       *)
(* macro action ("Consume") once its six internal steps have run.              *)
EXTENDS MC_CGlueObj, Json
CONSTANT Depth
VARIABLE hist

GenInit == Init /\ hist = <<>>

MacroActions == {e \in Actions : e.op \notin {"Consume", "ConsumeEnd"}}

GenNext ==
  IF stack # <<>>
    THEN IF stack[1].phase = "returned"
           THEN \E y \in (IF stack[1].m = "ob_take" THEN {stack[1].x} ELSE Dst) :
                  /\ ConsumeCallerRelease(y)
                  /\ hist' = Append(hist, [a |-> [op |-> "Consume", x |-> stack[1].x, m |-> stack[1].m, y |-> y], exp |-> Proj'])
           ELSE ConsumeInternal /\ UNCHANGED hist
    ELSE /\ Len(hist) < Depth
         /\ \/ \E e \in MacroActions : Do(e) /\ hist' = Append(hist, [a |-> e, exp |-> Proj'])
            \/ "Consume" \in Ops /\ \E x \in Used, m \in {"ob_take", "ob_into"} : ConsumeBegin(x, m) /\ UNCHANGED hist

GenSpec == GenInit /\ [][GenNext]_<<vars, hist>>
Emit == (Len(hist) = Depth /\ stack = <<>>) => PrintT(<<"REPLAY", ToJson(hist)>>)
=============================================================================
