---------------------------- MODULE Gen_CGlueObj ----------------------------
(* Behaviour generator for CGlueObj.  A by-value call is recorded as one       *)
(* macro action ("Consume") once its six internal steps have run.              *)
EXTENDS MC_CGlueObj, Json
CONSTANT Depth
VARIABLES hist,
          fin   \* the behaviour is complete (see Gen_CArc)

GenInit == Init /\ hist = <<>> /\ fin = FALSE

MacroActions == {e \in Actions : e.op \notin {"Consume", "ConsumeEnd"}}

GenStep ==
  IF stack # <<>>
    THEN IF stack[1].phase = "returned"
           THEN \E y \in (IF NoChild(stack[1].m) THEN {stack[1].x} ELSE Dst) :
                  /\ ConsumeCallerRelease(y)
                  /\ hist' = Append(hist, [a |-> [op |-> "Consume", x |-> stack[1].x, m |-> stack[1].m, y |-> y], exp |-> Proj'])
           ELSE ConsumeInternal /\ UNCHANGED hist
    ELSE /\ Len(hist) < Depth
         /\ \/ \E e \in MacroActions : Do(e) /\ hist' = Append(hist, [a |-> e, exp |-> Proj'])
            \/ "Consume" \in Ops /\ \E x \in Used, m \in ConsumeMethods : ConsumeBegin(x, m) /\ UNCHANGED hist

GenNext == \/ ~fin /\ GenStep /\ UNCHANGED fin
           \/ ~fin /\ Len(hist) = Depth /\ stack = <<>> /\ fin' = TRUE /\ UNCHANGED <<vars, hist>>
GenSpec == GenInit /\ [][GenNext]_<<vars, hist, fin>>
Emit == fin => PrintT(<<"REPLAY", ToJson(hist)>>)
=============================================================================
