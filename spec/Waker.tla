------------------------------- MODULE Waker -------------------------------
(***************************************************************************)
(* cglue::task — the waker bridge (property C19).                           *)
(*                                                                          *)
(* A caller polls a future / stream / sink through an opaque object.  The   *)
(* generated glue (ext/core/future.rs, ext/futures/{stream,sink}.rs) lends  *)
(* the caller's waker as a CRefWaker; inside the callee `with_waker`        *)
(* (task/mod.rs:118-145) materialises a *view* waker.  Cloning the view     *)
(* clones the caller's original waker once and wraps that clone in a shared *)
(* record (BaseArc<CRawWaker>); every further clone of such a *foreign*     *)
(* waker shares the record.                                                 *)
(*                                                                          *)
(* State: the original waker is observed through its reference count        *)
(* (`ocount` = clones currently held on the foreign side) and its wake      *)
(* counter.  rec[r] is a shared record: rc handles refer to it, `held`      *)
(* says whether its inner clone of the original is still owned, `rel`       *)
(* counts how often that inner clone was released.                          *)
(*                                                                          *)
(* Every foreign waker slot is owned by a thread; polls run on thread 1.    *)
(* Deviation "release_per_handle" is the behaviour of the pinned upstream   *)
(* code before the fix (task/mod.rs:54-73: `drop` and `wake` released the   *)
(* inner waker on *every* handle, CRawWaker had no Drop).                   *)
(*                                                                          *)
(* What an "original" is, is the caller's business: any valid RawWaker.     *)
(* The adapter polls with three shapes of it - an Arc waker, a borrowed     *)
(* view whose clone() is not a bitwise copy, and one whose data pointer is  *)
(* NULL with its state in a static; clone / wake / release of the inner     *)
(* clone are owed to each of them alike.                                    *)
(***************************************************************************)
EXTENDS Integers, Sequences, FiniteSets

CONSTANTS FW,        \* foreign waker slots
          Rec,       \* record ids (naturals, allocated in increasing order)
          Thread,    \* threads; 1 is the polling thread
          Orig,      \* the caller's wakers (1..n): successive polls may come with different wakers
          MaxNest,   \* how many by-value wakes one thread may have in progress (nested inside each other's callbacks)
          Deviations \* subset of {"release_per_handle"}

VARIABLES ocount,   \* [Orig -> Int] clones of each original held by the foreign side
          owakes,   \* [Orig -> Nat] how often each original was woken
          cur,      \* the waker the current (or last) poll was entered with
          inPoll,   \* a poll is in progress (the view waker exists)
          rec,      \* [Rec -> [rc : Nat, held : BOOLEAN, rel : Nat, made : BOOLEAN]]
          fw,       \* [FW -> [r : Rec \cup {0}, own : Thread]]
          touched,  \* number of operations that reached the original through a released inner clone
          waking,   \* [Thread -> Seq(FW)] by-value wakes in progress, innermost last: the original's wake() has been
                    \* entered and has not returned, the handle that carries the wake is not yet given up.  Whatever the
                    \* caller's wake function does (drop or wake a sibling, clone, hand a waker to another thread) and
                    \* whatever other threads do meanwhile happens between FWakeBegin and FWakeEnd
          seen      \* what the original saw of its own reference count (relative to the base) at the instant it
                    \* was woken by the last action; -1 if the last action was not a wake.  A wake runs while the
                    \* clone it goes through is still held: "nothing touches the original after [they] are gone"

vars == <<ocount, owakes, cur, inPoll, rec, fw, touched, waking, seen>>

NoRec == [rc |-> 0, held |-> FALSE, rel |-> 0, made |-> FALSE, orig |-> 0]
Inc(f, o) == [f EXCEPT ![o] = @ + 1]
Dec(f, o) == [f EXCEPT ![o] = @ - 1]
Unmade == {r \in Rec : ~rec[r].made}
MinOf(S) == CHOOSE x \in S : \A y \in S : x <= y
IsFree(w) == fw[w].r = 0
InFlight == UNION {{waking[t][k] : k \in DOMAIN waking[t]} : t \in Thread}
(* a handle that is carrying a wake has been moved into wake(): nobody can use it any more *)
Owns(t, w) == fw[w].r # 0 /\ fw[w].own = t /\ w \notin InFlight
Quiet(t) == waking[t] = <<>>

Init ==
  /\ ocount = [o \in Orig |-> 0]
  /\ owakes = [o \in Orig |-> 0]
  /\ cur = CHOOSE o \in Orig : TRUE
  /\ inPoll = FALSE
  /\ rec = [r \in Rec |-> NoRec]
  /\ fw = [w \in FW |-> [r |-> 0, own |-> 1]]
  /\ touched = 0
  /\ waking = [t \in Thread |-> <<>>]
  /\ seen = -1

(* the caller enters poll()/poll_next()/poll_ready()...: CRefWaker::from(cx.waker()) *)
PollBegin(o) == /\ ~inPoll /\ inPoll' = TRUE /\ o \in Orig /\ cur' = o /\ Quiet(1)
                /\ UNCHANGED <<ocount, owakes, rec, fw, touched, waking>>

(* the callee returns; the view waker is gone (its drop slot is a no-op)       *)
PollEnd == /\ inPoll /\ inPoll' = FALSE /\ Quiet(1)
           /\ UNCHANGED <<ocount, owakes, cur, rec, fw, touched, waking>>

(* cx.waker().clone() inside the poll (task/mod.rs:128-133): one real clone of  *)
(* the original, wrapped into a fresh record with one handle                    *)
ViewClone(w) ==
  /\ inPoll /\ IsFree(w) /\ Unmade # {} /\ Quiet(1)
  /\ LET r == MinOf(Unmade) IN
       /\ rec' = [rec EXCEPT ![r] = [rc |-> 1, held |-> TRUE, rel |-> 0, made |-> TRUE, orig |-> cur]]
       /\ fw' = [fw EXCEPT ![w] = [r |-> r, own |-> 1]]
  /\ ocount' = Inc(ocount, cur)
  /\ UNCHANGED <<owakes, cur, inPoll, touched, waking>>

(* cx.waker().wake_by_ref() inside the poll (task/mod.rs:134-137)               *)
ViewWakeByRef ==
  /\ inPoll /\ Quiet(1)
  /\ owakes' = Inc(owakes, cur)
  /\ UNCHANGED <<ocount, cur, inPoll, rec, fw, touched, waking>>

(* clone of a foreign waker (task/mod.rs:55-60): share the record                *)
FClone(t, w, w2) ==
  /\ Owns(t, w) /\ IsFree(w2)
  /\ rec' = [rec EXCEPT ![fw[w].r].rc = @ + 1]
  /\ fw' = [fw EXCEPT ![w2] = [r |-> fw[w].r, own |-> t]]
  /\ UNCHANGED <<ocount, owakes, cur, inPoll, touched, waking>>

(* giving up one handle: the inner clone of the original is released when the    *)
(* last handle of the record goes (ideal), or on every handle (deviation)        *)
ReleaseHandle(w) ==
  LET r == fw[w].r
      last == rec[r].rc = 1
      doRel == last \/ "release_per_handle" \in Deviations IN
  /\ rec' = [rec EXCEPT ![r] = [rc |-> @.rc - 1,
                                 held |-> IF doRel THEN FALSE ELSE @.held,
                                 rel |-> IF doRel THEN @.rel + 1 ELSE @.rel,
                                 made |-> TRUE, orig |-> @.orig]]
  /\ ocount' = IF doRel THEN Dec(ocount, rec[r].orig) ELSE ocount
  /\ fw' = [fw EXCEPT ![w].r = 0]

Touch(w) == IF rec[fw[w].r].held THEN touched ELSE touched + 1

(* wake by value: wakes the original once and gives up the handle                *)
FWake(t, w) ==
  /\ Owns(t, w)
  /\ owakes' = Inc(owakes, rec[fw[w].r].orig)   \* the waker it was cloned from, whatever the current poll uses
  /\ touched' = Touch(w)
  /\ ReleaseHandle(w)
  /\ UNCHANGED <<inPoll, cur, waking>>

(* the same in two steps: the original's wake() is entered (it is woken, through a clone that is still held) ... *)
FWakeBegin(t, w) ==
  /\ Owns(t, w) /\ Len(waking[t]) < MaxNest
  /\ owakes' = Inc(owakes, rec[fw[w].r].orig)
  /\ touched' = Touch(w)
  /\ waking' = [waking EXCEPT ![t] = Append(@, w)]
  /\ UNCHANGED <<ocount, cur, inPoll, rec, fw>>
(* ... and returns: only now is the handle given up.  "Last handle" is decided HERE, atomically with giving it up -  *)
(* not when the wake started: siblings may have come and gone in between                                            *)
FWakeEnd(t) ==
  /\ waking[t] # <<>>
  /\ LET w == waking[t][Len(waking[t])] IN ReleaseHandle(w)
  /\ waking' = [waking EXCEPT ![t] = SubSeq(@, 1, Len(@) - 1)]
  /\ UNCHANGED <<owakes, cur, inPoll, touched>>

FWakeByRef(t, w) ==
  /\ Owns(t, w)
  /\ owakes' = Inc(owakes, rec[fw[w].r].orig)
  /\ touched' = Touch(w)
  /\ UNCHANGED <<ocount, cur, inPoll, rec, fw, waking>>

(* how: the handle goes out of scope normally, or is dropped by a thread that is unwinding from a panic (caught further  *)
(* up): the same release either way                                                                                      *)
FDrop(t, w, how) ==
  /\ Owns(t, w) /\ how \in {"plain", "unwind"}
  /\ touched' = IF "release_per_handle" \in Deviations THEN Touch(w) ELSE touched
  /\ ReleaseHandle(w)
  /\ UNCHANGED <<owakes, cur, inPoll, waking>>

(* send a foreign waker to another thread (Waker is Send)                        *)
Give(t, w, u) ==
  /\ Owns(t, w) /\ u # t
  /\ fw' = [fw EXCEPT ![w].own = u]
  /\ UNCHANGED <<ocount, owakes, cur, inPoll, rec, touched, waking>>

Core(e) ==
  \/ e.op = "PollBegin"     /\ PollBegin(e.o)
  \/ e.op = "PollEnd"       /\ PollEnd
  \/ e.op = "ViewClone"     /\ ViewClone(e.w)
  \/ e.op = "ViewWakeByRef" /\ ViewWakeByRef
  \/ e.op = "FClone"        /\ FClone(e.t, e.w, e.d)
  \/ e.op = "FWake"         /\ FWake(e.t, e.w)
  \/ e.op = "FWakeByRef"    /\ FWakeByRef(e.t, e.w)
  \/ e.op = "FWakeBegin"    /\ FWakeBegin(e.t, e.w)
  \/ e.op = "FWakeEnd"      /\ FWakeEnd(e.t)
  \/ e.op = "FDrop"         /\ FDrop(e.t, e.w, e.how)
  \/ e.op = "Give"          /\ Give(e.t, e.w, e.u)

IsWake(e) == e.op \in {"ViewWakeByRef", "FWake", "FWakeByRef", "FWakeBegin"}
(* the original is woken before the handle that carries the wake is given up: it sees every clone still held *)
Woken(e) == IF e.op = "ViewWakeByRef" THEN cur ELSE rec[fw[e.w].r].orig
Do(e) == Core(e) /\ seen' = IF IsWake(e) THEN ocount[Woken(e)] ELSE -1

(* observation: reference count of the original relative to its base, its wake  *)
(* counter, and which record each foreign waker points at (Waker::data())        *)
Proj == [ocount |-> [o \in Orig |-> ocount[o]], owakes |-> [o \in Orig |-> owakes[o]], inPoll |-> inPoll, seen |-> seen,
         fw |-> [w \in FW |-> fw[w].r]]

(***************************************************************************)
(* Properties (C19)                                                        *)
(***************************************************************************)
TypeOK ==
  /\ \A o \in Orig : ocount[o] \in Int /\ owakes[o] \in Nat
  /\ cur \in Orig /\ inPoll \in BOOLEAN /\ seen \in Int
  /\ \A w \in FW : fw[w].r \in Rec \cup {0} /\ fw[w].own \in Thread
  /\ \A t \in Thread : Len(waking[t]) <= MaxNest /\ \A k \in DOMAIN waking[t] : waking[t][k] \in FW /\ fw[waking[t][k]].r # 0

RcExact == \A r \in Rec : rec[r].rc = Cardinality({w \in FW : fw[w].r = r})

(* every clone taken of the caller's waker is released exactly once ...          *)
ReleasedAtMostOnce == \A r \in Rec : rec[r].rel <= 1
ReleasedWhenUnreferenced == \A r \in Rec : rec[r].made => (rec[r].rel = 1 <=> rec[r].rc = 0)
(* ... so the original's count is its base plus the records still referenced     *)
CountExact == \A o \in Orig : ocount[o] = Cardinality({r \in Rec : rec[r].rc > 0 /\ rec[r].orig = o})
(* nothing touches the original through a clone that is already gone             *)
NeverTouchedAfterRelease == touched = 0
HeldWhileReferenced == \A w \in FW : fw[w].r # 0 => rec[fw[w].r].held
(* a handle carries at most one wake at a time *)
InFlightOnce == \A t, u \in Thread : \A i \in DOMAIN waking[t], j \in DOMAIN waking[u] : (waking[t][i] = waking[u][j]) => (t = u /\ i = j)

(* waking wakes the original exactly once per wake                               *)
WakeOncePerWake == [][\/ owakes' = owakes
                        \/ \E o \in Orig : owakes' = Inc(owakes, o)]_vars
=============================================================================
