CONSTANTS
  MaxId = 8
  Lens = {0, 1, 2, 3}
  Stops = {0, 1, 2, 3}
SPECIFICATION Spec
INVARIANTS DropAtMostOnce ExactlyOnce NoDup InOrder CallsMatch
CHECK_DEADLOCK FALSE
