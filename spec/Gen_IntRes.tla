----------------------------- MODULE Gen_IntRes -----------------------------
EXTENDS IntRes, Json, TLC
VARIABLES script, hist

(* i32::MIN+1, a negative errno-like value, -1, 0, small, the 0xffff sentinel itself, above it, i32::MAX *)
CodesDef == {-2147483647, -4096, -1, 0, 1, 2, 65535, 65536, 2147483647}

Encs == {<<[op |-> "EncOk", id |-> 1]>>, <<[op |-> "EncEmptyOk", id |-> 1]>>}
        \cup {<<[op |-> "EncErr", f |-> f, n |-> n]>> : f \in {"os"}, n \in Codes}
        \cup {<<[op |-> "EncErr", f |-> f, n |-> 0]>> : f \in {"kind", "unit", "fmt"}}
DecsFor(enc) ==
  LET e == enc[1] IN
  IF e.op = "EncOk" THEN {<<[op |-> "Dec", f |-> f]>> : f \in Flavours}
  ELSE IF e.op = "EncEmptyOk" THEN {<<[op |-> "DecEmpty", f |-> f]>> : f \in Flavours}
  ELSE LET ff == IF e.f = "kind" THEN "os" ELSE e.f IN
       {<<[op |-> "Dec", f |-> ff]>>, <<[op |-> "DecEmpty", f |-> ff]>>}
Scripts == UNION {{enc \o dec \o <<[op |-> "Finish"]>> : dec \in DecsFor(enc)} : enc \in Encs}

GenInit == Init /\ hist = <<>> /\ script \in Scripts
GenNext == /\ script # <<>>
           /\ Do(Head(script))
           /\ hist' = Append(hist, [a |-> Head(script), exp |-> Proj'])
           /\ script' = Tail(script)
GenSpec == GenInit /\ [][GenNext]_<<vars, script, hist>>
Emit == (script = <<>> /\ hist # <<>>) => PrintT(<<"REPLAY", ToJson(hist)>>)
=============================================================================
