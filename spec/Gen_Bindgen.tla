----------------------------- MODULE Gen_Bindgen -----------------------------
EXTENDS Bindgen
VARIABLE done
GInit == IInit /\ done = FALSE
GNext == UNCHANGED <<ivars, done>>
Emit == PrintT(<<"REPLAY", ToJson([models |-> Models, histories |-> OutputHistory])>>)
=============================================================================
