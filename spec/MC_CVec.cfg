CONSTANTS
  Slot = {1, 2}
  MaxId = 5
  MaxLen = 3
  Slack = 1
  InitLens = {0, 2}
  Spares = {0, 2}
  ResN = {1, 3}
SPECIFICATION Spec
INVARIANTS TypeOK CapGeLen DropAtMostOnce NoAlias ExactlyOnce DeadIsEmpty
PROPERTIES PanicIsNoOp
CHECK_DEADLOCK FALSE
