CONSTANTS
  Slot = {1, 2, 3}
  Alloc = {1, 2}
  MaxH = 9
  Thread = {1, 2}
  Depth = 5
SPECIFICATION GenSpec
INVARIANTS Emit
CHECK_DEADLOCK FALSE
