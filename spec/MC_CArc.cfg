CONSTANTS
  Slot = {1, 2, 3}
  Alloc = {1, 2}
  Thread = {1, 2}
SPECIFICATION Spec
VIEW View
INVARIANTS TypeOK StrongExact DroppedIffUnreferenced NoDangling
CHECK_DEADLOCK FALSE
