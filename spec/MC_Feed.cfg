CONSTANTS
  MaxId = 6
  Lens = {0, 1, 3}
  Stops = {0, 1, 2}
SPECIFICATION Spec
INVARIANTS DropAtMostOnce ExactlyOnce NoDup InOrder CallsMatch
CHECK_DEADLOCK FALSE
