CONSTANTS
  FW = {1, 2, 3, 4, 5, 6}
  Rec = {1, 2, 3, 4, 5, 6, 7, 8, 9, 10, 11, 12, 13, 14, 15, 16, 17, 18, 19, 20, 21, 22, 23, 24}
  Thread = {1, 2, 3}
  Orig = {1, 2}
  MaxNest = 2
  Deviations = {}
SPECIFICATION TraceSpec
INVARIANTS TypeOK RcExact ReleasedAtMostOnce ReleasedWhenUnreferenced CountExact NeverTouchedAfterRelease HeldWhileReferenced InFlightOnce
POSTCONDITION TraceAccepted
CHECK_DEADLOCK FALSE
