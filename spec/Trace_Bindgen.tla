---------------------------- MODULE Trace_Bindgen ----------------------------
EXTENDS Bindgen, IOUtils
Rec == ndJsonDeserialize(IOEnv.TRACE)
VARIABLE l
TraceInit == IInit /\ l = 1
TraceNext ==
  /\ l <= Len(Rec)
  /\ l' = l + 1
  /\ LET e == Rec[l] IN
       CASE e.ev = "call"      -> Call(e)
         [] e.ev = "ctx_clone" -> CtxClone(e.ok)
         [] e.ev = "slot"      -> Slot(e)
         [] e.ev = "box_drop"  -> BoxDrop(e.ok)
         [] e.ev = "ctx_drop"  -> CtxDrop(e.ok)
         [] e.ev = "ret"       -> Ret(e.k, e.val)
         [] OTHER              -> FALSE
TraceSpec == TraceInit /\ [][TraceNext]_<<ivars, l>>
TraceAccepted ==
  LET d == TLCGet("stats").diameter IN
  IF d - 1 = Len(Rec) THEN TRUE ELSE Print(<<"TRACE-REJECTED line", d, Rec[d]>>, FALSE)
=============================================================================
