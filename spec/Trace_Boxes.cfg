CONSTANTS
  Slot = {1, 2, 3}
  MaxId = 160
SPECIFICATION TraceSpec
INVARIANTS DropAtMostOnce ExactlyOnce
POSTCONDITION TraceAccepted
CHECK_DEADLOCK FALSE
