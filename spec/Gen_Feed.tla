------------------------------ MODULE Gen_Feed ------------------------------
EXTENDS MC_Feed, Json
CONSTANT Depth
VARIABLE hist
GenInit == Init /\ hist = <<>>
GenNext == /\ Len(hist) < Depth
           /\ \E e \in Actions : Do(e) /\ hist' = Append(hist, [a |-> e, exp |-> Proj'])
GenSpec == GenInit /\ [][GenNext]_<<vars, hist>>
Emit == Len(hist) = Depth => PrintT(<<"REPLAY", ToJson(hist)>>)
=============================================================================
