CONSTANTS
  Slot = {1, 2}
  MaxChars = 0
  Mode = "ops"
  Depth = 4
SPECIFICATION GenSpec
INVARIANTS Emit WellFormed OneBufferEach
CHECK_DEADLOCK FALSE
