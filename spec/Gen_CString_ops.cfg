CONSTANTS
  Slot = {1, 2}
  MaxChars = 0
  Mode = "ops"
  Depth = 3
SPECIFICATION GenSpec
INVARIANTS Emit WellFormed OneBufferEach
CHECK_DEADLOCK FALSE
