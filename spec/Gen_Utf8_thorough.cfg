CONSTANTS
  Alphabet = {0, 127, 128, 143, 144, 159, 160, 191, 194, 224, 237, 240, 244, 245}
  MaxLen = 5
SPECIFICATION Spec
INVARIANTS Emit
CHECK_DEADLOCK FALSE
