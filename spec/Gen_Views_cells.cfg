CONSTANTS
  MaxId = 16
  Depth = 4
  Lens = {0}
  Mode = "cells"
SPECIFICATION GenSpec
INVARIANTS Emit DropAtMostOnce ExactlyOnce
CHECK_DEADLOCK FALSE
