CONSTANTS
  Slot = {1, 2}
  MaxChars = 3
  Mode = "inputs"
  Depth = 0
SPECIFICATION GenSpec
INVARIANTS Emit WellFormed OneBufferEach
CHECK_DEADLOCK FALSE
