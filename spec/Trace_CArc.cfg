CONSTANTS
  Slot = {1, 2, 3, 4, 5, 6}
  Alloc = {1, 2, 3}
  Thread = {1, 2, 3}
SPECIFICATION TraceSpec
INVARIANTS TypeOK StrongExact DroppedIffUnreferenced NoDangling HandleOnce HandleHeld HandleNoAlias
POSTCONDITION TraceAccepted
CHECK_DEADLOCK FALSE
