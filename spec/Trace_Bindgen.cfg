SPECIFICATION TraceSpec
INVARIANTS GuardAlive
POSTCONDITION TraceAccepted
CHECK_DEADLOCK FALSE
