------------------------------- MODULE MC_Feed -------------------------------
EXTENDS Feed, TLC
CONSTANTS Lens, Stops
Actions ==
  {[op |-> "NewSrc", n |-> n] : n \in Lens}
  \cup {[op |-> "Refill", n |-> n] : n \in Lens \ {0}}
  \cup {[op |-> "NewSink", kind |-> "closure", stop |-> s] : s \in Stops}
  \cup {[op |-> "NewSink", kind |-> "extend", stop |-> 0]}
  \cup {[op |-> "NewSink", kind |-> "vec", stop |-> c] : c \in {0, 2}}
  \cup {[op |-> "Feed", via |-> v] : v \in {"feed_into", "feed_into_mut", "extend"}}
  \cup {[op |-> "FeedRef", via |-> v] : v \in {"feed_ref", "extend_ref"}}
  \cup {[op |-> "Wrap"], [op |-> "DropWrap"], [op |-> "FeedWrapped"]}
  \cup {[op |-> "Next", through |-> t] : t \in {"wrapper", "direct"}}
Next == \E e \in Actions : Do(e)
Spec == Init /\ [][Next]_vars
=============================================================================
