CONSTANTS
  MaxId = 1
  Depth = 5
  Lens = {0, 1, 3}
  Mode = "slices"
SPECIFICATION GenSpec
INVARIANTS Emit ViewInBounds
CHECK_DEADLOCK FALSE
