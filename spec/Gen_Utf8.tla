------------------------------ MODULE Gen_Utf8 ------------------------------
(* Enumerates every byte string of length <= MaxLen over Alphabet and prints *)
(* the recogniser's verdict for each; the adapter runs the real conversions  *)
(* on every one of them.                                                     *)
EXTENDS Utf8, Json, TLC
CONSTANTS Alphabet, MaxLen
VARIABLE s
Init == s = <<>>
Next == Len(s) < MaxLen /\ \E b \in Alphabet : s' = Append(s, b)
Spec == Init /\ [][Next]_s
Emit == PrintT(<<"REPLAY", ToJson([s |-> s, v |-> Valid(s)])>>)
(* sanity of the recogniser itself: ASCII is valid, a lone continuation byte is not, *)
(* C0/C1 and F5..FF never start a sequence, prefixes of valid multi-byte forms are rejected *)
Sanity ==
  /\ Valid(<<0, 65, 127>>) /\ ~Valid(<<128>>) /\ ~Valid(<<192, 128>>) /\ ~Valid(<<193, 191>>)
  /\ ~Valid(<<245, 128, 128, 128>>) /\ ~Valid(<<255>>)
  /\ Valid(<<194, 128>>) /\ Valid(<<223, 191>>) /\ ~Valid(<<194>>)
  /\ Valid(<<224, 160, 128>>) /\ ~Valid(<<224, 159, 191>>)          \* overlong 3-byte
  /\ Valid(<<237, 159, 191>>) /\ ~Valid(<<237, 160, 128>>)          \* surrogates
  /\ Valid(<<240, 144, 128, 128>>) /\ ~Valid(<<240, 143, 191, 191>>) \* overlong 4-byte
  /\ Valid(<<244, 143, 191, 191>>) /\ ~Valid(<<244, 144, 128, 128>>) \* > U+10FFFF
ASSUME Sanity
=============================================================================
