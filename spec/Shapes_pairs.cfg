CONSTANTS
  Mode = "pairs"
INIT Init
NEXT Stutter
INVARIANTS Emit
CHECK_DEADLOCK FALSE
