------------------------------- MODULE Boxes -------------------------------
(***************************************************************************)
(* CBox / CSliceBox and typed (not yet opaque) single-trait objects          *)
(* (property C06: "a value moved into a CBox, CSliceBox, boxed object ...    *)
(* is dropped exactly once ... whether it is dropped directly, converted to  *)
(* opaque form ..."; payloads with heap state, zero-sized payloads, empty    *)
(* and non-empty boxed slices).                                              *)
(*                                                                          *)
(* A slot owns a sequence of payload identities (one for a box, n for a      *)
(* boxed slice).  pk says whether the payloads are heap-owning ("heavy"),    *)
(* zero-sized-with-destructor ("zst") or plain data without any drop glue    *)
(* ("pod": its end of life is not observable as a destructor run, but the    *)
(* block that held it must still be given back exactly once).                *)
(*                                                                          *)
(* A CBox is a published two-word layout {instance, drop function}: foreign  *)
(* code may fill one in itself.  own = "foreign": the box owns the value and *)
(* its drop function is the maker's - dropping the box (typed or opaque)     *)
(* hands exactly that instance to exactly that function, once.  own =        *)
(* "loan": no drop function - the value stays the environment's; dropping    *)
(* the box destroys nothing (`kept`), writing through it still replaces the  *)
(* value in place.  into_inner is for boxes made by Rust's Box only.         *)
(***************************************************************************)
EXTENDS Naturals, Sequences, FiniteSets

CONSTANTS Slot, MaxId
Id == 1..MaxId

VARIABLES bx,      \* [Slot -> [kind, form, pk, ids, own]]  kind: free|cbox|sbox|obj  form: typed|opaque  own: rust|foreign|loan
          drops,   \* [Id -> Nat]
          nextId,
          kept     \* payloads the environment still holds after the box it had lent them through is gone

vars == <<bx, drops, nextId, kept>>
Free == [kind |-> "free", form |-> "typed", pk |-> "heavy", ids |-> <<>>, own |-> "rust"]
Range(s) == {s[k] : k \in DOMAIN s}
Bump(f, S) == [i \in DOMAIN f |-> IF i \in S THEN f[i] + 1 ELSE f[i]]

Init == bx = [s \in Slot |-> Free] /\ drops = [i \in Id |-> 0] /\ nextId = 1 /\ kept = {}

(* CBox::from(T) / from(Box<T>) / from((T, NoContext)) (boxed.rs:44-67); a typed object from a value *)
New(s, kind, pk, n, via) ==
  /\ bx[s].kind = "free" /\ kind \in {"cbox", "sbox", "obj"} /\ pk \in {"heavy", "zst", "pod"}
  /\ (kind # "sbox" => n = 1) /\ nextId + n - 1 <= MaxId
  /\ (via \in {"foreign", "loan"} => kind = "cbox" /\ pk # "zst")
  /\ bx' = [bx EXCEPT ![s] = [kind |-> kind, form |-> "typed", pk |-> pk, ids |-> [k \in 1..n |-> nextId + k - 1],
                              own |-> IF via \in {"foreign", "loan"} THEN via ELSE "rust"]]
  /\ nextId' = nextId + n
  /\ UNCHANGED <<drops, kept>>

(* into_opaque: a bit move, nothing is dropped or copied *)
IntoOpaque(s) ==
  /\ bx[s].kind # "free" /\ bx[s].form = "typed"
  /\ bx' = [bx EXCEPT ![s].form = "opaque"]
  /\ UNCHANGED <<drops, nextId, kept>>

(* IntoInner::into_inner on a typed CBox (boxed.rs:20-28): the value is moved out (the caller drops it), *)
(* the allocation is freed, the box's own destructor must not run any more                               *)
IntoInner(s) ==
  /\ bx[s].kind = "cbox" /\ bx[s].form = "typed" /\ bx[s].own = "rust"
  /\ drops' = Bump(drops, Range(bx[s].ids))
  /\ bx' = [bx EXCEPT ![s] = Free]
  /\ UNCHANGED <<nextId, kept>>

(* assignment through DerefMut: the old value dies, the new one is owned *)
Write(s, k) ==
  /\ bx[s].kind \in {"cbox", "sbox"} /\ bx[s].form = "typed" /\ k \in 1..Len(bx[s].ids) /\ nextId <= MaxId
  /\ drops' = Bump(drops, {bx[s].ids[k]})
  /\ bx' = [bx EXCEPT ![s].ids[k] = nextId]
  /\ nextId' = nextId + 1
  /\ UNCHANGED kept

(* Drop in whatever form the value currently has *)
DropBox(s) ==
  /\ bx[s].kind # "free"
  /\ IF bx[s].own = "loan"
       THEN kept' = kept \cup Range(bx[s].ids) /\ UNCHANGED drops
       ELSE drops' = Bump(drops, Range(bx[s].ids)) /\ UNCHANGED kept
  /\ bx' = [bx EXCEPT ![s] = Free]
  /\ UNCHANGED nextId

(* the environment destroys what it had lent out (only after the boxes are gone) *)
EnvRelease ==
  /\ kept # {}
  /\ drops' = Bump(drops, kept)
  /\ kept' = {}
  /\ UNCHANGED <<bx, nextId>>

Do(e) ==
  \/ e.op = "New"        /\ New(e.s, e.kind, e.pk, e.n, e.via)
  \/ e.op = "IntoOpaque" /\ IntoOpaque(e.s)
  \/ e.op = "IntoInner"  /\ IntoInner(e.s)
  \/ e.op = "Write"      /\ Write(e.s, e.k)
  \/ e.op = "Drop"       /\ DropBox(e.s)
  \/ e.op = "EnvRelease" /\ EnvRelease

Proj == [ slots |-> [s \in Slot |-> <<bx[s].kind, bx[s].form, bx[s].pk, bx[s].ids, bx[s].own>>],
          drops |-> [i \in 1..(nextId - 1) |-> drops[i]],
          kept  |-> [i \in 1..(nextId - 1) |-> i \in kept] ]

DropAtMostOnce == \A i \in Id : drops[i] <= 1
Owned == UNION {Range(bx[s].ids) : s \in Slot} \cup kept
ExactlyOnce == \A i \in 1..(nextId - 1) : IF i \in Owned THEN drops[i] = 0 ELSE drops[i] = 1
=============================================================================
