CONSTANTS
  Mode = "full"
INIT Init
NEXT Stutter
INVARIANTS Emit
CHECK_DEADLOCK FALSE
