INIT GInit
NEXT GNext
INVARIANTS Emit
CHECK_DEADLOCK FALSE
