CONSTANTS
  Slot = {1, 2}
  MaxId = 7
SPECIFICATION Spec
INVARIANTS DropAtMostOnce ExactlyOnce LentIntact KeptNotOwned
CHECK_DEADLOCK FALSE
