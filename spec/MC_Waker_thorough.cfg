CONSTANTS
  FW = {1, 2, 3, 4}
  Rec = {1, 2, 3}
  Thread = {1, 2, 3}
  Orig = {1, 2}
  MaxNest = 2
  Deviations = {}
SPECIFICATION Spec
VIEW View
INVARIANTS TypeOK RcExact ReleasedAtMostOnce ReleasedWhenUnreferenced CountExact NeverTouchedAfterRelease HeldWhileReferenced InFlightOnce
PROPERTIES WakeOncePerWake
CHECK_DEADLOCK FALSE
