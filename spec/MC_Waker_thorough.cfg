CONSTANTS
  FW = {1, 2, 3, 4, 5}
  Rec = {1, 2, 3, 4}
  Thread = {1, 2, 3}
  Orig = {1, 2}
  Deviations = {}
SPECIFICATION Spec
VIEW View
INVARIANTS TypeOK RcExact ReleasedAtMostOnce ReleasedWhenUnreferenced CountExact NeverTouchedAfterRelease HeldWhileReferenced
PROPERTIES WakeOncePerWake
CHECK_DEADLOCK FALSE
