---------------------------- MODULE MC_CGlueObj ----------------------------
EXTENDS CGlueObj, TLC

CONSTANTS Vals,     \* initial register values
          Args,     \* call arguments
          PTs,      \* payload types used
          ObjTraits,\* traits for which single-trait objects are built
          Ops       \* operation names in the alphabet (lets a config focus on a scenario family)

FreeH == {x \in Handle : IsFree(x)}
MinOf(S) == CHOOSE x \in S : \A y \in S : x <= y
Dst == IF FreeH = {} THEN {} ELSE {MinOf(FreeH)}
Used == {x \in Handle : ~IsFree(x)}
CtxChoice == {0} \cup Ctx
EnvLive == {i \in 1..(nextInst - 1) : pay[i].st = "live" /\ pay[i].own = "env"}

(* requested optional sets, in the generator's canonical (name) order *)
Reqs == {<<"Ma">>, <<"Ob">>, <<"Ma", "Ob">>, <<"Kid">>, <<"Clone">>, <<"Kid", "Ma">>, <<"Rb">>, <<"Ma", "Rb">>}
AllActions ==
  {[op |-> "EnvNew", pt |-> pt, v |-> v] : pt \in PTs, v \in Vals}
  \cup {[op |-> "EnvDrop", i |-> i] : i \in EnvLive}
  \cup {[op |-> "EnvRelease", c |-> c] : c \in Ctx}
  \cup {[op |-> "NewOwned", x |-> x, kind |-> k, t |-> "obj", tr |-> tr, pt |-> pt, v |-> v, c |-> c] :
          x \in Dst, k \in {"box", "arcsome"}, tr \in ObjTraits, pt \in PTs, v \in Vals, c \in CtxChoice}
  \cup {[op |-> "NewOwned", x |-> x, kind |-> "box", t |-> "group", tr |-> "", pt |-> pt, v |-> v, c |-> c] :
          x \in Dst, pt \in PTs, v \in Vals, c \in CtxChoice}
  \cup {[op |-> "NewBorrowed", x |-> x, kind |-> k, t |-> "obj", tr |-> tr, i |-> i, c |-> c] :
          x \in Dst, k \in {"mut", "ref"}, tr \in ObjTraits, i \in EnvLive, c \in CtxChoice}
  \cup {[op |-> "NewBorrowed", x |-> x, kind |-> k, t |-> "group", tr |-> "", i |-> i, c |-> c] :
          x \in Dst, k \in {"mut", "ref"}, i \in EnvLive, c \in CtxChoice}
  \cup {[op |-> "Call", x |-> x, m |-> m, a |-> a] : x \in Used, m \in PlainMethods, a \in Args}
  \cup UNION {{[op |-> "CastBorrow", x |-> x, how |-> o, req |-> r, m |-> m, a |-> a] :
          o \in {"check", "as_ref", "as_mut"}, r \in {q \in Reqs : ReqOk(q, h[x].kind)}, m \in PlainMethods, a \in Args} : x \in Used}
  \cup UNION {{[op |-> "CastMove", x |-> x, how |-> o, req |-> r] : o \in {"cast", "into"}, r \in {q \in Reqs : ReqOk(q, h[x].kind)}} : x \in Used}
  \cup {[op |-> "Upcast", x |-> x] : x \in Used}
  \cup {[op |-> "Clone", x |-> x, y |-> y] : x \in Used, y \in Dst}
  \cup {[op |-> "KidOwned", x |-> x, y |-> y, via |-> v] : x \in Used, y \in Dst, v \in {"ref", "pin"}}
  \cup {[op |-> "KidBorrowed", x |-> x, which |-> w, sel |-> k, m |-> m, a |-> a] :
          x \in Used, w \in {"ref", "mut"}, k \in {0, 1, 2}, m \in {"ra_get", "ra_mix", "ma_add", "ma_peek"}, a \in Args}
  \cup {[op |-> "KidView", x |-> x, m |-> m, a |-> a] : x \in Used, m \in {"ra_get", "ra_mix"}, a \in Args}
  \cup {[op |-> "Consume", x |-> x, m |-> m] : x \in Used, m \in ConsumeMethods}
  \cup {[op |-> "ConsumeEnd", y |-> y] : y \in Handle}
  \cup {[op |-> "Drop", x |-> x] : x \in Used}

Actions == {e \in AllActions : e.op \in Ops}

Next == (\E e \in Actions : Do(e)) \/ ConsumeInternal
Spec == Init /\ [][Next]_vars
(* `last` is an observation only: keep it out of the fingerprint *)
View == <<pay, h, cnt, envHolds, crel, leaked, nextInst, stack>>
=============================================================================
