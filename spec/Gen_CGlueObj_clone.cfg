CONSTANTS
  Handle = {1, 2}
  MaxInst = 3
  Ctx = {1}
  Mod = 61
  Deviations = {"borrowed_child_ctx_leak"}
  Vals = {7}
  Args = {2}
  ObjTraits = {"Clone"}
  Ops = {"NewOwned", "CastMove", "Upcast", "Clone", "Drop"}
  PTs = {2, 3}
  Depth = 5
SPECIFICATION GenSpec
INVARIANTS Emit
CHECK_DEADLOCK FALSE
