CONSTANTS
  Slot = {1, 2, 3}
SPECIFICATION Spec
VIEW View
INVARIANTS WellFormed OneBufferEach ReadBackClean EqIsTextEq
CHECK_DEADLOCK FALSE
