----------------------------- MODULE Trace_Waker -----------------------------
EXTENDS Waker, Json, IOUtils, TLC
Rec_ == ndJsonDeserialize(IOEnv.TRACE)
VARIABLE l
TraceInit == Init /\ l = 1
Reset ==
  /\ ocount' = [o \in Orig |-> 0] /\ owakes' = [o \in Orig |-> 0] /\ cur' = CHOOSE o \in Orig : TRUE
  /\ inPoll' = FALSE /\ touched' = 0 /\ seen' = -1 /\ waking' = [t \in Thread |-> <<>>]
  /\ rec' = [r \in Rec |-> NoRec]
  /\ fw' = [w \in FW |-> [r |-> 0, own |-> 1]]
TraceNext ==
  /\ l <= Len(Rec_)
  /\ l' = l + 1
  /\ LET e == Rec_[l] IN
       IF e.op = "reset" THEN Reset
       ELSE IF e.op = "quiescent" THEN e.ok /\ (\A o \in Orig : ocount[o] = 0) /\ UNCHANGED vars
       ELSE Do(e) /\ Proj' = e.proj
TraceSpec == TraceInit /\ [][TraceNext]_<<vars, l>>
TraceAccepted ==
  LET d == TLCGet("stats").diameter IN
  IF d - 1 = Len(Rec_) THEN TRUE
  ELSE Print(<<"TRACE-REJECTED line", d, Rec_[d]>>, FALSE)
=============================================================================
