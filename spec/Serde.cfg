INIT Init
NEXT Next
INVARIANT Emit
CHECK_DEADLOCK FALSE
