CONSTANTS
  Module = {1, 2}
  Deviations = {}
SPECIFICATION TraceSpec
INVARIANTS OwnerUnique NoForeignFree
POSTCONDITION TraceAccepted
CHECK_DEADLOCK FALSE
