------------------------------ MODULE CastMatrix ------------------------------
(***************************************************************************)
(* The complete cast matrix of C08: groups with n = 0..4 optional traits,   *)
(* every set of traits enabled by the implementing type, every non-empty    *)
(* requested subset, the five operations, three container kinds.  The       *)
(* verdict of a cell is CGlueObj!CastOk: the request succeeds iff every      *)
(* requested trait is enabled.  TLC enumerates the matrix and prints every     *)
(* cell with its verdict.                                                    *)
(***************************************************************************)
EXTENDS Naturals, Sequences, FiniteSets, TLC, Json, SequencesExt

(* GenU8 / GenU64: aliases of one generic trait.  "Oa" / "OB": as identifiers "OB" < "Oa" (every upper-case letter sorts  *)
(* before every lower-case one), lower-cased "oa" < "ob" - the group and the cast macros must agree on ONE order of the   *)
(* requested names, or the conversion function the macro names does not exist                                          *)
Opts == <<"Oa", "OB", "GenU8", "GenU64">>
Ord(t) == CHOOSE k \in 1..4 : Opts[k] = t
OptsOf(n) == {Opts[k] : k \in 1..n}
AsSeq(S) == SetToSortSeq(S, LAMBDA a, b : Ord(a) < Ord(b))
Ops == {"check", "as_ref", "as_mut", "cast", "into"}
Kinds == {"box", "mut", "ref"}

Cells == UNION {{[n |-> n, enabled |-> AsSeq(s), req |-> AsSeq(r), op |-> o, kind |-> k, ok |-> (r \subseteq s)] :
                   s \in SUBSET OptsOf(n), r \in (SUBSET OptsOf(n)) \ {{}}, o \in Ops, k \in Kinds} : n \in 0..4}

(* groups built from the FORWARD view of a value (`x.forward_mut()`, type Fwd<&mut T>): `cglue_impl_group!(T, G, {owned}, *)
(* {forward})` names the optional traits of the two kinds of object independently.  The verdict for an object built     *)
(* from the forward view follows the forward list - whatever the owned list says.                                       *)
FOpts == {"Oa", "OB"}
FwdCells == {[n |-> 2, via |-> "fwd", owned |-> AsSeq(so), enabled |-> AsSeq(sf), req |-> AsSeq(r), op |-> o, kind |-> k, ok |-> (r \subseteq sf)] :
               so \in SUBSET FOpts, sf \in SUBSET FOpts, r \in (SUBSET FOpts) \ {{}}, o \in Ops, k \in Kinds}

VARIABLE done
Init == done = FALSE
Next == UNCHANGED done
Emit == PrintT(<<"REPLAY", ToJson([cells |-> Cells, fwdcells |-> FwdCells])>>)
=============================================================================
