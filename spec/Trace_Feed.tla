------------------------------ MODULE Trace_Feed ------------------------------
EXTENDS Feed, Json, IOUtils, TLC
Rec == ndJsonDeserialize(IOEnv.TRACE)
VARIABLE l
TraceInit == Init /\ l = 1
Reset == /\ src' = <<>> /\ hasSrc' = FALSE /\ wrapped' = FALSE /\ sink' = NoSink
         /\ drops' = [i \in Id |-> 0] /\ nextId' = 1 /\ last' = L("init", 0)
TraceNext ==
  /\ l <= Len(Rec)
  /\ l' = l + 1
  /\ LET e == Rec[l] IN
       IF e.op = "reset" THEN Reset
       ELSE IF e.op = "quiescent" THEN e.ok /\ UNCHANGED vars
       ELSE Do(e) /\ Proj' = e.proj
TraceSpec == TraceInit /\ [][TraceNext]_<<vars, l>>
TraceAccepted ==
  LET d == TLCGet("stats").diameter IN
  IF d - 1 = Len(Rec) THEN TRUE ELSE Print(<<"TRACE-REJECTED line", d, Rec[d]>>, FALSE)
=============================================================================
