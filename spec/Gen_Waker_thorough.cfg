CONSTANTS
  FW = {1, 2, 3}
  Rec = {1, 2, 3}
  Thread = {1, 2}
  Orig = {1, 2}
  MaxNest = 2
  Deviations = {}
  Depth = 7
SPECIFICATION GenSpec
INVARIANTS Emit
CHECK_DEADLOCK FALSE
