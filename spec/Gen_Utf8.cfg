CONSTANTS
  Alphabet = {0, 65, 127, 128, 143, 144, 159, 160, 191, 192, 194, 223, 224, 237, 239, 240, 244, 245, 255}
  MaxLen = 4
SPECIFICATION Spec
INVARIANTS Emit
CHECK_DEADLOCK FALSE
