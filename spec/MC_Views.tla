------------------------------ MODULE MC_Views ------------------------------
(* exhaustive model check of Views.tla with slice and cell operations interleaved (the generator configurations keep them   *)
(* apart): every reachable state over buffers of length 0 / 1 / 3 while payload identities last                             *)
EXTENDS Views, TLC
Actions ==
  {[op |-> "NewBuf", n |-> n] : n \in {0, 1, 3}}
  \cup {[op |-> "MakeView", off |-> o, len |-> l, mut |-> m] : o \in 0..Len(mem), l \in 0..Len(mem), m \in BOOLEAN}
  \cup {[op |-> "Convert", how |-> h] : h \in {"as_slice", "deref", "into_slice", "to_c", "mut_to_ref", "reborrow", "as_slice_mut", "into_mut_slice"} \cup KeepHows}
  \cup {[op |-> "WriteThrough", k |-> k, v |-> 90 + k] : k \in 0..2}
  \cup {[op |-> "NewCell", shape |-> "opt", tag |-> t] : t \in {0, 1}}
  \cup {[op |-> "NewCell", shape |-> "res", tag |-> t] : t \in {0, 1}}
  \cup {[op |-> "NewCell", shape |-> "tup", tag |-> t] : t \in 1..4}
  \cup {[op |-> "Flip"], [op |-> "TakeOpt"], [op |-> "DropCell"], [op |-> "ResOk"], [op |-> "ReplaceMut"], [op |-> "DefaultOpt"]}
Next == \E e \in Actions : Do(e)
Spec == Init /\ [][Next]_vars
(* `last` is an observation, not state *)
View == <<mem, view, cell, drops, nextId>>
(* a view never reaches outside the buffer, and what is seen through it is the buffer *)
SeenIsBuffer == view.form # "none" => \A k \in 1..view.len : mem[view.off + k] = SubSeq(mem, view.off + 1, view.off + view.len)[k]
=============================================================================
