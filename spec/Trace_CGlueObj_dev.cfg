CONSTANTS
  Handle = {1, 2, 3}
  MaxInst = 16
  Ctx = {1}
  Mod = 61
  Deviations = {"borrowed_child_ctx_leak"}
SPECIFICATION TraceSpec
CONSTRAINT Progress
INVARIANTS DropAtMostOnce NoDangling OwnedExactlyOnce CtxCountExact CtxReleasedIffUnreferenced CtxNotEarly CtxAliveInCall
POSTCONDITION TraceAccepted
CHECK_DEADLOCK FALSE
