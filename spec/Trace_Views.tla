----------------------------- MODULE Trace_Views -----------------------------
(* impl -> spec: executions of the real slice views and option / result / tuple cells (u64 elements; slices and cells     *)
(* interleaved, which the generator configurations keep apart), driven at random by `rt views trace`, must be behaviours   *)
(* of Views.tla; the whole projection is compared after every event.                                                       *)
EXTENDS Views, Json, IOUtils, TLC
Rec == ndJsonDeserialize(IOEnv.TRACE)
VARIABLE l
TraceInit == Init /\ l = 1
Reset == /\ mem' = <<>> /\ view' = NoView /\ cell' = NoCell
         /\ drops' = [i \in 1..MaxId |-> 0] /\ nextId' = 1 /\ last' = L("init")
TraceNext ==
  /\ l <= Len(Rec)
  /\ l' = l + 1
  /\ LET e == Rec[l] IN
       IF e.op = "reset" THEN Reset
       ELSE IF e.op = "quiescent" THEN e.ok /\ UNCHANGED vars
       ELSE Do(e) /\ Proj' = e.proj
TraceSpec == TraceInit /\ [][TraceNext]_<<vars, l>>
TraceAccepted ==
  LET d == TLCGet("stats").diameter IN
  IF d - 1 = Len(Rec) THEN TRUE ELSE Print(<<"TRACE-REJECTED line", d, Rec[d]>>, FALSE)
=============================================================================
