--------------------------- MODULE Trace_CGlueObj ---------------------------
(* Trace validation for CGlueObj.  One logged event per public operation on    *)
(* the real objects, with the adapter's projection of the real state after it. *)
(* A by-value call is one logged event but six specification steps: the five    *)
(* internal ones are taken silently (they are deterministic), the last one      *)
(* consumes the line.  Acceptance therefore tracks the highest line reached.    *)
EXTENDS CGlueObj, Integers, Json, IOUtils, TLC

Rec == ndJsonDeserialize(IOEnv.TRACE)
VARIABLE l

ASSUME TLCSet(1, 0)

TraceInit == Init /\ l = 1

Reset ==
  /\ pay' = [i \in Inst |-> NoPay] /\ h' = [x \in Handle |-> NoHandle]
  /\ cnt' = [c \in Ctx |-> 1] /\ envHolds' = [c \in Ctx |-> TRUE] /\ crel' = [c \in Ctx |-> 0]
  /\ leaked' = [c \in Ctx |-> 0] /\ nextInst' = 1 /\ stack' = <<>> /\ last' = L("init", 0)

(* what the adapter can see must equal what the specification predicts; registers of   *)
(* payloads created inside the library are reported as -1 (address unknown) and skipped *)
ObsOk(p) ==
  /\ Len(p.pay) = nextInst' - 1
  /\ \A i \in 1..Len(p.pay) :
        /\ p.pay[i][1] = pay'[i].st
        /\ p.pay[i][4] = pay'[i].drops
        /\ (p.pay[i][2] = -1 \/ pay'[i].st # "live" \/ (p.pay[i][2] = pay'[i].val /\ p.pay[i][3] = pay'[i].ival /\ p.pay[i][5] = pay'[i].ival2))
  /\ \A x \in Handle : /\ p.h[x].kind = h'[x].kind /\ p.h[x].t = h'[x].t /\ p.h[x].tr = h'[x].tr
                       /\ p.h[x].req = h'[x].req /\ p.h[x].inst = h'[x].inst /\ p.h[x].ctx = h'[x].ctx
  /\ \A c \in Ctx : p.cnt[c] = cnt'[c] /\ p.env[c] = envHolds'[c] /\ p.crel[c] = crel'[c]
  /\ p.last = last'

(* fine-grained events of a by-value call observed on the real code: the vtable slot is     *)
(* interposed by a logging trampoline (callee_enter / callee_exit), the method body and the *)
(* payload and context destructors report themselves.  Each event is one specification step; *)
(* a context destructor event is accepted only where the specification releases the last      *)
(* reference - i.e. after control is back in the caller.                                      *)
FineNext(e) ==
  CASE e.ev = "callee_enter" -> stack # <<>> /\ ConsumeEnter /\ l' = l + 1
    [] e.ev = "body"         -> stack # <<>> /\ ConsumeBody /\ l' = l + 1
    [] e.ev = "payload_drop" -> stack # <<>> /\ pay[stack[1].inst].drops = 1 /\ UNCHANGED vars /\ l' = l + 1
    [] e.ev = "callee_exit"  -> /\ stack # <<>>
                                /\ IF stack[1].phase = "bodydone" THEN ConsumeWrapperExit /\ l' = l
                                   ELSE ConsumeReturn /\ l' = l + 1
    [] e.ev = "ctx_released" -> /\ stack # <<>> /\ stack[1].phase = "returned"
                                /\ ConsumeCallerRelease(stack[1].x) /\ crel'[e.c] = 1 /\ l' = l + 1
    [] e.ev = "done"         -> IF stack # <<>>
                                  THEN stack[1].phase = "returned" /\ ConsumeCallerRelease(e.y) /\ ObsOk(e.proj) /\ l' = l + 1
                                  ELSE UNCHANGED vars /\ ObsOk(e.proj) /\ l' = l + 1
    [] OTHER -> FALSE

TraceNext ==
  /\ l <= Len(Rec)
  /\ LET e == Rec[l] IN
     IF e.op = "fine" THEN FineNext(e)
     ELSE IF e.op = "ConsumeFine" THEN ConsumeBegin(e.x, e.m) /\ l' = l + 1
     ELSE IF stack # <<>>
       THEN IF stack[1].phase = "returned"
              THEN /\ e.op = "Consume" /\ ConsumeCallerRelease(e.y) /\ ObsOk(e.proj) /\ l' = l + 1
              ELSE ConsumeInternal /\ l' = l
       ELSE IF e.op = "reset" THEN Reset /\ l' = l + 1
       ELSE IF e.op = "quiescent" THEN e.ok /\ UNCHANGED vars /\ l' = l + 1
       ELSE IF e.op = "Consume" THEN ConsumeBegin(e.x, e.m) /\ l' = l
       ELSE Do(e) /\ ObsOk(e.proj) /\ l' = l + 1

TraceSpec == TraceInit /\ [][TraceNext]_<<vars, l>>

Progress == TLCSet(1, IF l > TLCGet(1) THEN l ELSE TLCGet(1))

TraceAccepted ==
  LET d == TLCGet(1) IN
  IF d = Len(Rec) + 1 THEN TRUE
  ELSE Print(<<"TRACE-REJECTED line", d, Rec[d]>>, FALSE)
=============================================================================
