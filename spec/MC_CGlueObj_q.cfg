CONSTANTS
  Handle = {1, 2}
  MaxInst = 3
  Ctx = {1}
  Mod = 2
  Deviations = {}
  Vals = {1}
  Args = {1}
  ObjTraits = {"Ra", "Rb", "Ma", "Ob", "Kid", "Clone"}
  Ops = {"EnvNew", "EnvDrop", "EnvRelease", "NewOwned", "NewBorrowed", "Call", "CastBorrow", "CastMove", "Upcast", "Clone", "KidOwned", "KidBorrowed", "KidView", "Consume", "ConsumeEnd", "Drop"}
  PTs = {3}
SPECIFICATION Spec
VIEW View
INVARIANTS DropAtMostOnce NoDangling OwnedExactlyOnce CtxCountExact NoCtxLeak CtxReleasedIffUnreferenced CtxNotEarly CtxAliveInCall
PROPERTIES BorrowNeverFrees CastIff SameInstance
CHECK_DEADLOCK FALSE
