------------------------------ MODULE CGlueObj ------------------------------
(***************************************************************************)
(* Opaque objects, groups, casts, contexts and calls (properties C01, C06,  *)
(* C07, C08 and the object part of C05), over the reference trait family    *)
(* of harness/objfam:                                                       *)
(*                                                                          *)
(*   Ra  (mandatory)  ra_get ra_mix ra_id          shared receivers only     *)
(*   Rb  (optional)   rb_get                       shared receivers only     *)
(*   Ma  (optional)   ma_add (&mut) ma_peek                                  *)
(*   Ob  (optional)   ob_peek, ob_take (self), ob_into (self -> wrapped Ra)  *)
(*   Kid (optional)   kid_owned (-> wrapped owned Ra), kid_ref (-> wrapped   *)
(*                    &Ra in temporary storage), kid_mut (-> wrapped &mut Ma)*)
(*   Clone (optional, builtin)                                               *)
(*                                                                          *)
(* Payload types P0..P3 enable different optional sets (Enabled).  Every    *)
(* method has its own non-idempotent effect (EffRet, EffVal); arithmetic modulo  *)
(* Mod, so that a wrong slot, a lost update, a double call or a wrong       *)
(* instance changes an observable.                                          *)
(*                                                                          *)
(* One action per critical section of the generated glue (cglue-gen         *)
(* func.rs / traits.rs / trait_groups.rs, cglue trait_group.rs); the        *)
(* by-value call is six steps because C07 is about their order.             *)
(* Deviation "borrowed_child_ctx_leak" is what the pinned code does for     *)
(* wrapped borrowed children (known finding F2).                            *)
(***************************************************************************)
EXTENDS Naturals, Sequences, FiniteSets

CONSTANTS Handle,      \* handle slots (small naturals)
          MaxInst,     \* payload identities 1..MaxInst
          Ctx,         \* context ids (small naturals); 0 = no context
          Mod,
          Deviations

Inst == 1..MaxInst
Opt == {"Clone", "Kid", "Ma", "Ob", "Rb"}
Range(s) == {s[k] : k \in DOMAIN s}

(* optional traits the implementing type enables (cglue_impl_group! lists in objfam) *)
EnabledBox(pt) == CASE pt = 0 -> {} [] pt = 1 -> {"Ma", "Rb"} [] pt = 2 -> {"Ma", "Ob", "Clone"} [] pt = 3 -> Opt
                    [] pt = 4 -> {"Rb"} [] OTHER -> {"Ma", "Kid", "Rb"}
Enabled(pt, kind) == EnabledBox(pt)
(* a group over a container kind exists only when every enabled optional trait is implementable *)
(* for that kind (shared references: shared receivers only; mutable references: no by-value      *)
(* receivers, no Clone)                                                                          *)
GroupImpl(pt, kind) == \/ kind = "box"
                       \/ kind = "mut" /\ EnabledBox(pt) \subseteq {"Ma", "Kid", "Rb"}
                       \/ kind = "ref" /\ EnabledBox(pt) \subseteq {"Rb"}
(* single-trait objects: which trait can be built for which payload type / kind *)
ObjImpl(tr, pt, kind) ==
  CASE tr = "Ra"    -> TRUE
    [] tr = "Rb"    -> "Rb" \in EnabledBox(pt) /\ kind # "arcsome"
    [] tr = "Ma"    -> "Ma" \in EnabledBox(pt) /\ kind \in {"box", "mut"}
    [] tr = "Ob"    -> "Ob" \in EnabledBox(pt) /\ kind = "box"
    [] tr = "Kid"   -> "Kid" \in EnabledBox(pt) /\ kind \in {"box", "mut"}
    [] tr = "Clone" -> "Clone" \in EnabledBox(pt) /\ kind = "box"
    [] OTHER        -> FALSE
(* requested sets that can be written down for a container kind at all *)
ReqOk(req, kind) == \/ kind = "box"
                    \/ kind = "mut" /\ Range(req) \subseteq {"Ma", "Kid", "Rb"}
                    \/ kind = "ref" /\ Range(req) \subseteq {"Rb"}

VARIABLES pay,      \* [Inst -> [st, pt, val, ival, ival2, drops, own]]   own: "env" (borrowable) | "obj"
          h,        \* [Handle -> handle record]
          cnt,      \* [Ctx -> Nat] strong count of the context
          envHolds, \* [Ctx -> BOOLEAN] the environment still holds its own reference (Base)
          crel,     \* [Ctx -> Nat] how often the context's destructor ran
          leaked,   \* [Ctx -> Nat] context clones that no live holder accounts for
          nextInst,
          stack,    \* in-flight by-value call: <<>> or <<[x, phase, guard, ctxc, ret]>>
          last      \* outcome of the last completed action

vars == <<pay, h, cnt, envHolds, crel, leaked, nextInst, stack, last>>

NoPay == [st |-> "none", pt |-> 0, val |-> 0, ival |-> 0, ival2 |-> 0, drops |-> 0, own |-> "env"]
NoHandle == [kind |-> "none", t |-> "none", tr |-> "", req |-> <<>>, inst |-> 0, ctx |-> 0]
IsFree(x) == h[x].kind = "none"
L(k, n) == [kind |-> k, n |-> n]
Owning(kind) == kind \in {"box", "arcsome"}

TraitsOf(x) == IF h[x].t = "obj" THEN {h[x].tr} ELSE {"Ra"} \cup Range(h[x].req)
HolderCount(c) == Cardinality({x \in Handle : h[x].ctx = c /\ ~IsFree(x)})
                  + (IF stack # <<>> /\ stack[1].ctxc = c THEN stack[1].refs ELSE 0)
Borrowers(i) == {x \in Handle : ~IsFree(x) /\ h[x].inst = i /\ h[x].kind \in {"mut", "ref"}}

Init ==
  /\ pay = [i \in Inst |-> NoPay]
  /\ h = [x \in Handle |-> NoHandle]
  /\ cnt = [c \in Ctx |-> 1]
  /\ envHolds = [c \in Ctx |-> TRUE]
  /\ crel = [c \in Ctx |-> 0]
  /\ leaked = [c \in Ctx |-> 0]
  /\ nextInst = 1
  /\ stack = <<>>
  /\ last = L("init", 0)

Idle == stack = <<>>

(* ---------------- effects of the reference family ---------------- *)
EffRet(m, v, a) ==
  CASE m = "ra_get"  -> (v + 1) % Mod
    [] m = "ra_mix"  -> (v * 2 + a) % Mod
    [] m = "rb_get"  -> (v + 21) % Mod
    [] m = "ma_add"  -> (v * 3 + a + 1) % Mod
    [] m = "ma_peek" -> (v + 7) % Mod
    [] m = "ob_peek" -> (v + 13) % Mod
    [] m = "ob_take" -> (v + 100) % Mod
    [] OTHER         -> 0
EffVal(m, v, a) == IF m = "ma_add" THEN (v * 3 + a + 1) % Mod ELSE v
MTrait(m) == CASE m \in {"ra_get", "ra_mix"} -> "Ra" [] m = "rb_get" -> "Rb"
               [] m \in {"ma_add", "ma_peek"} -> "Ma" [] OTHER -> "Ob"
NeedsMut(m) == m = "ma_add"
PlainMethods == {"ra_get", "ra_mix", "rb_get", "ma_add", "ma_peek", "ob_peek"}

(* a payload has its own register `val` and two inner values handed out by reference, each with a register *)
FreshPay(pt, v, own) == [st |-> "live", pt |-> pt, val |-> v, ival |-> (v + 3) % Mod, ival2 |-> (v + 1) % Mod, drops |-> 0, own |-> own]
DropPay(p, i) == [p EXCEPT ![i].st = "dropped", ![i].drops = @ + 1]
AddRef(c) == IF c = 0 THEN cnt ELSE [cnt EXCEPT ![c] = @ + 1]
SubRef(c) == IF c = 0 THEN cnt ELSE [cnt EXCEPT ![c] = @ - 1]
(* releasing a reference: the context's destructor runs with the last one *)
Rel(c) == /\ cnt' = SubRef(c)
          /\ crel' = IF c # 0 /\ cnt[c] = 1 THEN [crel EXCEPT ![c] = @ + 1] ELSE crel
Keep == UNCHANGED <<envHolds, crel>>

(* ---------------- environment ---------------- *)
(* a payload owned by the environment, to be borrowed by &/&mut objects *)
EnvNew(pt, v) ==
  /\ Idle /\ nextInst <= MaxInst
  /\ pay' = [pay EXCEPT ![nextInst] = FreshPay(pt, v, "env")]
  /\ nextInst' = nextInst + 1
  /\ UNCHANGED <<h, cnt, leaked, stack>> /\ Keep /\ last' = L("ok", 0)

EnvDrop(i) ==
  /\ Idle /\ pay[i].st = "live" /\ pay[i].own = "env" /\ Borrowers(i) = {}
  /\ pay' = DropPay(pay, i)
  /\ UNCHANGED <<h, cnt, leaked, nextInst, stack>> /\ Keep /\ last' = L("ok", 0)

(* the environment gives up its own reference to a context (e.g. the loader drops the library handle) *)
EnvRelease(c) ==
  /\ Idle /\ envHolds[c]
  /\ envHolds' = [envHolds EXCEPT ![c] = FALSE]
  /\ Rel(c)
  /\ UNCHANGED <<pay, h, leaked, nextInst, stack>> /\ last' = L("ok", 0)

(* ---------------- construction (trait_group.rs:160-282, generated From impls, into_opaque) ---------------- *)
(* a context can be attached only while somebody still holds it *)
CtxUsable(c) == IF c = 0 THEN TRUE ELSE cnt[c] > 0 /\ envHolds[c]

(* owned: a fresh payload is moved into a CBox (Box::leak) or an Arc (CArcSome)  *)
NewOwned(x, kind, t, tr, pt, v, c) ==
  /\ Idle /\ IsFree(x) /\ nextInst <= MaxInst /\ Owning(kind) /\ CtxUsable(c)
  /\ \/ t = "obj" /\ ObjImpl(tr, pt, kind)
     \/ t = "group" /\ tr = "" /\ kind = "box"
  /\ pay' = [pay EXCEPT ![nextInst] = FreshPay(pt, v, "obj")]
  /\ h' = [h EXCEPT ![x] = [kind |-> kind, t |-> t, tr |-> tr, req |-> <<>>, inst |-> nextInst, ctx |-> c]]
  /\ cnt' = AddRef(c)
  /\ nextInst' = nextInst + 1
  /\ UNCHANGED <<leaked, stack>> /\ Keep /\ last' = L("ok", 0)

(* borrowed: the object refers to an environment payload; Rust's borrow rules are the precondition *)
NewBorrowed(x, kind, t, tr, i, c) ==
  /\ Idle /\ IsFree(x) /\ kind \in {"mut", "ref"} /\ CtxUsable(c)
  /\ pay[i].st = "live" /\ pay[i].own = "env"
  /\ IF kind = "mut" THEN Borrowers(i) = {} ELSE \A y \in Borrowers(i) : h[y].kind = "ref"
  /\ \/ t = "obj" /\ ObjImpl(tr, pay[i].pt, kind)
     \/ t = "group" /\ tr = "" /\ GroupImpl(pay[i].pt, kind)
  /\ h' = [h EXCEPT ![x] = [kind |-> kind, t |-> t, tr |-> tr, req |-> <<>>, inst |-> i, ctx |-> c]]
  /\ cnt' = AddRef(c)
  /\ UNCHANGED <<pay, leaked, nextInst, stack>> /\ Keep /\ last' = L("ok", 0)

(* ---------------- calls through the vtable (func.rs:1017-1236) ---------------- *)
CanCall(x, m) ==
  /\ ~IsFree(x)
  /\ MTrait(m) \in TraitsOf(x)
  /\ (NeedsMut(m) => h[x].kind \in {"box", "mut"})

Call(x, m, a) ==
  /\ Idle /\ m \in PlainMethods /\ CanCall(x, m)
  /\ LET i == h[x].inst IN
       /\ pay' = [pay EXCEPT ![i].val = EffVal(m, @, a)]
       /\ last' = L("ret", EffRet(m, pay[i].val, a))
  /\ UNCHANGED <<h, cnt, leaked, nextInst, stack>> /\ Keep

(* ---------------- group casts (trait_groups.rs:826-1108) ---------------- *)
EnabledOf(x) == Enabled(pay[h[x].inst].pt, h[x].kind)
CastOk(x, req) == Range(req) \subseteq EnabledOf(x)

(* check!/as_ref!/as_mut!: the group is untouched; through the returned reference one method *)
(* `m` of a mandatory or requested trait is called (as_ref: shared receivers only)            *)
CastBorrow(x, op, req, m, a) ==
  /\ Idle /\ ~IsFree(x) /\ h[x].t = "group"
  /\ op \in {"check", "as_ref", "as_mut"} /\ ReqOk(req, h[x].kind)
  /\ (op = "as_mut" => h[x].kind \in {"box", "mut"})
  /\ MTrait(m) \in {"Ra"} \cup Range(req) /\ m \in PlainMethods
  /\ (NeedsMut(m) => op = "as_mut")
  /\ LET i == h[x].inst IN
     IF ~CastOk(x, req) THEN /\ last' = L("no", 0) /\ UNCHANGED pay
     ELSE IF op = "check" THEN /\ last' = L("yes", 0) /\ UNCHANGED pay
     ELSE /\ pay' = [pay EXCEPT ![i].val = EffVal(m, @, a)]
          /\ last' = L("ret", EffRet(m, pay[i].val, a))
  /\ UNCHANGED <<h, cnt, leaked, nextInst, stack>> /\ Keep

(* releasing what a container owns: the instance (if owning) once, the context once - IN THIS ORDER: when the object   *)
(* is the last holder of the context, the instance's destructor still runs while the context (the loaded library) is *)
(* alive.  One action here; the adapter observes the order inside the step (a payload destructor that finds a        *)
(* context destructor of the same step already run is reported as a context divergence).                             *)
ReleaseContainer(x) ==
  /\ pay' = IF Owning(h[x].kind) THEN DropPay(pay, h[x].inst) ELSE pay
  /\ Rel(h[x].ctx)
  /\ UNCHANGED envHolds

(* cast!/into!: consume the group; on failure the moved-in container is dropped *)
CastMove(x, op, req) ==
  /\ Idle /\ ~IsFree(x) /\ h[x].t = "group" /\ op \in {"cast", "into"} /\ ReqOk(req, h[x].kind)
  /\ IF CastOk(x, req)
       THEN /\ h' = [h EXCEPT ![x].t = IF op = "cast" THEN "cast" ELSE "final", ![x].req = req]
            /\ UNCHANGED <<pay, cnt>> /\ Keep
            /\ last' = L("yes", 0)
       ELSE /\ ReleaseContainer(x)
            /\ h' = [h EXCEPT ![x] = NoHandle]
            /\ last' = L("no", 0)
  /\ UNCHANGED <<leaked, nextInst, stack>>

(* upcast (trait_groups.rs:973-976): back to the group, nothing lost *)
Upcast(x) ==
  /\ Idle /\ ~IsFree(x) /\ h[x].t = "cast"
  /\ h' = [h EXCEPT ![x].t = "group", ![x].req = <<>>]
  /\ UNCHANGED <<pay, cnt, leaked, nextInst, stack>> /\ Keep /\ last' = L("ok", 0)

(* ---------------- Clone through the object (ext/core/clone.rs): payload copy + context clone ---------------- *)
CloneObj(x, y) ==
  /\ Idle /\ ~IsFree(x) /\ IsFree(y) /\ "Clone" \in TraitsOf(x) /\ h[x].kind = "box" /\ nextInst <= MaxInst
  /\ LET i == h[x].inst IN
       pay' = [pay EXCEPT ![nextInst] = [st |-> "live", pt |-> pay[i].pt, val |-> pay[i].val, ival |-> pay[i].ival,
                                          ival2 |-> pay[i].ival2, drops |-> 0, own |-> "obj"]]
  /\ h' = [h EXCEPT ![y] = [h[x] EXCEPT !.inst = nextInst]]
  /\ cnt' = AddRef(h[x].ctx)
  /\ nextInst' = nextInst + 1
  /\ UNCHANGED <<leaked, stack>> /\ Keep /\ last' = L("ok", 0)

(* ---------------- wrapped associated returns (traits.rs:153-485, func.rs:1599-1615) ---------------- *)
(* owned child on a reference receiver: new boxed Ra object holding its own clone of the context *)
(* via: through a shared-reference receiver or a pinned one (`self: Pin<&Self>`) - the same rule *)
KidOwned(x, y, via) ==
  /\ Idle /\ ~IsFree(x) /\ IsFree(y) /\ "Kid" \in TraitsOf(x) /\ nextInst <= MaxInst
  /\ pay' = [pay EXCEPT ![nextInst] = FreshPay(0, (pay[h[x].inst].val + 5) % Mod, "obj")]
  /\ h' = [h EXCEPT ![y] = [kind |-> "box", t |-> "obj", tr |-> "Ra", req |-> <<>>, inst |-> nextInst, ctx |-> h[x].ctx]]
  /\ cnt' = AddRef(h[x].ctx)
  /\ nextInst' = nextInst + 1
  /\ UNCHANGED <<leaked, stack>> /\ Keep /\ last' = L("ok", 0)

(* borrowed child: a wrapped &Ra / &mut Ma over the payload's inner value is written into the   *)
(* parent's temporary return storage together with a context clone; one method is called on it.  *)
(* Ideal: that clone is released again (no net change).  As implemented: it is never released.    *)
(* sel = 0: the fixed accessor (kid_ref / kid_mut, always the first inner value); sel = 1, 2: the selecting accessor *)
(* (kid_sel(k) / kid_sel_mut(k)) asked for the first / the second inner value.  Which inner value a borrowed wrapper  *)
(* reaches is decided by THIS call, whatever earlier calls on the same object returned.                              *)
KidBorrowed(x, which, sel, m, a) ==
  /\ Idle /\ ~IsFree(x) /\ "Kid" \in TraitsOf(x) /\ sel \in {0, 1, 2}
  /\ \/ which = "ref" /\ m \in {"ra_get", "ra_mix"}
     \/ which = "mut" /\ m \in {"ma_add", "ma_peek"} /\ h[x].kind \in {"box", "mut"}
  /\ LET i == h[x].inst
         c == h[x].ctx IN
       /\ pay' = IF sel = 2 THEN [pay EXCEPT ![i].ival2 = EffVal(m, @, a)] ELSE [pay EXCEPT ![i].ival = EffVal(m, @, a)]
       /\ last' = L("ret", EffRet(m, IF sel = 2 THEN pay[i].ival2 ELSE pay[i].ival, a))
       /\ IF c # 0 /\ "borrowed_child_ctx_leak" \in Deviations
            THEN cnt' = AddRef(c) /\ leaked' = [leaked EXCEPT ![c] = @ + 1]
            ELSE UNCHANGED <<cnt, leaked>>
  /\ UNCHANGED <<h, nextInst, stack>> /\ Keep

(* a lending child (`type KView<'a>: Ra + 'a where Self: 'a; fn kid_view(&'a mut self) -> Self::KView<'a>`): an owned   *)
(* wrapper that borrows from the parent.  It is an object of its own: it holds its own clone of the context while it    *)
(* lives and releases exactly that clone when it goes.  One action: obtain it, observe the context count, call through  *)
(* it, drop it; the count seen while the view lives is part of the outcome.                                             *)
KidView(x, m, a) ==
  /\ Idle /\ ~IsFree(x) /\ "Kid" \in TraitsOf(x) /\ h[x].kind \in {"box", "mut"} /\ m \in {"ra_get", "ra_mix"}
  /\ LET i == h[x].inst
         c == h[x].ctx IN
       last' = L("view", EffRet(m, pay[i].ival, a) + 1000 * (IF c = 0 THEN 0 ELSE cnt[c] + 1))
  /\ UNCHANGED <<pay, h, cnt, leaked, nextInst, stack>> /\ Keep

(* ---------------- by-value (consuming) calls: ob_take, ob_into, ob_try ---------------- *)
(* ob_try(self, fail) -> Result<wrapped child, ()>: "ob_try_ok" behaves as ob_into, "ob_try_err" consumes the  *)
(* payload and hands nothing back: the container's context is released by the wrapper as for ob_take           *)
ConsumeMethods == {"ob_take", "ob_into", "ob_try_ok", "ob_try_err"}
NoChild(m) == m \in {"ob_take", "ob_try_err"}
(* caller half (func.rs:272-287): take the container out of the object, clone the context as a guard *)
ConsumeBegin(x, m) ==
  /\ Idle /\ ~IsFree(x) /\ "Ob" \in TraitsOf(x) /\ h[x].kind = "box" /\ m \in ConsumeMethods
  /\ (~NoChild(m) => nextInst <= MaxInst)
  /\ stack' = <<[x |-> x, m |-> m, phase |-> "called", inst |-> h[x].inst, ctxc |-> h[x].ctx,
                 refs |-> IF h[x].ctx = 0 THEN 0 ELSE 2, ret |-> 0, child |-> 0]>>
  /\ cnt' = AddRef(h[x].ctx)
  /\ h' = [h EXCEPT ![x] = NoHandle]
  /\ UNCHANGED <<pay, leaked, nextInst, last>> /\ Keep

(* callee half (func.rs:1093-1105): cobj_base_owned, IntoInner::into_inner (Box::from_raw + forget) *)
ConsumeEnter ==
  /\ stack # <<>> /\ stack[1].phase = "called"
  /\ stack' = <<[stack[1] EXCEPT !.phase = "inside"]>>
  /\ UNCHANGED <<pay, h, cnt, leaked, nextInst, last>> /\ Keep

(* the method body consumes the payload (ob_take drops it; ob_into drops it after deriving a child) *)
ConsumeBody ==
  /\ stack # <<>> /\ stack[1].phase = "inside"
  /\ LET f == stack[1]
         v == pay[f.inst].val IN
       IF NoChild(f.m)
         THEN /\ pay' = DropPay(pay, f.inst)
              /\ stack' = <<[f EXCEPT !.phase = "bodydone", !.ret = IF f.m = "ob_take" THEN EffRet("ob_take", v, 0) ELSE 0]>>
              /\ UNCHANGED nextInst
         ELSE /\ pay' = [DropPay(pay, f.inst) EXCEPT ![nextInst] = FreshPay(0, (v + 9) % Mod, "obj")]
              /\ stack' = <<[f EXCEPT !.phase = "bodydone", !.child = nextInst]>>
              /\ nextInst' = nextInst + 1
  /\ UNCHANGED <<h, cnt, leaked, last>> /\ Keep

(* the wrapper releases the container's context unless it moved it into the wrapped result *)
ConsumeWrapperExit ==
  /\ stack # <<>> /\ stack[1].phase = "bodydone"
  /\ LET f == stack[1] IN
       IF NoChild(f.m) /\ f.ctxc # 0
         THEN /\ Rel(f.ctxc)
              /\ stack' = <<[f EXCEPT !.phase = "wrapperdone", !.refs = @ - 1]>>
         ELSE /\ stack' = <<[f EXCEPT !.phase = "wrapperdone"]>>
              /\ UNCHANGED <<cnt, crel>>
  /\ UNCHANGED <<pay, h, leaked, nextInst, last, envHolds>>

(* control returns to the caller *)
ConsumeReturn ==
  /\ stack # <<>> /\ stack[1].phase = "wrapperdone"
  /\ stack' = <<[stack[1] EXCEPT !.phase = "returned"]>>
  /\ UNCHANGED <<pay, h, cnt, leaked, nextInst, last>> /\ Keep

(* back in the caller: the guard clone is released, the result is handed out.            *)
(* For ob_into the container's context reference now belongs to the returned object.      *)
ConsumeCallerRelease(y) ==
  /\ stack # <<>> /\ stack[1].phase = "returned"
  /\ LET f == stack[1] IN
       /\ Rel(f.ctxc)
       /\ IF NoChild(f.m)
            THEN /\ UNCHANGED h /\ last' = (IF f.m = "ob_take" THEN L("ret", f.ret) ELSE L("err", 0)) /\ y = f.x
            ELSE /\ IsFree(y)
                 /\ h' = [h EXCEPT ![y] = [kind |-> "box", t |-> "obj", tr |-> "Ra", req |-> <<>>, inst |-> f.child, ctx |-> f.ctxc]]
                 /\ last' = L("ok", 0)
  /\ stack' = <<>>
  /\ UNCHANGED <<pay, leaked, nextInst, envHolds>>

ConsumeInternal == ConsumeEnter \/ ConsumeBody \/ ConsumeWrapperExit \/ ConsumeReturn

(* ---------------- Drop (boxed.rs:69-84, arc.rs:287-293) ---------------- *)
DropH(x) ==
  /\ Idle /\ ~IsFree(x)
  /\ ReleaseContainer(x)
  /\ h' = [h EXCEPT ![x] = NoHandle]
  /\ UNCHANGED <<leaked, nextInst, stack>> /\ last' = L("ok", 0)

(***************************************************************************)
(* Dispatch from action records (macro level: a by-value call is begun by   *)
(* "Consume" and finished by the internal steps + "ConsumeEnd")             *)
(***************************************************************************)
Do(e) ==
  \/ e.op = "EnvNew"      /\ EnvNew(e.pt, e.v)
  \/ e.op = "EnvDrop"     /\ EnvDrop(e.i)
  \/ e.op = "EnvRelease"  /\ EnvRelease(e.c)
  \/ e.op = "NewOwned"    /\ NewOwned(e.x, e.kind, e.t, e.tr, e.pt, e.v, e.c)
  \/ e.op = "NewBorrowed" /\ NewBorrowed(e.x, e.kind, e.t, e.tr, e.i, e.c)
  \/ e.op = "Call"        /\ Call(e.x, e.m, e.a)
  \/ e.op = "CastBorrow"  /\ CastBorrow(e.x, e.how, e.req, e.m, e.a)
  \/ e.op = "CastMove"    /\ CastMove(e.x, e.how, e.req)
  \/ e.op = "Upcast"      /\ Upcast(e.x)
  \/ e.op = "Clone"       /\ CloneObj(e.x, e.y)
  \/ e.op = "KidOwned"    /\ KidOwned(e.x, e.y, e.via)
  \/ e.op = "KidBorrowed" /\ KidBorrowed(e.x, e.which, e.sel, e.m, e.a)
  \/ e.op = "KidView"     /\ KidView(e.x, e.m, e.a)
  \/ e.op = "Consume"     /\ ConsumeBegin(e.x, e.m)
  \/ e.op = "ConsumeEnd"  /\ ConsumeCallerRelease(e.y)
  \/ e.op = "Drop"        /\ DropH(e.x)

(***************************************************************************)
(* Observation                                                             *)
(***************************************************************************)
Proj ==
  [ pay  |-> [i \in 1..(nextInst - 1) |-> <<pay[i].st, pay[i].val, pay[i].ival, pay[i].drops, pay[i].ival2>>],
    h    |-> [x \in Handle |-> [kind |-> h[x].kind, t |-> h[x].t, tr |-> h[x].tr, req |-> h[x].req,
                                 inst |-> h[x].inst, ctx |-> h[x].ctx]],
    cnt  |-> [c \in Ctx |-> cnt[c]],
    env  |-> [c \in Ctx |-> envHolds[c]],
    crel |-> [c \in Ctx |-> crel[c]],
    leaked |-> [c \in Ctx |-> leaked[c]],
    last |-> last ]

(***************************************************************************)
(* Properties                                                              *)
(***************************************************************************)
(* C06 *)
DropAtMostOnce == \A i \in Inst : pay[i].drops <= 1
NoDangling == \A x \in Handle : ~IsFree(x) => pay[h[x].inst].st = "live"
OwnedExactlyOnce ==
  \A i \in 1..(nextInst - 1) : pay[i].own = "obj" =>
     LET holders == {x \in Handle : ~IsFree(x) /\ h[x].inst = i /\ Owning(h[x].kind)}
         inflight == stack # <<>> /\ stack[1].inst = i /\ stack[1].phase \in {"called", "inside"}
         pending == stack # <<>> /\ stack[1].child = i IN
     IF holders # {} \/ inflight \/ pending THEN pay[i].st = "live" /\ pay[i].drops = 0 /\ Cardinality(holders) <= 1
     ELSE pay[i].drops = 1
BorrowNeverFrees ==
  [][\A x \in Handle : (h[x].kind \in {"mut", "ref"} /\ h'[x].kind = "none") =>
        pay'[h[x].inst] = pay[h[x].inst]]_vars
(* C07 *)
CtxCountExact == \A c \in Ctx : cnt[c] = (IF envHolds[c] THEN 1 ELSE 0) + HolderCount(c) + leaked[c]
NoCtxLeak == \A c \in Ctx : leaked[c] = 0
CtxReleasedIffUnreferenced == \A c \in Ctx : crel[c] <= 1 /\ ((crel[c] = 1) <=> (cnt[c] = 0))
CtxNotEarly == \A c \in Ctx : HolderCount(c) > 0 => crel[c] = 0
(* during a by-value call the context stays alive until control is back in the caller *)
CtxAliveInCall ==
  stack # <<>> /\ stack[1].ctxc # 0 /\ stack[1].phase \in {"called", "inside", "bodydone", "wrapperdone"}
     => cnt[stack[1].ctxc] >= 1 /\ crel[stack[1].ctxc] = 0
(* C08 *)
CastIff ==
  [][\A x \in Handle : (h[x].t = "group" /\ h'[x].t \in {"cast", "final"}) => Range(h'[x].req) \subseteq EnabledOf(x)]_vars
SameInstance ==
  [][\A x \in Handle : (~IsFree(x) /\ h'[x].kind # "none") => h'[x].inst = h[x].inst]_vars
=============================================================================
