CONSTANTS
  Codes <- CodesDef
  MaxId = 1
SPECIFICATION GenSpec
INVARIANTS Emit OsRoundTrip NoErrorEncodesToZero DropAtMostOnce
PROPERTIES ZeroIffOk SlotDiscipline ReadOnlyOnZero
CHECK_DEADLOCK FALSE
