----------------------------- MODULE Trace_CArc -----------------------------
EXTENDS CArc, Json, IOUtils, TLC

Rec == ndJsonDeserialize(IOEnv.TRACE)
VARIABLE l

TraceInit == Init /\ l = 1

Reset ==
  /\ slot' = [s \in Slot |-> Free(CHOOSE t \in Thread : TRUE)]
  /\ strong' = [a \in Alloc |-> 0]
  /\ made' = [a \in Alloc |-> FALSE]
  /\ keep' = [a \in Alloc |-> FALSE]
  /\ vdrops' = [a \in Alloc |-> 0]
  /\ calls' = [a \in Alloc |-> [clone |-> 0, drop |-> 0]]
  /\ foreign' = [a \in Alloc |-> FALSE]
  /\ hrel' = <<>>

(* free-running threads: an event carries what its own thread observed of its own slots *)
LocalOk(e) == \A i \in DOMAIN e.lv : /\ slot'[e.lv[i][1]].kind = e.lv[i][2]
                                       /\ slot'[e.lv[i][1]].a = e.lv[i][3]

TraceNext ==
  /\ l <= Len(Rec)
  /\ l' = l + 1
  /\ LET e == Rec[l] IN
       IF e.op = "reset" THEN Reset
       ELSE IF e.op = "quiescent"
         THEN /\ e.ok
              /\ UNCHANGED vars
       ELSE IF e.op = "sync"      \* all threads have joined: the whole observable state is compared
         THEN /\ e.ok
              /\ Proj = e.proj
              /\ UNCHANGED vars
       ELSE IF "conc" \in DOMAIN e
         THEN /\ Do(e)
              /\ e.ok
              /\ LocalOk(e)
       ELSE /\ Do(e)
            /\ e.ok
            /\ Proj' = e.proj

TraceSpec == TraceInit /\ [][TraceNext]_<<vars, l>>

TraceAccepted ==
  LET d == TLCGet("stats").diameter IN
  IF d - 1 = Len(Rec) THEN TRUE
  ELSE Print(<<"TRACE-REJECTED line", d, Rec[d]>>, FALSE)
=============================================================================
