----------------------------- MODULE Trace_CArc -----------------------------
EXTENDS CArc, Json, IOUtils, TLC

Rec == ndJsonDeserialize(IOEnv.TRACE)
VARIABLE l

TraceInit == Init /\ l = 1

Reset ==
  /\ slot' = [s \in Slot |-> Free(CHOOSE t \in Thread : TRUE)]
  /\ strong' = [a \in Alloc |-> 0]
  /\ made' = [a \in Alloc |-> FALSE]
  /\ keep' = [a \in Alloc |-> FALSE]
  /\ vdrops' = [a \in Alloc |-> 0]
  /\ calls' = [a \in Alloc |-> [clone |-> 0, drop |-> 0]]

TraceNext ==
  /\ l <= Len(Rec)
  /\ l' = l + 1
  /\ LET e == Rec[l] IN
       IF e.op = "reset" THEN Reset
       ELSE IF e.op = "quiescent"
         THEN /\ e.ok
              /\ UNCHANGED vars
       ELSE /\ Do(e)
            /\ e.ok
            /\ Proj' = e.proj

TraceSpec == TraceInit /\ [][TraceNext]_<<vars, l>>

TraceAccepted ==
  LET d == TLCGet("stats").diameter IN
  IF d - 1 = Len(Rec) THEN TRUE
  ELSE Print(<<"TRACE-REJECTED line", d, Rec[d]>>, FALSE)
=============================================================================
