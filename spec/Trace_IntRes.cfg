CONSTANTS
  Codes = {0, 1}
  MaxId = 1
SPECIFICATION TraceSpec
INVARIANTS DropAtMostOnce
PROPERTIES ReadOnlyOnZero
POSTCONDITION TraceAccepted
CHECK_DEADLOCK FALSE
