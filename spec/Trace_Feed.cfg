CONSTANTS
  MaxId = 128
SPECIFICATION TraceSpec
INVARIANTS DropAtMostOnce ExactlyOnce NoDup InOrder CallsMatch
POSTCONDITION TraceAccepted
CHECK_DEADLOCK FALSE
