------------------------------ MODULE MC_CArc ------------------------------
EXTENDS CArc, TLC
CONSTANT MaxH   \* model checking only: at most this many foreign handle objects per behaviour (ids are never reused)

FreeSlots == {s \in Slot : IsFree(s)}
Unmade == {a \in Alloc : ~made[a]}
MinOf(S) == CHOOSE x \in S : \A y \in S : x <= y
(* canonical destination: the lowest free slot / lowest unused allocation     *)
Dst == IF FreeSlots = {} THEN {} ELSE {MinOf(FreeSlots)}
NewA == IF Unmade = {} THEN {} ELSE {MinOf(Unmade)}
Held(t) == {s \in Slot : Owns(t, s)}

Actions ==
  {[op |-> "FromValue", t |-> t, s |-> s, a |-> a, k |-> k] : t \in Thread, s \in Dst, a \in NewA, k \in {"CArc", "Some"}}
  \cup {[op |-> "FromForeign", t |-> t, s |-> s, a |-> a, k |-> k] : t \in Thread, s \in Dst, a \in NewA, k \in {"CArc", "Some"}}
  \cup {[op |-> "EnvNewArc", a |-> a] : a \in NewA}
  \cup {[op |-> "FromArc", t |-> t, s |-> s, a |-> a, k |-> k] : t \in Thread, s \in Dst, a \in {x \in Alloc : keep[x]}, k \in {"CArc", "Some"}}
  \cup {[op |-> "MakeEmpty", t |-> t, s |-> s] : t \in Thread, s \in Dst}
  \cup {[op |-> "EnvDropArc", a |-> a] : a \in {x \in Alloc : keep[x]}}
  \cup UNION {{[op |-> "Clone", t |-> t, s |-> s, d |-> d] : s \in Held(t), d \in Dst} : t \in Thread}
  \cup UNION {{[op |-> "Take", t |-> t, s |-> s, d |-> d] : s \in Held(t), d \in Dst} : t \in Thread}
  \cup UNION {{[op |-> "Convert", t |-> t, s |-> s, to |-> k] : s \in Held(t), k \in {"Opt", "OCArc", "CArc", "OSome"}} : t \in Thread}
  \cup UNION {{[op |-> "Unwrap", t |-> t, s |-> s] : s \in Held(t)} : t \in Thread}
  \cup UNION {{[op |-> "IntoArc", t |-> t, s |-> s] : s \in Held(t)} : t \in Thread}
  \cup UNION {{[op |-> "Drop", t |-> t, s |-> s] : s \in Held(t)} : t \in Thread}
  \cup UNION {{[op |-> "Give", t |-> t, s |-> s, u |-> u] : s \in Held(t), u \in Thread \ {t}} : t \in Thread}

Next == \E e \in Actions : Do(e)
Spec == Init /\ [][Next]_vars

(* the call counters only ever grow: keep them out of the fingerprint         *)
View == <<slot, strong, made, keep, vdrops, foreign, hrel>>
Bounded == Len(hrel) <= MaxH
=============================================================================
