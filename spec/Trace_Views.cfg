CONSTANTS
  MaxId = 128
SPECIFICATION TraceSpec
INVARIANTS DropAtMostOnce ExactlyOnce ViewInBounds
POSTCONDITION TraceAccepted
CHECK_DEADLOCK FALSE
