---------------------------- MODULE Trace_Modules ----------------------------
EXTENDS Modules, Json, IOUtils, Sequences
Rec_ == ndJsonDeserialize(IOEnv.TRACE)
VARIABLE l
TraceInit == Init /\ l = 1
TraceNext == /\ l <= Len(Rec_) /\ l' = l + 1 /\ Do(Rec_[l])
TraceSpec == TraceInit /\ [][TraceNext]_<<vars, l>>
TraceAccepted ==
  LET d == TLCGet("stats").diameter IN
  IF d - 1 = Len(Rec_) THEN TRUE
  ELSE Print(<<"TRACE-REJECTED line", d, Rec_[d]>>, FALSE)
=============================================================================
