------------------------------ MODULE Gen_Views ------------------------------
EXTENDS Views, Json, TLC
CONSTANTS Depth, Lens, Mode
VARIABLE hist

SliceActions ==
  {[op |-> "NewBuf", n |-> n] : n \in Lens}
  \cup {[op |-> "MakeView", off |-> o, len |-> l, mut |-> m] : o \in 0..Len(mem), l \in 0..Len(mem), m \in BOOLEAN}
  \cup {[op |-> "Convert", how |-> h] : h \in {"as_slice", "deref", "into_slice", "to_c", "mut_to_ref", "reborrow", "as_slice_mut", "into_mut_slice"} \cup KeepHows}
  \cup {[op |-> "WriteThrough", k |-> k, v |-> 90 + k] : k \in 0..2}
CellActions ==
  {[op |-> "NewCell", shape |-> "opt", tag |-> t] : t \in {0, 1}}
  \cup {[op |-> "NewCell", shape |-> "res", tag |-> t] : t \in {0, 1}}
  \cup {[op |-> "NewCell", shape |-> "tup", tag |-> t] : t \in 1..4}
  \cup {[op |-> "Flip"], [op |-> "TakeOpt"], [op |-> "DropCell"], [op |-> "ResOk"], [op |-> "ReplaceMut"], [op |-> "DefaultOpt"]}
Actions == IF Mode = "slices" THEN SliceActions ELSE CellActions

GenInit == Init /\ hist = <<>>
GenNext == /\ Len(hist) < Depth
           /\ \E e \in Actions : Do(e) /\ hist' = Append(hist, [a |-> e, exp |-> Proj'])
GenSpec == GenInit /\ [][GenNext]_<<vars, hist>>
Emit == Len(hist) = Depth => PrintT(<<"REPLAY", ToJson(hist)>>)
=============================================================================
