------------------------------- MODULE Layout -------------------------------
(***************************************************************************)
(* Generated C layout as a function of the definitions (property C04).      *)
(*                                                                          *)
(* A trait is a sequence of method names (declaration order).  A group      *)
(* lists mandatory and optional traits, an optional trait possibly under an *)
(* alias.  The documented layout:                                           *)
(*   vtable  = one function pointer per method, in declaration order        *)
(*   group   = mandatory vtable pointers in name order, then optional       *)
(*             vtable pointers in name order (alias name if aliased),       *)
(*             then the container {instance, context, temporary storage}    *)
(* TLC checks that the group layout does not depend on the order in which   *)
(* the traits are listed, and enumerates definitions with predictions.      *)
(***************************************************************************)
EXTENDS Naturals, Sequences, FiniteSets, TLC, Json, SequencesExt

(* pool of traits: name -> methods in declaration order (deliberately not alphabetical) *)
Pool == [Zeta |-> <<"zz", "aa", "mm">>, Alpha |-> <<"b1", "a2">>, Mid |-> <<"only">>,
         Beta |-> <<"q", "p", "r", "o", "s">>, Nil |-> <<>>,
         TB |-> <<"tb1">>, Ta |-> <<"ta2", "ta1">>,
         \* methods with attributes: vo_* is #[vtbl_only] (a vtable slot like any other), sk_* is #[skip_func] (not exported)
         \* ws_* has a default body and `where Self: Sized` (no generic parameter): a vtable slot like any other
         Attr |-> <<"n1", "vo_a", "n2", "sk_b", "n3", "vo_c", "ws_d", "n4">>,
         \* associated types (ty_*) declared between the methods: they are not slots, and they do not move the slots
         Ty |-> <<"open", "close", "ty_id", "ident", "reset">>,
         Ty2 |-> <<"ty_w", "b1x", "ty_x", "b2x", "b3x", "b4x", "ty_y", "b5x", "ty_z">>]
Names == DOMAIN Pool

(* name order = the order of Rust's string comparison on the identifiers (byte order: every upper-case  *)
(* letter sorts before every lower-case one, so "TB" < "Ta"); existing binaries   *)
(* rely on exactly this order, a case-insensitive or locale collation would move vtable pointers        *)
Rank == [Alpha |-> 1, Attr |-> 2, Beta |-> 3, Gamma |-> 4, Mid |-> 5, Nil |-> 6, Omega |-> 7, TB |-> 8, Ta |-> 9, Ty |-> 10, Ty2 |-> 11, Zeta |-> 12]
SortByRank(S) == SetToSortSeq(S, LAMBDA a, b : Rank[a] < Rank[b])

IsType(m) == m \in {"ty_id", "ty_w", "ty_x", "ty_y", "ty_z"}
Skipped(m) == m \in {"sk_b"} \/ IsType(m)
(* one function pointer per EXPORTED method, in declaration order - whatever attributes the methods carry *)
VtblLayout(t) == SelectSeq(Pool[t], LAMBDA m : ~Skipped(m))

(* a group definition: sequences (listing order) of mandatory names and of optional [trait, key] pairs.  A name may be   *)
(* written with a path (`self::Alpha`, `zeta::Alpha`): the key is its last segment (or the alias), the path plays no part *)
(* in the order - every second rendered listing spells some names with a path                                             *)
Key(o) == o.key
GroupLayout(mand, opt) ==
  [mandatory |-> SortByRank({mand[k] : k \in DOMAIN mand}),
   optional  |-> SortByRank({opt[k].key : k \in DOMAIN opt}),
   tail      |-> <<"container">>]
(* cast!(group impl S) for a set S of optional traits yields the concrete form <Group>With<S>: the same fields in the    *)
(* same places (the requested tables no longer optional) - its bit pattern is the group's, for EVERY subset S, adjacent  *)
(* in name order or not (as_ref!/as_mut! and upcast() reinterpret one form as the other)                                *)
CastSameBits(mand, opt, S) == GroupLayout(mand, opt)
ContainerLayout == <<"instance", "context">>   \* followed by one ret_tmp_<trait> field per trait

(* the container of a single-trait object in machine words, counted from the start of the object (word 0 is the  *)
(* vtable pointer): instance, then context, then temporary storage.  A zero-sized context (no context) or storage *)
(* (no method returning a wrapped reference) occupies nothing, so an implementation that swaps two fields is       *)
(* bit-identical unless BOTH are present - hence the full product of cases.                                       *)
InstWords == [box |-> 2, ref |-> 1]        \* CBox = {pointer, drop function}, & = pointer
CtxWords == [none |-> 0, arc |-> 3]        \* CArc = {pointer, clone function, drop function}
(* temporary storage for one method returning `&Self::Ret` wrapped as an object: vtable pointer, &instance, context clone *)
TmpWords(t, c) == IF t = "none" THEN 0 ELSE 2 + CtxWords[c]
ContainerCases == {[inst |-> i, ctx |-> c, tmp |-> t] : i \in {"box", "ref"}, c \in {"none", "arc"}, t \in {"none", "objref"}}
ContainerWords(k) ==
  [inst_at |-> 1, ctx_at |-> 1 + InstWords[k.inst], tmp_at |-> 1 + InstWords[k.inst] + CtxWords[k.ctx],
   words |-> 1 + InstWords[k.inst] + CtxWords[k.ctx] + TmpWords(k.tmp, k.ctx)]
(* fields never overlap and come in the documented order *)
ContainerOrdered == \A k \in ContainerCases : LET w == ContainerWords(k) IN
   /\ w.inst_at < w.ctx_at /\ w.ctx_at <= w.tmp_at /\ w.tmp_at <= w.words
   /\ (k.ctx = "arc" => w.ctx_at < w.tmp_at) /\ (k.tmp = "objref" => w.tmp_at < w.words)
ASSUME ContainerOrdered

(* the container of a GROUP (words counted from the start of the group object: one vtable pointer per member trait comes   *)
(* first): instance, context, then one block of temporary storage per member trait - the mandatory traits' blocks in name  *)
(* order, THEN the optional traits' blocks in name order (the order of the vtable pointers; not all names merged).  The    *)
(* case: mandatory ZHold, optional AHold - the optional name sorts first -, each with one method returning a wrapped       *)
(* reference; a block is only visible when it is non-empty, so both have one.                                              *)
HoldBlocks == <<"ZHold">> \o <<"AHold">>
GroupContWords(c) ==
  LET base == 2 + InstWords["box"] IN
  [inst_at |-> 2, ctx_at |-> base,
   tmp_at |-> [t \in {"ZHold", "AHold"} |-> base + CtxWords[c] + (CHOOSE k \in 1..2 : HoldBlocks[k] = t) * TmpWords("objref", c) - TmpWords("objref", c)],
   words |-> base + CtxWords[c] + 2 * TmpWords("objref", c)]

(* all listing orders of a set *)
Perms(S) == {s \in [1..Cardinality(S) -> S] : \A i, j \in 1..Cardinality(S) : i # j => s[i] # s[j]}

GroupSets == {[m |-> m, o |-> o] : m \in {{"Mid"}, {"Zeta", "Alpha"}, {"Ta", "TB"}},
                                   o \in {{}, {[tr |-> "Beta", key |-> "Beta"]},
                                          {[tr |-> "Beta", key |-> "Beta"], [tr |-> "Alpha", key |-> "Omega"]},
                                          {[tr |-> "Nil", key |-> "Nil"], [tr |-> "Beta", key |-> "Gamma"], [tr |-> "Zeta", key |-> "Zeta"]},
                                          {[tr |-> "Ta", key |-> "Ta"], [tr |-> "TB", key |-> "TB"]}}}
(* names of one group must differ in more than case: field and function names are derived from the   *)
(* lower-cased name (two aliases `Gamma` / `GAmma` do not compile), so such definitions are outside   *)
(* the quantifier                                                                                   *)
Usable(g) == \A x \in g.o : x.tr \notin g.m
Listings == UNION {{[mand |-> pm, opt |-> po] : pm \in Perms(g.m), po \in Perms(g.o)} : g \in {x \in GroupSets : Usable(x)}}

(* the design claim: layout is a function of the sets, not of the listing order *)
OrderInvariant == \A a, b \in Listings :
   ({a.mand[k] : k \in DOMAIN a.mand} = {b.mand[k] : k \in DOMAIN b.mand} /\ {a.opt[k] : k \in DOMAIN a.opt} = {b.opt[k] : k \in DOMAIN b.opt})
      => GroupLayout(a.mand, a.opt) = GroupLayout(b.mand, b.opt)
ASSUME OrderInvariant

VARIABLE done
Init == done = FALSE
Next == UNCHANGED done
Emit == PrintT(<<"REPLAY", ToJson([traits |-> [t \in Names |-> VtblLayout(t)], decls |-> [t \in Names |-> Pool[t]],
                                    containers |-> {[case |-> k, at |-> ContainerWords(k)] : k \in ContainerCases},
                                    groupconts |-> {[ctx |-> c, at |-> GroupContWords(c)] : c \in {"none", "arc"}},
                                    groups |-> {[listing |-> l, layout |-> GroupLayout(l.mand, l.opt)] : l \in Listings}])>>)
=============================================================================
