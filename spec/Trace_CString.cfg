CONSTANTS
  Slot = {1, 2, 3}
SPECIFICATION TraceSpec
INVARIANTS WellFormed OneBufferEach
POSTCONDITION TraceAccepted
CHECK_DEADLOCK FALSE
