CONSTANTS
  Slot = {1, 2}
  MaxId = 10
  MaxLen = 3
  Slack = 0
  InitLens = {0, 2}
  Spares = {0, 2}
  ResN = {1, 3}
  Depth = 5
SPECIFICATION GenSpec
INVARIANTS Emit
CHECK_DEADLOCK FALSE
