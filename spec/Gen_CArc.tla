------------------------------ MODULE Gen_CArc ------------------------------
EXTENDS MC_CArc, Json
CONSTANT Depth
VARIABLES hist,
          fin   \* the behaviour is complete: printed once, from the single successor of its last state (in -simulate mode
                \* TLC evaluates invariants on every candidate successor, which would print all siblings of the last step)
GenInit == Init /\ hist = <<>> /\ fin = FALSE
GenStep == /\ Len(hist) < Depth
           /\ \E e \in Actions : Do(e) /\ hist' = Append(hist, [a |-> e, exp |-> Proj'])
GenNext == \/ ~fin /\ GenStep /\ UNCHANGED fin
           \/ ~fin /\ Len(hist) = Depth /\ fin' = TRUE /\ UNCHANGED <<vars, hist>>
GenSpec == GenInit /\ [][GenNext]_<<vars, hist, fin>>
Emit == fin => PrintT(<<"REPLAY", ToJson(hist)>>)
=============================================================================
