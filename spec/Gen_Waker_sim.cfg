CONSTANTS
  FW = {1, 2, 3, 4, 5}
  Rec = {1, 2, 3, 4, 5, 6, 7, 8, 9, 10, 11, 12}
  Thread = {1, 2, 3}
  Orig = {1, 2}
  MaxNest = 2
  Deviations = {}
  Depth = 60
SPECIFICATION GenSpec
INVARIANTS Emit
CHECK_DEADLOCK FALSE
