CONSTANTS
  Slot = {1, 2}
  MaxId = 6
  MaxLen = 4
  Slack = 1
  InitLens = {0, 2}
  Spares = {0, 2}
  ResN = {1, 3}
SPECIFICATION Spec
INVARIANTS TypeOK CapGeLen DropAtMostOnce NoAlias ExactlyOnce DeadIsEmpty
PROPERTIES PanicIsNoOp
CHECK_DEADLOCK FALSE
