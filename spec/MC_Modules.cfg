CONSTANTS
  Module = {1, 2}
  Block = {1, 2, 3}
  Size = {1, 2}
  Deviations = {}
SPECIFICATION Spec
INVARIANTS OwnerUnique NoForeignFree
CHECK_DEADLOCK FALSE
