------------------------------ MODULE Modules ------------------------------
(***************************************************************************)
(* Memory ownership between separately compiled modules (property C05:      *)
(* "created in one compiled module ... used, cloned, cast, consumed and     *)
(* destroyed in another").  Every module of a process has its own           *)
(* allocator.  A block belongs to the module whose allocator handed it out, *)
(* and the only way it may end is a free that reaches that same allocator,  *)
(* with the size it was allocated with - whichever module's code decided to *)
(* destroy the value.  cglue achieves this by storing, in every value that  *)
(* owns memory, the creating module's release function.                     *)
(*                                                                          *)
(* The actions are the requests an allocator sees; the trace is recorded by *)
(* the tagging allocators of host and plugin on one shared clock.           *)
(***************************************************************************)
EXTENDS Naturals, FiniteSets, TLC

CONSTANTS Module,      \* the modules of the process
          Deviations   \* subset of {"foreign_free"}: a free may reach another module's allocator

VARIABLES live,     \* [Module -> set of [b, size]]: blocks handed out by each module's allocator and not yet returned
          base,     \* the value of `live` at the last "base" marker (a script starts)
          foreign   \* frees that reached an allocator that does not own the block (only under the deviation)
vars == <<live, base, foreign>>

Blk(b, s) == [b |-> b, size |-> s]
Init == live = [m \in Module |-> {}] /\ base = [m \in Module |-> {}] /\ foreign = 0

(* module m's allocator hands out block b of s bytes *)
Alloc(m, b, s) ==
  /\ \A x \in Module : \A r \in live[x] : r.b # b
  /\ live' = [live EXCEPT ![m] = @ \cup {Blk(b, s)}]
  /\ UNCHANGED <<base, foreign>>

(* a free of block b (owner o), passed size s, arrives at module m's allocator *)
Free(m, o, b, s) ==
  /\ Blk(b, s) \in live[o]                       \* a live block, freed with the size it was allocated with
  /\ \/ m = o /\ foreign' = foreign
     \/ m # o /\ "foreign_free" \in Deviations /\ foreign' = foreign + 1
  /\ live' = [live EXCEPT ![o] = @ \ {Blk(b, s)}]
  /\ UNCHANGED base

Base == base' = live /\ UNCHANGED <<live, foreign>>
(* every value created since the last base marker is gone: each module is back to what it held *)
Quiescent == live = base /\ UNCHANGED vars

Do(e) ==
  \/ e.op = "alloc" /\ Alloc(e.m, e.b, e.size)
  \/ e.op = "free" /\ Free(e.m, e.o, e.b, e.size)
  \/ e.op = "base" /\ Base
  \/ e.op = "quiescent" /\ Quiescent

OwnerUnique == \A m, n \in Module : m # n => {r.b : r \in live[m]} \cap {r.b : r \in live[n]} = {}
NoForeignFree == foreign = 0
=============================================================================
