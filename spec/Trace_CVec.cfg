CONSTANTS
  Slot = {1, 2, 3}
  MaxId = 96
SPECIFICATION TraceSpec
INVARIANTS TypeOK CapGeLen DropAtMostOnce NoAlias ExactlyOnce DeadIsEmpty
POSTCONDITION TraceAccepted
CHECK_DEADLOCK FALSE
