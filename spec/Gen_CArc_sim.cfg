CONSTANTS
  Slot = {1, 2, 3, 4, 5}
  Alloc = {1, 2, 3}
  MaxH = 99
  Thread = {1, 2, 3}
  Depth = 40
SPECIFICATION GenSpec
INVARIANTS Emit
CHECK_DEADLOCK FALSE
