------------------------------ MODULE MC_Boxes ------------------------------
(* exhaustive model check of Boxes.tla (every reachable state while payload identities last), the invariants of C06 for     *)
(* CBox / CSliceBox / typed objects: made by Rust or by foreign code, owned or lent, typed or opaque, unwrapped or dropped   *)
EXTENDS Boxes, TLC
Used == {s \in Slot : bx[s].kind # "free"}
FreeS == {s \in Slot : bx[s].kind = "free"}
Actions ==
  {[op |-> "New", s |-> s, kind |-> "cbox", pk |-> pk, n |-> 1, via |-> v] : s \in FreeS, pk \in {"heavy", "zst", "pod"}, v \in {"from_t", "from_box", "from_tuple"}}
  \cup {[op |-> "New", s |-> s, kind |-> "cbox", pk |-> pk, n |-> 1, via |-> v] : s \in FreeS, pk \in {"heavy", "pod"}, v \in {"foreign", "loan"}}
  \cup {[op |-> "EnvRelease"] : x \in {1}}
  \cup {[op |-> "New", s |-> s, kind |-> "sbox", pk |-> pk, n |-> n, via |-> "from_box"] : s \in FreeS, pk \in {"heavy", "zst", "pod"}, n \in {0, 1, 3}}
  \cup {[op |-> "New", s |-> s, kind |-> "obj", pk |-> pk, n |-> 1, via |-> "from_t"] : s \in FreeS, pk \in {"heavy", "zst", "pod"}}
  \cup {[op |-> "IntoOpaque", s |-> s] : s \in Used}
  \cup {[op |-> "IntoInner", s |-> s] : s \in Used}
  \cup UNION {{[op |-> "Write", s |-> s, k |-> k] : k \in 1..Len(bx[s].ids)} : s \in Used}
  \cup {[op |-> "Drop", s |-> s] : s \in Used}
Next == \E e \in Actions : Do(e)
Spec == Init /\ [][Next]_vars
(* a lent value is never destroyed while the box that lends it exists, and never by the box *)
LentIntact == \A s \in Slot : bx[s].own = "loan" => \A k \in DOMAIN bx[s].ids : drops[bx[s].ids[k]] = 0
(* only boxes made by Rust's Box may be unwrapped: checked as an action property of IntoInner's guard *)
KeptNotOwned == kept \cap UNION {Range(bx[s].ids) : s \in Slot} = {}
=============================================================================
