----------------------------- MODULE LayoutCheck -----------------------------
(***************************************************************************)
(* Runtime layout validation (property C20, feature layout_checks).         *)
(*                                                                          *)
(* The C-visible interface of a trait is the sequence of its exported       *)
(* methods, each with name, receiver kind, C argument types, C return type. *)
(* Interface(d) erases everything that is not C-visible (documentation,     *)
(* default bodies, methods excluded with #[skip_func], module path).        *)
(* Verdict(a, b) is what comparing the layout descriptions of two builds    *)
(* must report; And is the combination of verdicts                          *)
(* (trait_group.rs:495-569).                                                *)
(***************************************************************************)
EXTENDS Naturals, Sequences, FiniteSets, TLC, Json

M(name, recv, args, ret) == [name |-> name, recv |-> recv, args |-> args, ret |-> ret, skip |-> FALSE, dflt |-> FALSE, doc |-> FALSE]

Base == [ir |-> FALSE,
         ms |-> << M("m1", "ref", <<"i64">>, "i64"),
                   M("m2", "mut", <<"u8", "u64">>, "u64"),
                   M("m3", "ref", <<>>, "res") >>]

(* C-visible interface: exported methods only; `res` is Result<u64,()> whose C shape depends on int_result *)
CRet(m, ir) == IF m.ret = "res" THEN (IF ir THEN "i32+out" ELSE "CResult") ELSE m.ret
Interface(d) == [k \in 1..Len(SelectSeq(d.ms, LAMBDA m : ~m.skip)) |->
                   LET m == SelectSeq(d.ms, LAMBDA x : ~x.skip)[k] IN
                   [name |-> m.name, recv |-> m.recv, args |-> m.args, ret |-> CRet(m, d.ir)]]

Swap12(s) == <<s[2], s[1]>> \o SubSeq(s, 3, Len(s))

(* single edits, by name *)
Edits ==
  [ identical     |-> Base,
    documented    |-> [Base EXCEPT !.ms[1].doc = TRUE, !.ms[2].dflt = TRUE],
    skipped_extra |-> [Base EXCEPT !.ms = @ \o << [M("hidden", "ref", <<>>, "i64") EXCEPT !.skip = TRUE] >>],
    add_method    |-> [Base EXCEPT !.ms = @ \o << M("m4", "ref", <<>>, "i64") >>],
    remove_method |-> [Base EXCEPT !.ms = <<@[1], @[3]>>],
    rename_method |-> [Base EXCEPT !.ms[1].name = "mx"],
    reorder       |-> [Base EXCEPT !.ms = Swap12(@)],
    arg_type      |-> [Base EXCEPT !.ms[1].args = <<"u64">>],
    ret_type      |-> [Base EXCEPT !.ms[1].ret = "u32"],
    receiver      |-> [Base EXCEPT !.ms[1].recv = "mut"],
    add_arg       |-> [Base EXCEPT !.ms[1].args = <<"i64", "u8">>],
    int_result    |-> [Base EXCEPT !.ir = TRUE] ]

Verdict(a, b) == IF Interface(a) = Interface(b) THEN "Valid" ELSE "Invalid"

(* groups: set of optional traits (name order is canonical, listing order is not C-visible) *)
GBase == [mand |-> <<"T">>, opt |-> <<"U", "V">>]
GEdits == [ identical |-> GBase,
            relisted  |-> [GBase EXCEPT !.opt = <<"V", "U">>],
            remove_opt |-> [GBase EXCEPT !.opt = <<"U">>],
            add_opt    |-> [GBase EXCEPT !.opt = <<"U", "V", "W">>],
            other_opt  |-> [GBase EXCEPT !.opt = <<"U", "W">>] ]
GInterface(g) == [mand |-> {g.mand[k] : k \in DOMAIN g.mand}, opt |-> {g.opt[k] : k \in DOMAIN g.opt}]
GVerdict(a, b) == IF GInterface(a) = GInterface(b) THEN "Valid" ELSE "Invalid"

(* combining verdicts: Invalid absorbs, Unknown dominates Valid *)
Vs == {"Valid", "Invalid", "Unknown"}
And(v, w) == IF v = "Invalid" \/ w = "Invalid" THEN "Invalid"
             ELSE IF v = "Unknown" \/ w = "Unknown" THEN "Unknown" ELSE "Valid"
AndLaws == /\ \A v, w \in Vs : And(v, w) = And(w, v)
           /\ \A u, v, w \in Vs : And(And(u, v), w) = And(u, And(v, w))
           /\ \A v \in Vs : And("Invalid", v) = "Invalid" /\ And("Valid", v) = v
           /\ And("Unknown", "Valid") = "Unknown"
ASSUME AndLaws
(* the statement of C20 on the enumerated edits: Valid exactly for interface-preserving edits *)
ASSUME \A e \in DOMAIN Edits : (Verdict(Base, Edits[e]) = "Valid") <=> (e \in {"identical", "documented", "skipped_extra"})
ASSUME \A e \in DOMAIN GEdits : (GVerdict(GBase, GEdits[e]) = "Valid") <=> (e \in {"identical", "relisted"})

VARIABLE done
Init == done = FALSE
Next == UNCHANGED done
Emit == PrintT(<<"REPLAY", ToJson([
   traits |-> {[name |-> e, def |-> Edits[e], expect |-> Verdict(Base, Edits[e])] : e \in DOMAIN Edits},
   groups |-> {[name |-> e, def |-> GEdits[e], expect |-> GVerdict(GBase, GEdits[e])] : e \in DOMAIN GEdits},
   ands   |-> {[a |-> v, b |-> w, r |-> And(v, w)] : v \in Vs, w \in Vs}])>>)
=============================================================================
