----------------------------- MODULE LayoutCheck -----------------------------
(***************************************************************************)
(* Runtime layout validation (property C20, feature layout_checks).         *)
(*                                                                          *)
(* The C-visible interface of a trait is the sequence of its exported       *)
(* methods, each with name, receiver kind, C argument types, C return type. *)
(* Interface(d) erases everything that is not C-visible (documentation,     *)
(* default bodies, methods excluded with #[skip_func], module path).        *)
(* Verdict(a, b) is what comparing the layout descriptions of two builds    *)
(* must report; And is the combination of verdicts                          *)
(* (trait_group.rs:495-569).                                                *)
(***************************************************************************)
EXTENDS Naturals, Sequences, FiniteSets, TLC, Json

(* argnames: the names of the arguments as written in the source ("a" or "b" series) - not part of the C-visible interface *)
(* ir: the method carries its own #[int_result] (its `res` return crosses as a code plus an output slot in every build)    *)
M(name, recv, args, ret) == [name |-> name, recv |-> recv, args |-> args, ret |-> ret, skip |-> FALSE, dflt |-> FALSE, doc |-> FALSE, argnames |-> "a", ir |-> FALSE]

Base == [ir |-> FALSE,
         ms |-> << M("m1", "ref", <<"i64">>, "i64"),
                   M("m2", "mut", <<"u8", "u64">>, "u64"),
                   M("m3", "ref", <<>>, "res"),
                   M("m4", "own", <<"u32">>, "u32"),      \* by-value receiver: the only slot that takes the container by value
                   \* arguments and returns of the library's own generic wrapper types: the element type is C-visible
                   \* (callback function signature, iterator output slot, slice/vector element, option/tuple payload)
                   M("m5", "ref", <<"cb_u32">>, "op_u32"),
                   M("m6", "mut", <<"sl_u32", "it_u32">>, "vec_u32"),
                   M("m7", "ref", <<"op_u32", "vec_u32">>, "tup_u32"),
                   M("m8", "ref", <<"box_u32", "tup_u32">>, "box_u32"),
                   \* a method that uses integer result codes in the BASE build already (an output slot in its vtable entry):
                   \* every per-method edit below is also made inside such a method
                   [M("m9", "ref", <<"u32">>, "res") EXCEPT !.ir = TRUE] >>]
K == 1..Len(Base.ms)

(* C-visible interface: exported methods only; `res` is Result<u64,()> whose C shape depends on int_result *)
CRet(m, ir) == IF m.ret = "res" THEN (IF ir \/ m.ir THEN "i32+out" ELSE "CResult") ELSE m.ret
Interface(d) == [k \in 1..Len(SelectSeq(d.ms, LAMBDA m : ~m.skip)) |->
                   LET m == SelectSeq(d.ms, LAMBDA x : ~x.skip)[k] IN
                   [name |-> m.name, recv |-> m.recv, args |-> m.args, ret |-> CRet(m, d.ir)]]

RemoveAt(s, k) == SubSeq(s, 1, k - 1) \o SubSeq(s, k + 1, Len(s))
SwapAt(s, k) == [i \in DOMAIN s |-> IF i = k THEN s[k + 1] ELSE IF i = k + 1 THEN s[k] ELSE s[i]]
Wrappers == {"cb", "it", "sl", "op", "vec", "tup", "box"}
OtherTy(t) == IF t = "u64" THEN "u32"
              ELSE IF \E w \in Wrappers : t = w \o "_u32" THEN (CHOOSE w \in Wrappers : t = w \o "_u32") \o "_u64"
              ELSE "u64"
OtherRecv(r) == IF r = "ref" THEN "mut" ELSE IF r = "mut" THEN "ref" ELSE "mut"
N(base, k) == base \o "_" \o ToString(k)

(* single edits: the whole-trait ones by name, the per-method ones at EVERY method position (so every *)
(* receiver kind, the first and the last slot, methods with and without arguments are all edited)     *)
EditSet ==
  { [name |-> "identical",     def |-> Base],
    [name |-> "documented",    def |-> [Base EXCEPT !.ms[1].doc = TRUE, !.ms[2].dflt = TRUE]],
    [name |-> "skipped_extra", def |-> [Base EXCEPT !.ms = @ \o << [M("hidden", "ref", <<>>, "i64") EXCEPT !.skip = TRUE] >>]],
    [name |-> "add_method",    def |-> [Base EXCEPT !.ms = @ \o << M("m_new", "ref", <<>>, "i64") >>]],
    [name |-> "add_method_front", def |-> [Base EXCEPT !.ms = << M("m0", "ref", <<>>, "i64") >> \o @]],
    [name |-> "int_result",    def |-> [Base EXCEPT !.ir = TRUE]] }
  \cup { [name |-> N("remove_method", k), def |-> [Base EXCEPT !.ms = RemoveAt(@, k)]] : k \in K }
  \cup { [name |-> N("rename_method", k), def |-> [Base EXCEPT !.ms[k].name = "mx"]] : k \in K }
  \cup { [name |-> N("reorder", k),       def |-> [Base EXCEPT !.ms = SwapAt(@, k)]] : k \in 1..(Len(Base.ms) - 1) }
  \cup { [name |-> N("arg_type", k),      def |-> [Base EXCEPT !.ms[k].args[1] = OtherTy(@)]] : k \in {j \in K : Len(Base.ms[j].args) > 0} }
  \cup { [name |-> N("arg2_type", k),     def |-> [Base EXCEPT !.ms[k].args[2] = OtherTy(@)]] : k \in {j \in K : Len(Base.ms[j].args) > 1} }
  \cup { [name |-> N("ret_type", k),      def |-> [Base EXCEPT !.ms[k].ret = OtherTy(@)]] : k \in K }
  \cup { [name |-> N("receiver", k),      def |-> [Base EXCEPT !.ms[k].recv = OtherRecv(@)]] : k \in K }
  \* two differences in ONE method: the arguments renamed (not C-visible, nothing is claimed about that alone) AND a C-visible
  \* change - the verdict is the C-visible change's
  \cup { [name |-> N("recv_argnames", k), def |-> [Base EXCEPT !.ms[k].recv = OtherRecv(@), !.ms[k].argnames = "b"]] : k \in {j \in K : Len(Base.ms[j].args) > 0} }
  \cup { [name |-> N("ret_argnames", k),  def |-> [Base EXCEPT !.ms[k].ret = OtherTy(@), !.ms[k].argnames = "b"]] : k \in {j \in K : Len(Base.ms[j].args) > 0} }
  \cup { [name |-> N("add_arg", k),       def |-> [Base EXCEPT !.ms[k].args = @ \o <<"u8">>]] : k \in K }
Preserving == {"identical", "documented", "skipped_extra"}

Verdict(a, b) == IF Interface(a) = Interface(b) THEN "Valid" ELSE "Invalid"
(* how the compared root type reaches the edited trait: it IS an object of that trait, or one of its methods returns    *)
(* an object of that trait (`#[wrap_with_obj(T)] type Ret; fn get(&self) -> Self::Ret`: the plugin-root shape).  The    *)
(* C-visible interface of the root includes the interface of every object type in its signatures, so the verdict is the *)
(* same.                                                                                                                *)
Reach == {"direct", "via_return"}
VerdictVia(r, a, b) == Verdict(a, b)

(* groups: set of mandatory and optional traits (name order is canonical, listing order is not C-visible); the   *)
(* interface of a group includes the interface of every member trait: `tweak` names the members whose method     *)
(* takes another argument type than in the base build                                                            *)
GBase == [mand |-> <<"T">>, opt |-> <<"U", "V">>, tweak |-> {}]
GEdits == [ identical |-> GBase,
            relisted  |-> [GBase EXCEPT !.opt = <<"V", "U">>],
            remove_opt |-> [GBase EXCEPT !.opt = <<"U">>],
            add_opt    |-> [GBase EXCEPT !.opt = <<"U", "V", "W">>],
            other_opt  |-> [GBase EXCEPT !.opt = <<"U", "W">>],
            mand_member_changed |-> [GBase EXCEPT !.tweak = {"T"}],
            opt_member_changed  |-> [GBase EXCEPT !.tweak = {"U"}],
            last_opt_member_changed |-> [GBase EXCEPT !.tweak = {"V"}] ]
Member(g, n) == [name |-> n, changed |-> n \in g.tweak]
GInterface(g) == [mand |-> {Member(g, g.mand[k]) : k \in DOMAIN g.mand}, opt |-> {Member(g, g.opt[k]) : k \in DOMAIN g.opt}]
GVerdict(a, b) == IF GInterface(a) = GInterface(b) THEN "Valid" ELSE "Invalid"

(* combining verdicts: Invalid absorbs, Unknown dominates Valid *)
Vs == {"Valid", "Invalid", "Unknown"}
And(v, w) == IF v = "Invalid" \/ w = "Invalid" THEN "Invalid"
             ELSE IF v = "Unknown" \/ w = "Unknown" THEN "Unknown" ELSE "Valid"
AndLaws == /\ \A v, w \in Vs : And(v, w) = And(w, v)
           /\ \A u, v, w \in Vs : And(And(u, v), w) = And(u, And(v, w))
           /\ \A v \in Vs : And("Invalid", v) = "Invalid" /\ And("Valid", v) = v
           /\ And("Unknown", "Valid") = "Unknown"
(* the two predicates users gate on: strict = identical interfaces only; relaxed also lets a missing description through *)
Strict(v) == v = "Valid"
Relaxed(v) == v # "Invalid"
ASSUME AndLaws
(* the statement of C20 on the enumerated edits: Valid exactly for interface-preserving edits *)
ASSUME \A e \in EditSet : (Verdict(Base, e.def) = "Valid") <=> (e.name \in Preserving)
ASSUME \A e \in DOMAIN GEdits : (GVerdict(GBase, GEdits[e]) = "Valid") <=> (e \in {"identical", "relisted"})

VARIABLE done
Init == done = FALSE
Next == UNCHANGED done
Emit == PrintT(<<"REPLAY", ToJson([
   traits |-> {[name |-> e.name, def |-> e.def, expect |-> Verdict(Base, e.def)] : e \in EditSet},
   reach  |-> Reach,
   groups |-> {[name |-> e, def |-> GEdits[e], expect |-> GVerdict(GBase, GEdits[e])] : e \in DOMAIN GEdits},
   ands   |-> {[a |-> v, b |-> w, r |-> And(v, w)] : v \in Vs, w \in Vs},
   preds  |-> {[v |-> v, strict |-> Strict(v), relaxed |-> Relaxed(v)] : v \in Vs}])>>)
=============================================================================
