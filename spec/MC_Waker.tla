------------------------------ MODULE MC_Waker ------------------------------
EXTENDS Waker, TLC

FreeW == {w \in FW : IsFree(w)}
Dst == IF FreeW = {} THEN {} ELSE {MinOf(FreeW)}
Held(t) == {w \in FW : Owns(t, w)}

Actions ==
  {[op |-> "PollBegin", o |-> o] : o \in Orig} \cup {[op |-> "PollEnd"], [op |-> "ViewWakeByRef"]}
  \cup {[op |-> "ViewClone", w |-> w] : w \in Dst}
  \cup UNION {{[op |-> "FClone", t |-> t, w |-> w, d |-> d] : w \in Held(t), d \in Dst} : t \in Thread}
  \cup UNION {{[op |-> "FWake", t |-> t, w |-> w] : w \in Held(t)} : t \in Thread}
  \cup UNION {{[op |-> "FWakeByRef", t |-> t, w |-> w] : w \in Held(t)} : t \in Thread}
  \cup UNION {{[op |-> "FWakeBegin", t |-> t, w |-> w] : w \in Held(t)} : t \in Thread}
  \cup {[op |-> "FWakeEnd", t |-> t] : t \in {u \in Thread : waking[u] # <<>>}}
  \cup UNION {{[op |-> "FDrop", t |-> t, w |-> w, how |-> hw] : w \in Held(t), hw \in {"plain", "unwind"}} : t \in Thread}
  \cup UNION {{[op |-> "Give", t |-> t, w |-> w, u |-> u] : w \in Held(t), u \in Thread \ {t}} : t \in Thread}

Next == \E e \in Actions : Do(e)
Spec == Init /\ [][Next]_vars
(* the wake counter only grows: keep it out of the fingerprint *)
View == <<ocount, cur, inPoll, rec, fw, touched, waking, seen>>
=============================================================================
