----------------------------- MODULE MC_Modules -----------------------------
EXTENDS Modules
CONSTANTS Block, Size
Actions == {[op |-> "alloc", m |-> m, b |-> b, size |-> s] : m \in Module, b \in Block, s \in Size}
           \cup {[op |-> "free", m |-> m, o |-> o, b |-> b, size |-> s] : m \in Module, o \in Module, b \in Block, s \in Size}
           \cup {[op |-> "base"], [op |-> "quiescent"]}
Next == \E e \in Actions : Do(e)
Spec == Init /\ [][Next]_vars
=============================================================================
