-------------------------------- MODULE Utf8 --------------------------------
(***************************************************************************)
(* The UTF-8 well-formedness decision (RFC 3629 / Unicode Table 3-7) as a   *)
(* byte-class recogniser: the oracle for `TryFrom<CSliceRef<u8>> for &str`, *)
(* `TryFrom<CSliceMut<u8>> for &str / &mut str` (property C12).             *)
(***************************************************************************)
EXTENDS Naturals, Sequences

Cont(b) == b \in 128..191

RECURSIVE Valid(_)
Valid(s) ==
  IF s = <<>> THEN TRUE
  ELSE LET b == s[1]
           n == Len(s)
           Rest(k) == SubSeq(s, k + 1, n) IN
    IF b <= 127 THEN Valid(Rest(1))
    ELSE IF b \in 194..223 THEN n >= 2 /\ Cont(s[2]) /\ Valid(Rest(2))
    ELSE IF b = 224 THEN n >= 3 /\ s[2] \in 160..191 /\ Cont(s[3]) /\ Valid(Rest(3))
    ELSE IF b \in (225..236) \cup (238..239) THEN n >= 3 /\ Cont(s[2]) /\ Cont(s[3]) /\ Valid(Rest(3))
    ELSE IF b = 237 THEN n >= 3 /\ s[2] \in 128..159 /\ Cont(s[3]) /\ Valid(Rest(3))
    ELSE IF b = 240 THEN n >= 4 /\ s[2] \in 144..191 /\ Cont(s[3]) /\ Cont(s[4]) /\ Valid(Rest(4))
    ELSE IF b \in 241..243 THEN n >= 4 /\ Cont(s[2]) /\ Cont(s[3]) /\ Cont(s[4]) /\ Valid(Rest(4))
    ELSE IF b = 244 THEN n >= 4 /\ s[2] \in 128..143 /\ Cont(s[3]) /\ Cont(s[4]) /\ Valid(Rest(4))
    ELSE FALSE

(* A string view is the byte view of the string's encoding: `&str -> CSliceRef<u8>`, `&mut str ->   *)
(* CSliceMut<u8>` and every way back (`into_str`, `into_mut_str`, TryFrom) keep the address and the *)
(* length in BYTES (not characters) and all bytes; the replay checks this for every valid string.   *)
StrViewLen(s) == Len(s)
CharCount(s) == Len(SelectSeq(s, LAMBDA b : ~Cont(b)))
(* the two differ exactly for strings with a multi-byte character, which the alphabet must contain *)
DistinguishingInput(s) == Valid(s) /\ CharCount(s) # StrViewLen(s)
=============================================================================
