CONSTANTS
  MaxId = 10
  Lens = {0, 1, 3}
  Stops = {0, 1, 2, 3}
  Depth = 4
SPECIFICATION GenSpec
INVARIANTS Emit
CHECK_DEADLOCK FALSE
