------------------------------- MODULE Shapes -------------------------------
(***************************************************************************)
(* The code generator as a function on trait definitions (program space of  *)
(* C01, C02, C03, C13; see README "Type wrapping").                         *)
(*                                                                          *)
(* A single-method definition is (receiver, argument shape, return shape,   *)
(* int_result).  CArg / CRet / CRecv are the C-side types the generator is  *)
(* documented to produce for each shape; Supported says which combinations  *)
(* are expressible in Rust at all.  TLC enumerates the space and prints     *)
(* every definition with its predicted C signature; each is rendered into   *)
(* Rust, expanded by the real generator, compiled against /repo, executed   *)
(* and judged (rustc's FFI lint for C03, direct-call equality for C01,      *)
(* sent = received for C02, code/slot discipline for C13).                  *)
(***************************************************************************)
EXTENDS Naturals, Sequences, FiniteSets, TLC, Json

Recvs == {"ref", "mut", "own", "pinref", "pinmut"}
ArgShapes == {"none", "i64", "cstruct", "ref", "mutref", "slice", "mutslice", "str",
              "opt", "optnpo", "optptr", "optmut", "slice64", "mutslice64", "slicezst", "optstruct", "rawptr", "result", "into", "callback", "iter",
              \* the same documented shapes over an (unwrapped) associated type of the trait, `type Item;`: the vtable is
              \* generic over it (parameter CGlueAItem) and the shape around it is wrapped like any other
              "aval", "aref", "aslice", "aopt", "ares",
              \* Option / Result written as a path: `::core::option::Option<u64>`, `std::option::Option<u64>`,
              \* `::core::result::Result<u64, u64>` - the same types as "opt" / "result", so the same C side
              "optabs", "optstd", "resabs",
              \* an iterator whose source is not fused: it reports the end of a batch and yields again (the receiver polls on)
              "iterq"}
RetShapes == {"unit", "i64", "cstruct", "slice", "mutslice", "str", "opt", "optnpo", "optptr", "refret", "mutrefret", "optstruct",
              "result", "resunit", "resneg", "resio",
              \* `::core::option::Option<u64>`, `::std::result::Result<u64, ()>`
              "optabs", "resabs",
              \* a crate-local one-parameter alias `type Result<T> = core::result::Result<T, NegErr>` (the documented
              \* `#[int_result] fn f(&self) -> Result<usize>` shape): integer coded like any other
              "res1"}

(* C-side type of each shape (as documented; `as implemented` where the README is silent) *)
CRecv(r) == CASE r = "ref" -> "&CGlueC" [] r = "mut" -> "&mutCGlueC" [] r = "own" -> "CGlueC"
              [] r = "pinref" -> "Pin<&CGlueC>" [] OTHER -> "Pin<&mutCGlueC>"
CArg(a) ==
  CASE a = "none" -> <<>> [] a = "i64" -> <<"i64">> [] a = "cstruct" -> <<"Pt">>
    [] a = "ref" -> <<"&u64">> [] a = "mutref" -> <<"&mutu64">>
    [] a = "slice" -> <<"CSliceRef<u8>">> [] a = "mutslice" -> <<"CSliceMut<u8>">> [] a = "str" -> <<"CSliceRef<u8>">>
    [] a \in {"opt", "optabs", "optstd"} -> <<"COption<u64>">> [] a = "optnpo" -> <<"Option<&u64>">>
    \* a raw pointer has no niche: Option<*const T> is not null-pointer-optimised and must be wrapped
    [] a = "optptr" -> <<"COption<*constu8>">>
    [] a = "optmut" -> <<"Option<&mutu64>">> [] a = "slice64" -> <<"CSliceRef<u64>">> [] a = "mutslice64" -> <<"CSliceMut<u64>">> [] a = "slicezst" -> <<"CSliceRef<()>">>
    [] a = "optstruct" -> <<"COption<Pt>">> [] a = "rawptr" -> <<"*constu8">>
    [] a \in {"result", "resabs"} -> <<"CResult<u64,u64>">> [] a = "into" -> <<"u64">>
    [] a = "aval" -> <<"CGlueAItem">> [] a = "aref" -> <<"&CGlueAItem">> [] a = "aslice" -> <<"CSliceRef<CGlueAItem>">>
    [] a = "aopt" -> <<"COption<CGlueAItem>">> [] a = "ares" -> <<"CResult<CGlueAItem,u64>">>
    [] a = "callback" -> <<"OpaqueCallback<u64>">> [] OTHER -> <<"CIterator<u64>">>   \* iter, iterq
(* return type and trailing output parameter *)
CRet(t, ir) ==
  CASE t = "unit" -> [ret |-> "()", out |-> <<>>] [] t = "i64" -> [ret |-> "i64", out |-> <<>>]
    [] t = "cstruct" -> [ret |-> "Pt", out |-> <<>>]
    [] t = "slice" -> [ret |-> "CSliceRef<u8>", out |-> <<>>] [] t = "mutslice" -> [ret |-> "CSliceMut<u8>", out |-> <<>>]
    [] t = "str" -> [ret |-> "CSliceRef<u8>", out |-> <<>>]
    [] t \in {"opt", "optabs"} -> [ret |-> "COption<u64>", out |-> <<>>] [] t = "optnpo" -> [ret |-> "Option<&u64>", out |-> <<>>]
    [] t = "optptr" -> [ret |-> "COption<*constu8>", out |-> <<>>]
    [] t = "refret" -> [ret |-> "&u64", out |-> <<>>] [] t = "mutrefret" -> [ret |-> "&mutu64", out |-> <<>>]
    [] t = "optstruct" -> [ret |-> "COption<Pt>", out |-> <<>>]
    [] t \in {"result", "resabs"} -> IF ir THEN [ret |-> "i32", out |-> <<"&mutMaybeUninit<u64>">>] ELSE [ret |-> "CResult<u64,()>", out |-> <<>>]
    [] t = "resunit" -> IF ir THEN [ret |-> "i32", out |-> <<>>] ELSE [ret |-> "CResult<(),()>", out |-> <<>>]
    \* std::io::Error (not C-representable itself: only as an integer code) with a negative raw OS code
    [] t = "resio" -> [ret |-> "i32", out |-> <<"&mutMaybeUninit<u64>">>]
    [] t = "res1" -> [ret |-> "i32", out |-> <<"&mutMaybeUninit<u64>">>]
    \* a user error type whose integer codes are negative (errno style)
    [] OTHER -> IF ir THEN [ret |-> "i32", out |-> <<"&mutMaybeUninit<u64>">>] ELSE [ret |-> "CResult<u64,NegErr>", out |-> <<>>]

(* C-representable by the compiler's rules: every type the model predicts is one of these *)
FfiSafeTypes == {"i64", "i32", "()", "Pt", "&u64", "&mutu64", "CSliceRef<u8>", "CSliceMut<u8>", "COption<u64>", "COption<*constu8>",
                 "Option<&mutu64>", "CSliceRef<u64>", "CSliceMut<u64>", "CSliceRef<()>", "COption<Pt>", "*constu8",
                 "Option<&u64>", "CResult<u64,u64>", "CResult<u64,()>", "CResult<(),()>", "CResult<u64,NegErr>", "u64",
                 "OpaqueCallback<u64>", "CIterator<u64>", "&mutMaybeUninit<u64>",
                 \* a type parameter is as C-representable as what it is instantiated with (here: u64)
                 "CGlueAItem", "&CGlueAItem", "CSliceRef<CGlueAItem>", "COption<CGlueAItem>", "CResult<CGlueAItem,u64>",
                 "&CGlueC", "&mutCGlueC", "CGlueC", "Pin<&CGlueC>", "Pin<&mutCGlueC>"}

Borrowing(t) == t \in {"slice", "str", "optnpo", "mutslice", "refret", "mutrefret"}
(* argument shapes that carry an (elided) lifetime of their own *)
ArgBorrows(a) == a \in {"ref", "mutref", "slice", "mutslice", "str", "optnpo", "optmut", "slice64", "mutslice64", "slicezst", "callback", "iter", "iterq", "aref", "aslice"}
Supported(r, a, t) ==
  /\ (Borrowing(t) => r # "own")               \* nothing to borrow from a consumed receiver
  /\ (t \in {"mutslice", "mutrefret"} => r \in {"mut", "pinmut"})
  \* as implemented: the generated extern "C" wrapper has no `self`, so a borrowed return next to a
  \* borrowed argument needs explicit lifetimes in the trait (elision is ambiguous): outside the grammar
  /\ (Borrowing(t) => ~ArgBorrows(a))
  \* as implemented: with an unwrapped associated type in the argument list the generated wrapper is generic over
  \* CGlueAItem without a `CGlueAItem: 'a` bound, so a return borrowed from `self` does not compile (E0311): outside the grammar
  /\ (Borrowing(t) => a \notin {"aval", "aref", "aslice", "aopt", "ares"})

Defs == {[recv |-> r, arg |-> a, ret |-> t, ir |-> ir] :
           r \in Recvs, a \in ArgShapes, t \in RetShapes, ir \in BOOLEAN}
Valid(d) == /\ Supported(d.recv, d.arg, d.ret)
            /\ (d.ir => d.ret \in {"result", "resunit", "resneg", "resio", "resabs", "res1"})
            /\ (d.ret \in {"resio", "res1"} => d.ir)

CSig(d) == [params |-> <<CRecv(d.recv)>> \o CArg(d.arg) \o CRet(d.ret, d.ir).out, ret |-> CRet(d.ret, d.ir).ret]

(* the design claim of C03 over the whole grammar *)
AllFfiSafe == \A d \in {x \in Defs : Valid(x)} :
                 /\ CSig(d).ret \in FfiSafeTypes
                 /\ \A k \in 1..Len(CSig(d).params) : CSig(d).params[k] \in FfiSafeTypes
ASSUME AllFfiSafe

CONSTANT Mode   \* "full" | "pairs": every receiver x (every argument with an i64 return + every return with an i64 argument)
Selected == IF Mode = "full" THEN {d \in Defs : Valid(d)}
            ELSE {d \in Defs : Valid(d) /\ (\/ d.arg = "i64" \/ d.ret = "i64" \/ (d.arg = "none" /\ d.recv = "ref")
                                             \* every argument shape also on a method that uses integer result codes
                                             \/ (d.ir /\ d.ret = "result" /\ d.recv \in {"ref", "mut"}))}

VARIABLE todo
Init == todo = Selected
Next == todo # {} /\ \E d \in todo : todo' = todo \ {d}
Stutter == UNCHANGED todo
Spec == Init /\ [][Next]_todo
(* printed once, from the initial state *)
Emit == (todo = Selected) => PrintT(<<"REPLAY", ToJson([defs |-> {[d |-> d, sig |-> CSig(d)] : d \in Selected}])>>)
=============================================================================
