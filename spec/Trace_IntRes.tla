----------------------------- MODULE Trace_IntRes -----------------------------
EXTENDS IntRes, Json, IOUtils, TLC
Rec == ndJsonDeserialize(IOEnv.TRACE)
VARIABLE l
TraceInit == Init /\ l = 1
Reset == /\ slot' = [written |-> 0, val |-> 0] /\ code' = 0 /\ decoded' = NoRes /\ reads' = 0
         /\ pdrops' = [i \in 1..MaxId |-> 0] /\ phase' = "idle"
TraceNext ==
  /\ l <= Len(Rec)
  /\ l' = l + 1
  /\ LET e == Rec[l] IN
       IF e.op = "reset" THEN Reset
       ELSE IF e.op = "quiescent" THEN e.ok /\ UNCHANGED vars
       ELSE Do(e) /\ Proj' = e.proj
TraceSpec == TraceInit /\ [][TraceNext]_<<vars, l>>
TraceAccepted ==
  LET d == TLCGet("stats").diameter IN
  IF d - 1 = Len(Rec) THEN TRUE ELSE Print(<<"TRACE-REJECTED line", d, Rec[d]>>, FALSE)
=============================================================================
