------------------------------ MODULE Gen_CVec ------------------------------
(* Behaviour generator: every behaviour of MC_CVec of length Depth, printed  *)
(* as one JSON line with the observation the spec predicts after each step.  *)
EXTENDS MC_CVec, Json

CONSTANT Depth
VARIABLE hist

GenInit == Init /\ hist = <<>>
GenNext == /\ Len(hist) < Depth
           /\ \E a \in Actions : Do(a) /\ hist' = Append(hist, [a |-> a, exp |-> Proj'])
GenSpec == GenInit /\ [][GenNext]_<<vars, hist>>

Emit == Len(hist) = Depth => PrintT(<<"REPLAY", ToJson(hist)>>)
=============================================================================
