---- MODULE MC_Modules_TTrace_1791010997 ----
EXTENDS Sequences, TLCExt, Toolbox, Naturals, TLC, MC_Modules

_expression ==
    LET MC_Modules_TEExpression == INSTANCE MC_Modules_TEExpression
    IN MC_Modules_TEExpression!expression
----

_trace ==
    LET MC_Modules_TETrace == INSTANCE MC_Modules_TETrace
    IN MC_Modules_TETrace!trace
----

_inv ==
    ~(
        TLCGet("level") = Len(_TETrace)
        /\
        live = (<<{}, {}>>)
        /\
        foreign = (1)
        /\
        base = (<<{}, {}>>)
    )
----

_init ==
    /\ live = _TETrace[1].live
    /\ foreign = _TETrace[1].foreign
    /\ base = _TETrace[1].base
----

_next ==
    /\ \E i,j \in DOMAIN _TETrace:
        /\ \/ /\ j = i + 1
              /\ i = TLCGet("level")
        /\ live  = _TETrace[i].live
        /\ live' = _TETrace[j].live
        /\ foreign  = _TETrace[i].foreign
        /\ foreign' = _TETrace[j].foreign
        /\ base  = _TETrace[i].base
        /\ base' = _TETrace[j].base

\* Uncomment the ASSUME below to write the states of the error trace
\* to the given file in Json format. Note that you can pass any tuple
\* to `JsonSerialize`. For example, a sub-sequence of _TETrace.
    \* ASSUME
    \*     LET J == INSTANCE Json
    \*         IN J!JsonSerialize("MC_Modules_TTrace_1791010997.json", _TETrace)

=============================================================================

 Note that you can extract this module `MC_Modules_TEExpression`
  to a dedicated file to reuse `expression` (the module in the 
  dedicated `MC_Modules_TEExpression.tla` file takes precedence 
  over the module `MC_Modules_TEExpression` below).

---- MODULE MC_Modules_TEExpression ----
EXTENDS Sequences, TLCExt, Toolbox, Naturals, TLC, MC_Modules

expression == 
    [
        \* To hide variables of the `MC_Modules` spec from the error trace,
        \* remove the variables below.  The trace will be written in the order
        \* of the fields of this record.
        live |-> live
        ,foreign |-> foreign
        ,base |-> base
        
        \* Put additional constant-, state-, and action-level expressions here:
        \* ,_stateNumber |-> _TEPosition
        \* ,_liveUnchanged |-> live = live'
        
        \* Format the `live` variable as Json value.
        \* ,_liveJson |->
        \*     LET J == INSTANCE Json
        \*     IN J!ToJson(live)
        
        \* Lastly, you may build expressions over arbitrary sets of states by
        \* leveraging the _TETrace operator.  For example, this is how to
        \* count the number of times a spec variable changed up to the current
        \* state in the trace.
        \* ,_liveModCount |->
        \*     LET F[s \in DOMAIN _TETrace] ==
        \*         IF s = 1 THEN 0
        \*         ELSE IF _TETrace[s].live # _TETrace[s-1].live
        \*             THEN 1 + F[s-1] ELSE F[s-1]
        \*     IN F[_TEPosition - 1]
    ]

=============================================================================



Parsing and semantic processing can take forever if the trace below is long.
 In this case, it is advised to uncomment the module below to deserialize the
 trace from a generated binary file.

\*
\*---- MODULE MC_Modules_TETrace ----
\*EXTENDS IOUtils, TLC, MC_Modules
\*
\*trace == IODeserialize("MC_Modules_TTrace_1791010997.bin", TRUE)
\*
\*=============================================================================
\*

---- MODULE MC_Modules_TETrace ----
EXTENDS TLC, MC_Modules

trace == 
    <<
    ([live |-> <<{}, {}>>,foreign |-> 0,base |-> <<{}, {}>>]),
    ([live |-> <<{[b |-> 1, size |-> 1]}, {}>>,foreign |-> 0,base |-> <<{}, {}>>]),
    ([live |-> <<{}, {}>>,foreign |-> 1,base |-> <<{}, {}>>])
    >>
----


=============================================================================

---- CONFIG MC_Modules_TTrace_1791010997 ----
CONSTANTS
    Module = { 1 , 2 }
    Block = { 1 , 2 , 3 }
    Size = { 1 , 2 }
    Deviations = { "foreign_free" }

INVARIANT
    _inv

CHECK_DEADLOCK
    \* CHECK_DEADLOCK off because of PROPERTY or INVARIANT above.
    FALSE

INIT
    _init

NEXT
    _next

CONSTANT
    _TETrace <- _trace

ALIAS
    _expression
=============================================================================
\* Generated on Sat Oct 03 07:03:18 UTC 2026