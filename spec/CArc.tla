------------------------------- MODULE CArc -------------------------------
(***************************************************************************)
(* cglue::arc::{CArc, CArcSome} as an abstract machine (property C10, the   *)
(* context part of C05/C07/C16).                                            *)
(*                                                                          *)
(* A pool of handle slots refers to reference-counted allocations.  Each    *)
(* slot holds one of the handle flavours the library converts between:      *)
(*   "CArc"      CArc<T>            (a = 0: the empty CArc)                  *)
(*   "Some"      CArcSome<T>                                                 *)
(*   "OCArc"     CArc<c_void>       (after into_opaque; a = 0: empty)        *)
(*   "OSome"     CArcSome<c_void>                                            *)
(*   "Opt"       Option<CArcSome<T>> (a = 0: None)                           *)
(*   "Arc"       std::sync::Arc<T>  (result of into_arc)                     *)
(* Every slot is owned by a thread; an action is executed by the owner of   *)
(* the slots it touches, so TLC's interleavings are the interleavings of    *)
(* operations issued concurrently from several threads.  `keep[a]` is a     *)
(* std Arc retained by the environment (that is how the real strong count   *)
(* is observed).  `calls[a]` counts executions of the clone / drop          *)
(* functions stored in the handles of allocation a ("functions of the       *)
(* module that created the allocation", arc.rs:243-250).                    *)
(*                                                                          *)
(* Allocations made by FOREIGN code (a C or C++ host, another module with    *)
(* its own reference-counting scheme): the three-word handle is all cglue    *)
(* knows.  Such a clone function may hand out a NEW handle object per clone  *)
(* over one shared count (the handle the clone must hold is the one the      *)
(* function RETURNED, and that one is what its drop function must be given), *)
(* where the functions cglue itself stores return their argument.  `h` in a  *)
(* slot names the handle object it holds (0: none / a native allocation),    *)
(* hrel[h] counts how often handle object h was given to the drop function.  *)
(***************************************************************************)
EXTENDS Naturals, Sequences, FiniteSets

CONSTANTS Slot, Alloc, Thread

Kinds == {"CArc", "Some", "OCArc", "OSome", "Opt", "Arc"}
MayBeEmpty == {"CArc", "OCArc", "Opt"}

VARIABLES slot,    \* [Slot -> [kind : Kinds \cup {"free"}, a : Alloc \cup {0}, own : Thread, h : Nat]]
          strong,  \* [Alloc -> Nat]  strong count of the allocation
          made,    \* [Alloc -> BOOLEAN]
          keep,    \* [Alloc -> BOOLEAN]  environment retains a std Arc
          vdrops,  \* [Alloc -> Nat]  how often the shared value's destructor ran
          calls,   \* [Alloc -> [clone : Nat, drop : Nat]] stored-function executions
          foreign, \* [Alloc -> BOOLEAN]  made by foreign code: one handle object per clone
          hrel     \* Seq(Nat): per foreign handle object, how often it was released

vars == <<slot, strong, made, keep, vdrops, calls, foreign, hrel>>

Free(t) == [kind |-> "free", a |-> 0, own |-> t, h |-> 0]
IsFree(s) == slot[s].kind = "free"
Owns(t, s) == slot[s].own = t /\ ~IsFree(s)
PutH(s, k, a, t, h) == [slot EXCEPT ![s] = [kind |-> k, a |-> a, own |-> t, h |-> h]]
Put(s, k, a, t) == PutH(s, k, a, t, 0)
Holders(a) == {s \in Slot : ~IsFree(s) /\ slot[s].a = a}

Init ==
  /\ slot = [s \in Slot |-> Free(CHOOSE t \in Thread : TRUE)]
  /\ strong = [a \in Alloc |-> 0]
  /\ made = [a \in Alloc |-> FALSE]
  /\ keep = [a \in Alloc |-> FALSE]
  /\ vdrops = [a \in Alloc |-> 0]
  /\ calls = [a \in Alloc |-> [clone |-> 0, drop |-> 0]]
  /\ foreign = [a \in Alloc |-> FALSE]
  /\ hrel = <<>>

(* releasing one strong reference; the value dies with the last one *)
Release(a) ==
  /\ strong' = [strong EXCEPT ![a] = @ - 1]
  /\ vdrops' = IF strong[a] = 1 THEN [vdrops EXCEPT ![a] = @ + 1] ELSE vdrops

(* From<T> for CArc / CArcSome (arc.rs:114-118, 262-266): Arc::new + into_raw *)
FromValue(t, s, a, k) ==
  /\ IsFree(s) /\ ~made[a] /\ k \in {"CArc", "Some"}
  /\ slot' = Put(s, k, a, t)
  /\ made' = [made EXCEPT ![a] = TRUE]
  /\ strong' = [strong EXCEPT ![a] = 1]
  /\ UNCHANGED <<keep, vdrops, calls, foreign, hrel>>

(* a handle filled in by foreign code through the published layout {instance, clone_fn, drop_fn}: the first handle *)
(* object of a new foreign allocation                                                                              *)
FromForeign(t, s, a, k) ==
  /\ IsFree(s) /\ ~made[a] /\ k \in {"CArc", "Some"}
  /\ slot' = PutH(s, k, a, t, Len(hrel) + 1)
  /\ hrel' = Append(hrel, 0)
  /\ made' = [made EXCEPT ![a] = TRUE]
  /\ foreign' = [foreign EXCEPT ![a] = TRUE]
  /\ strong' = [strong EXCEPT ![a] = 1]
  /\ UNCHANGED <<keep, vdrops, calls>>

(* the environment creates a std Arc and keeps it *)
EnvNewArc(a) ==
  /\ ~made[a]
  /\ made' = [made EXCEPT ![a] = TRUE]
  /\ keep' = [keep EXCEPT ![a] = TRUE]
  /\ strong' = [strong EXCEPT ![a] = 1]
  /\ UNCHANGED <<slot, vdrops, calls, foreign, hrel>>

(* From<Arc<T>> / From<Option<Arc<T>>> on a clone of the retained Arc (arc.rs:120-137, 268-276) *)
FromArc(t, s, a, k) ==
  /\ IsFree(s) /\ keep[a] /\ k \in {"CArc", "Some"}
  /\ slot' = Put(s, k, a, t)
  /\ strong' = [strong EXCEPT ![a] = @ + 1]
  /\ UNCHANGED <<made, keep, vdrops, calls, foreign, hrel>>

(* CArc::default() and CArc::from(None::<Arc<T>>) *)
MakeEmpty(t, s) ==
  /\ IsFree(s)
  /\ slot' = Put(s, "CArc", 0, t)
  /\ UNCHANGED <<strong, made, keep, vdrops, calls, foreign, hrel>>

(* the environment drops its retained Arc *)
EnvDropArc(a) ==
  /\ keep[a]
  /\ keep' = [keep EXCEPT ![a] = FALSE]
  /\ Release(a)
  /\ UNCHANGED <<slot, made, calls, foreign, hrel>>

(* Clone (arc.rs:26-33, 278-285): an empty CArc clones to empty without any call; *)
(* otherwise the stored clone function runs once and the count goes up by one.    *)
(* The clone holds the handle the function returned: for a foreign allocation a    *)
(* fresh handle object, never the source's.                                        *)
Clone(t, s, d) ==
  /\ Owns(t, s) /\ IsFree(d) /\ slot[s].kind \in {"CArc", "Some", "OCArc", "OSome"}
  /\ IF slot[s].a = 0
       THEN /\ slot' = Put(d, slot[s].kind, 0, t)
            /\ UNCHANGED <<strong, calls, hrel>>
       ELSE /\ strong' = [strong EXCEPT ![slot[s].a] = @ + 1]
            /\ calls' = [calls EXCEPT ![slot[s].a].clone = @ + 1]
            /\ IF foreign[slot[s].a]
                 THEN /\ slot' = PutH(d, slot[s].kind, slot[s].a, t, Len(hrel) + 1)
                      /\ hrel' = Append(hrel, 0)
                 ELSE /\ slot' = Put(d, slot[s].kind, slot[s].a, t)
                      /\ UNCHANGED hrel
  /\ UNCHANGED <<made, keep, vdrops, foreign>>

(* take (arc.rs:61-67): moves the resources out, leaves the empty CArc *)
Take(t, s, d) ==
  /\ Owns(t, s) /\ IsFree(d) /\ slot[s].kind \in {"CArc", "OCArc"}
  /\ slot' = [slot EXCEPT ![d] = [kind |-> slot[s].kind, a |-> slot[s].a, own |-> t, h |-> slot[s].h],
                          ![s] = [kind |-> slot[s].kind, a |-> 0, own |-> t, h |-> 0]]
  /\ UNCHANGED <<strong, made, keep, vdrops, calls, foreign, hrel>>

(* pure re-labelling conversions: no count changes, no calls                  *)
(*  CArc -> Option<CArcSome> (transpose, arc.rs:84-86,159-176)               *)
(*  CArcSome -> CArc (transpose, arc.rs:246-248)                              *)
(*  Option<CArcSome> -> CArc (From, arc.rs:89-105)                            *)
(*  into_opaque on CArc / CArcSome (arc.rs:178-180, 299-301)                  *)
Convert(t, s, to) ==
  /\ Owns(t, s)
  /\ \/ slot[s].kind = "CArc" /\ to \in {"Opt", "OCArc"}
     \/ slot[s].kind = "Some" /\ to \in {"CArc", "OSome"}
     \/ slot[s].kind = "Opt"  /\ to = "CArc"
  /\ slot' = [slot EXCEPT ![s].kind = to]
  /\ UNCHANGED <<strong, made, keep, vdrops, calls, foreign, hrel>>

(* unwrap a Some(..) option into the CArcSome it holds *)
Unwrap(t, s) ==
  /\ Owns(t, s) /\ slot[s].kind = "Opt" /\ slot[s].a # 0
  /\ slot' = [slot EXCEPT ![s].kind = "Some"]
  /\ UNCHANGED <<strong, made, keep, vdrops, calls, foreign, hrel>>

(* into_arc (arc.rs:255-259): forget the handle, rebuild the std Arc: no call, no count change. *)
(* Its safety contract: only for an allocation this module's Arc made - never a foreign one.    *)
IntoArc(t, s) ==
  /\ Owns(t, s) /\ slot[s].kind = "Some" /\ ~foreign[slot[s].a]
  /\ slot' = [slot EXCEPT ![s].kind = "Arc"]
  /\ UNCHANGED <<strong, made, keep, vdrops, calls, foreign, hrel>>

(* Drop (arc.rs:35-41, 287-293): empty handles are a no-op; otherwise the stored   *)
(* drop function runs once (std Arc: the std destructor) and one reference goes.   *)
Drop(t, s) ==
  /\ Owns(t, s)
  /\ slot' = [slot EXCEPT ![s] = Free(t)]
  /\ IF slot[s].a = 0
       THEN UNCHANGED <<strong, vdrops, calls>>
       ELSE /\ Release(slot[s].a)
            /\ calls' = IF slot[s].kind = "Arc" THEN calls
                        ELSE [calls EXCEPT ![slot[s].a].drop = @ + 1]
  /\ hrel' = IF slot[s].h = 0 THEN hrel ELSE [hrel EXCEPT ![slot[s].h] = @ + 1]
  /\ UNCHANGED <<made, keep, foreign>>

(* hand a handle to another thread (CArc<T: Send + Sync> is Send) *)
Give(t, s, u) ==
  /\ Owns(t, s) /\ u # t
  /\ slot' = [slot EXCEPT ![s].own = u]
  /\ UNCHANGED <<strong, made, keep, vdrops, calls, foreign, hrel>>

Do(e) ==
  \/ e.op = "FromValue"  /\ FromValue(e.t, e.s, e.a, e.k)
  \/ e.op = "FromForeign" /\ FromForeign(e.t, e.s, e.a, e.k)
  \/ e.op = "EnvNewArc"  /\ EnvNewArc(e.a)
  \/ e.op = "FromArc"    /\ FromArc(e.t, e.s, e.a, e.k)
  \/ e.op = "MakeEmpty"  /\ MakeEmpty(e.t, e.s)
  \/ e.op = "EnvDropArc" /\ EnvDropArc(e.a)
  \/ e.op = "Clone"      /\ Clone(e.t, e.s, e.d)
  \/ e.op = "Take"       /\ Take(e.t, e.s, e.d)
  \/ e.op = "Convert"    /\ Convert(e.t, e.s, e.to)
  \/ e.op = "Unwrap"     /\ Unwrap(e.t, e.s)
  \/ e.op = "IntoArc"    /\ IntoArc(e.t, e.s)
  \/ e.op = "Drop"       /\ Drop(e.t, e.s)
  \/ e.op = "Give"       /\ Give(e.t, e.s, e.u)

(***************************************************************************)
(* Observation: flavour and target of every slot (the target is read by     *)
(* dereferencing the real handle) and the handle object it holds, the real  *)
(* strong count where the environment can read it (a retained std Arc; the  *)
(* foreign side's own count), destructor counts, stored-function call       *)
(* counts, release counts of the foreign handle objects.                    *)
(***************************************************************************)
Proj ==
  [ slots  |-> [s \in Slot |-> <<slot[s].kind, slot[s].a, slot[s].h>>],
    strong |-> [a \in Alloc |-> IF keep[a] \/ foreign[a] THEN strong[a] ELSE 0],
    hrel   |-> hrel,
    vdrops |-> [a \in Alloc |-> vdrops[a]],
    calls  |-> [a \in Alloc |-> <<calls[a].clone, calls[a].drop>>] ]

(***************************************************************************)
(* Properties (C10)                                                        *)
(***************************************************************************)
TypeOK ==
  /\ \A s \in Slot : /\ slot[s].kind \in Kinds \cup {"free"}
                     /\ slot[s].a \in Alloc \cup {0}
                     /\ slot[s].own \in Thread
                     /\ slot[s].h \in 0..Len(hrel)
                     /\ (slot[s].h # 0) <=> (slot[s].a # 0 /\ foreign[slot[s].a])
                     /\ (slot[s].a = 0 => slot[s].kind \in MayBeEmpty \cup {"free"})
  /\ \A a \in Alloc : strong[a] \in Nat /\ vdrops[a] \in Nat

(* the strong count equals the number of live handles (plus the retained Arc) *)
StrongExact ==
  \A a \in Alloc : strong[a] = Cardinality(Holders(a)) + (IF keep[a] THEN 1 ELSE 0)

(* the shared value is dropped exactly when the last handle goes away *)
DroppedIffUnreferenced ==
  \A a \in Alloc : /\ vdrops[a] <= 1
                   /\ (vdrops[a] = 1) <=> (made[a] /\ strong[a] = 0)

(* nobody holds a dead allocation *)
NoDangling == \A a \in Alloc : vdrops[a] > 0 => Holders(a) = {}

(* foreign handle objects: each is given to the drop function at most once, is live exactly while one slot holds it, *)
(* and no two slots hold the same one                                                                               *)
HandleOnce == \A h \in DOMAIN hrel : hrel[h] <= 1
HandleHeld == \A h \in DOMAIN hrel : (hrel[h] = 0) <=> (\E s \in Slot : ~IsFree(s) /\ slot[s].h = h)
HandleNoAlias == \A s1, s2 \in Slot : (s1 # s2 /\ slot[s1].h # 0) => slot[s1].h # slot[s2].h

=============================================================================
