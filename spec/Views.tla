------------------------------- MODULE Views -------------------------------
(***************************************************************************)
(* cglue::slice (CSliceRef / CSliceMut) and cglue::{option,result,tuple}    *)
(* (property C12).                                                          *)
(*                                                                          *)
(* Slices: a buffer `mem` of n elements; a view is (off, len, mutable) over *)
(* it.  Every conversion between Rust slices and the C views must be the    *)
(* identity on (address, length, contents); a write through a mutable view  *)
(* must land in the buffer.                                                 *)
(* Variants: a cell holds an Option / Result / tuple of payload identities  *)
(* in its Rust or C form; conversions keep variant and payload; payloads    *)
(* are destroyed only when the cell is.                                     *)
(***************************************************************************)
EXTENDS Naturals, Sequences, FiniteSets

CONSTANTS MaxId

VARIABLES mem,     \* Seq(Nat): the caller's buffer
          view,    \* [off, len, mut, form]  form: "rust" | "c" | "none"
          cell,    \* [shape : "none"|"opt"|"res"|"tup", form : "rust"|"c", tag : Nat, ids : Seq(Id)]
          drops,   \* [1..MaxId -> Nat]
          nextId,
          last

vars == <<mem, view, cell, drops, nextId, last>>

NoView == [off |-> 0, len |-> 0, mut |-> FALSE, form |-> "none"]
NoCell == [shape |-> "none", form |-> "rust", tag |-> 0, ids |-> <<>>]
L(k) == [kind |-> k, n |-> 0]
Bump(f, S) == [i \in DOMAIN f |-> IF i \in S THEN f[i] + 1 ELSE f[i]]
Range(s) == {s[k] : k \in DOMAIN s}

Init == /\ mem = <<>> /\ view = NoView /\ cell = NoCell
        /\ drops = [i \in 1..MaxId |-> 0] /\ nextId = 1 /\ last = L("init")

(* ---- slices ---- *)
NewBuf(n) == /\ mem' = [k \in 1..n |-> 10 + k] /\ view' = NoView
             /\ UNCHANGED <<cell, drops, nextId>> /\ last' = L("ok")

(* take &buf[off..off+len] (or &mut) and convert it into CSliceRef / CSliceMut:     *)
(* From<&[T]>, from_slice, From<&mut [T]> (slice.rs:81-117, 224-232)                 *)
MakeView(off, len, mut) ==
  /\ off + len <= Len(mem)
  /\ view' = [off |-> off, len |-> len, mut |-> mut, form |-> "c"]
  /\ UNCHANGED <<mem, cell, drops, nextId>> /\ last' = L("ok")

(* conversions that must not change (address, length): as_slice, Deref, From<CSlice> for  *)
(* &[T], &CSliceMut -> CSliceRef, &mut CSliceMut -> CSliceMut (reborrow), as_slice_mut,   *)
(* and back into the C form                                                               *)
KeepHows == {"reborrow_keep", "ref_keep", "as_slice_keep", "as_slice_mut_keep"}
Convert(how) ==
  /\ view.form # "none"
  /\ how \in {"as_slice", "deref", "into_slice", "to_c", "mut_to_ref", "reborrow", "as_slice_mut", "into_mut_slice"} \cup KeepHows
  /\ (how \in {"as_slice", "deref", "into_slice", "mut_to_ref", "reborrow", "as_slice_mut", "into_mut_slice"} \cup KeepHows => view.form = "c")
  /\ (how = "to_c" => view.form = "rust")
  /\ (how \in {"mut_to_ref", "reborrow", "as_slice_mut", "into_mut_slice", "reborrow_keep", "as_slice_mut_keep"} => view.mut)
  \* the borrowing conversions (&CSliceMut -> CSliceRef, &mut CSliceMut -> CSliceMut, as_slice, as_slice_mut) only BORROW
  \* the view they are applied to: a second view is derived, used and dropped, and the ORIGINAL is what stays - unchanged
  /\ view' = IF how \in KeepHows THEN view
             ELSE [view EXCEPT !.form = IF how \in {"as_slice", "deref", "into_slice", "as_slice_mut", "into_mut_slice"} THEN "rust" ELSE "c",
                               !.mut = IF how = "mut_to_ref" THEN FALSE
                                       ELSE IF how \in {"as_slice", "deref", "into_slice"} THEN FALSE ELSE @]
  /\ UNCHANGED <<mem, cell, drops, nextId>> /\ last' = L("ok")

(* write element k of a mutable view (DerefMut / as_slice_mut): lands in the buffer *)
WriteThrough(k, v) ==
  /\ view.form # "none" /\ view.mut /\ k < view.len
  /\ mem' = [mem EXCEPT ![view.off + k + 1] = v]
  /\ UNCHANGED <<view, cell, drops, nextId>> /\ last' = L("ok")

(* ---- option / result / tuple ---- *)
(* shape "opt": tag 0 = None, 1 = Some(id); "res": tag 0 = Ok(id), 1 = Err(id); "tup": tag = arity *)
(* (the adapter gives the fields of a tuple three different sizes: position k of the C form must hold what position k of   *)
(* the Rust form held, whatever order the compiler chose for the Rust tuple)                                               *)
NewCell(shape, tag) ==
  /\ shape \in {"opt", "res", "tup"}
  /\ LET n == IF shape = "opt" THEN tag ELSE IF shape = "res" THEN 1 ELSE tag IN
       /\ nextId + n - 1 <= MaxId
       /\ cell' = [shape |-> shape, form |-> "rust", tag |-> tag, ids |-> [k \in 1..n |-> nextId + k - 1]]
       /\ nextId' = nextId + n
  /\ drops' = Bump(drops, Range(cell.ids))
  /\ UNCHANGED <<mem, view>> /\ last' = L("ok")

(* From<Option<T>> for COption<T> and back, From<Result> for CResult and back, From<(..)> for CTupN and back *)
Flip ==
  /\ cell.shape # "none"
  /\ cell' = [cell EXCEPT !.form = IF @ = "rust" THEN "c" ELSE "rust"]
  /\ UNCHANGED <<mem, view, drops, nextId>> /\ last' = L("ok")

(* COption::take leaves None and hands the payload out (the caller drops it) *)
TakeOpt ==
  /\ cell.shape = "opt" /\ cell.form = "c"
  /\ cell' = [cell EXCEPT !.tag = 0, !.ids = <<>>]
  /\ drops' = Bump(drops, Range(cell.ids))
  /\ UNCHANGED <<mem, view, nextId>> /\ last' = [kind |-> "took", n |-> cell.tag]

(* CResult::ok (result.rs:74): Ok(v) -> Some(v), Err(e) -> None and e is destroyed; the result is a Rust Option *)
ResOk ==
  /\ cell.shape = "res" /\ cell.form = "c"
  /\ IF cell.tag = 0
       THEN /\ cell' = [shape |-> "opt", form |-> "rust", tag |-> 1, ids |-> cell.ids]
            /\ UNCHANGED drops
       ELSE /\ cell' = [shape |-> "opt", form |-> "rust", tag |-> 0, ids |-> <<>>]
            /\ drops' = Bump(drops, Range(cell.ids))
  /\ UNCHANGED <<mem, view, nextId>> /\ last' = L("ok")

(* COption::as_mut / CResult::as_mut (option.rs:60, result.rs:88): assignment through the mutable reference *)
(* destroys the old payload once and stores the new one; the variant does not change                         *)
ReplaceMut ==
  /\ cell.shape \in {"opt", "res"} /\ cell.form = "c" /\ Len(cell.ids) = 1 /\ nextId <= MaxId
  /\ cell' = [cell EXCEPT !.ids = <<nextId>>]
  /\ nextId' = nextId + 1
  /\ drops' = Bump(drops, Range(cell.ids))
  /\ UNCHANGED <<mem, view>> /\ last' = L("ok")

(* COption::default() is None *)
DefaultOpt ==
  /\ cell' = [shape |-> "opt", form |-> "c", tag |-> 0, ids |-> <<>>]
  /\ drops' = Bump(drops, Range(cell.ids))
  /\ UNCHANGED <<mem, view, nextId>> /\ last' = L("ok")

DropCell ==
  /\ cell.shape # "none"
  /\ drops' = Bump(drops, Range(cell.ids))
  /\ cell' = NoCell
  /\ UNCHANGED <<mem, view, nextId>> /\ last' = L("ok")

Do(e) ==
  \/ e.op = "NewBuf"       /\ NewBuf(e.n)
  \/ e.op = "MakeView"     /\ MakeView(e.off, e.len, e.mut)
  \/ e.op = "Convert"      /\ Convert(e.how)
  \/ e.op = "WriteThrough" /\ WriteThrough(e.k, e.v)
  \/ e.op = "NewCell"      /\ NewCell(e.shape, e.tag)
  \/ e.op = "Flip"         /\ Flip
  \/ e.op = "TakeOpt"      /\ TakeOpt
  \/ e.op = "DropCell"     /\ DropCell
  \/ e.op = "ResOk"        /\ ResOk
  \/ e.op = "ReplaceMut"   /\ ReplaceMut
  \/ e.op = "DefaultOpt"   /\ DefaultOpt

(* observation: buffer contents; the view's offset (address relative to the buffer), length, *)
(* contents as read *through the view*; the cell's variant/payload as read through its current form *)
Proj == [mem |-> mem,
         view |-> [off |-> view.off, len |-> view.len, form |-> view.form, mut |-> view.mut,
                   seen |-> IF view.form = "none" THEN <<>> ELSE SubSeq(mem, view.off + 1, view.off + view.len)],
         cell |-> [shape |-> cell.shape, form |-> cell.form, tag |-> cell.tag, ids |-> cell.ids],
         drops |-> [i \in 1..(nextId - 1) |-> drops[i]], last |-> last]

DropAtMostOnce == \A i \in 1..MaxId : drops[i] <= 1
ExactlyOnce == \A i \in 1..(nextId - 1) : IF i \in Range(cell.ids) THEN drops[i] = 0 ELSE drops[i] = 1
ViewInBounds == view.off + view.len <= Len(mem)
=============================================================================
