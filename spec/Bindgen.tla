------------------------------- MODULE Bindgen -------------------------------
(***************************************************************************)
(* cglue-bindgen: the C-side view of generated wrappers (property C17) and  *)
(* the space of API models whose cbindgen-shaped headers are fed to the     *)
(* real tool (C17, C18).                                                    *)
(*                                                                          *)
(* Part 1 - API models.  A model picks single-trait objects, groups, a      *)
(* tool configuration and whether unrelated user declarations with          *)
(* CGlue-like names are present.  TLC enumerates the bounded space.         *)
(*                                                                          *)
(* Part 2 - the lifecycle of one wrapper invocation as a C caller observes   *)
(* it through mock vtables and mock box/arc functions: which vtable slot     *)
(* ran, with which container and arguments, which context clones and which   *)
(* releases happened, and what came back.                                    *)
(***************************************************************************)
EXTENDS Naturals, Sequences, FiniteSets, TLC, Json

(* ---------------- Part 1: model space ---------------- *)
ObjPool == { [trait |-> "Ta", cont |-> "Box", ctx |-> "Arc"], [trait |-> "Ta", cont |-> "Box", ctx |-> "none"],
             [trait |-> "Tb", cont |-> "Ref", ctx |-> "none"], [trait |-> "Tb", cont |-> "Mut", ctx |-> "Arc"],
             [trait |-> "Tc", cont |-> "Box", ctx |-> "Arc"], [trait |-> "Tc", cont |-> "Mut", ctx |-> "none"],
             [trait |-> "Td", cont |-> "Box", ctx |-> "Arc"], [trait |-> "Td", cont |-> "Ref", ctx |-> "none"],
             [trait |-> "Te", cont |-> "Mut", ctx |-> "none"],
             \* Tf: entries whose result is a pointer (void *, const void *, typed), by reference and consuming
             [trait |-> "Tf", cont |-> "Box", ctx |-> "Arc"], [trait |-> "Tf", cont |-> "Box", ctx |-> "none"] }
GroupPool == { [name |-> "Ga", mand |-> <<"Tb">>, opt |-> <<"Ta">>, insts |-> <<[cont |-> "Box", ctx |-> "Arc"]>>],
               [name |-> "Gb", mand |-> <<"Tc">>, opt |-> <<"Tb">>, insts |-> <<[cont |-> "Mut", ctx |-> "none"], [cont |-> "Ref", ctx |-> "Arc"]>>],
               [name |-> "Gc", mand |-> <<"Tb", "Tc">>, opt |-> <<>>, insts |-> <<[cont |-> "Box", ctx |-> "none"]>>],
               [name |-> "Gd", mand |-> <<"Td">>, opt |-> <<"Tc">>, insts |-> <<[cont |-> "Box", ctx |-> "Arc"], [cont |-> "Box", ctx |-> "none"]>>],
               \* Tb and Tg have two function names in common (f, n0): several clashing functions per member trait
               \* a group whose own name ends in "Container" (its container struct is `StoreContainerContainer_..`)
               [name |-> "StoreContainer", mand |-> <<"Tc">>, opt |-> <<>>, insts |-> <<[cont |-> "Box", ctx |-> "Arc"]>>],
               [name |-> "Ge", mand |-> <<"Tb">>, opt |-> <<"Tg">>, insts |-> <<[cont |-> "Box", ctx |-> "Arc"], [cont |-> "Ref", ctx |-> "none"]>>] }
Cfgs == { [default_container |-> "", default_context |-> "", function_prefix |-> ""],
          [default_container |-> "Box", default_context |-> "Arc", function_prefix |-> ""],
          [default_container |-> "", default_context |-> "", function_prefix |-> "api"],
          [default_container |-> "Mut", default_context |-> "", function_prefix |-> "p"] }
(* ctxgeneric: the header also contains structures that are generic over the context (cbindgen emits   *)
(* `..._Context` for wrapped associated returns); the tool monomorphises them for every context in use *)
Models == { [objects |-> o, groups |-> g, config |-> c, foreign |-> f, ctxgeneric |-> x] :
              o \in {x \in SUBSET ObjPool : Cardinality(x) \in 1..3}, g \in {x \in SUBSET GroupPool : Cardinality(x) <= 2},
              c \in Cfgs, f \in BOOLEAN, x \in BOOLEAN }

(* what the output path holds when the tool starts: nothing, or the header of an earlier run for another (larger or   *)
(* smaller) API.  C18: the header written is a function of input and configuration alone - not of this history.       *)
OutputHistory == {"absent", "longer", "shorter"}

(* ---------------- Part 2: one wrapper invocation ---------------- *)
VARIABLES phase,   \* "idle" | "called"
          cur,     \* the invocation record (what the driver is about to call and expects)
          slots, clones, cdrops, bdrops

ivars == <<phase, cur, slots, clones, cdrops, bdrops>>
NoCall == [k |-> 0]

IInit == phase = "idle" /\ cur = NoCall /\ slots = 0 /\ clones = 0 /\ cdrops = 0 /\ bdrops = 0

(* the driver calls the wrapper that belongs to vtable entry cur.tr.cur.m of object type cur.ty *)
Call(c) == /\ phase = "idle"
           /\ phase' = "called" /\ cur' = c
           /\ slots' = 0 /\ clones' = 0 /\ cdrops' = 0 /\ bdrops' = 0

(* a consuming wrapper clones the context before entering the slot *)
CtxClone(ok) == /\ phase = "called" /\ ok = 1 /\ cur.kind = "consuming" /\ cur.hasArc /\ slots = 0
                /\ clones' = clones + 1 /\ UNCHANGED <<phase, cur, slots, cdrops, bdrops>>

(* the vtable slot runs: the right entry of the right object, the object's container first, then *)
(* the wrapper's own arguments unchanged and in order; a consuming slot must find the guard alive *)
Slot(e) == /\ phase = "called" /\ cur.kind \in {"plain", "consuming"} /\ slots = 0
           /\ e.ty = cur.ty /\ e.tr = cur.tr /\ e.m = cur.m
           /\ e.cont_ok = 1
           /\ e.args = cur.sent
           /\ (cur.kind = "consuming" /\ cur.hasArc => clones = 1 /\ cdrops = 0)
           /\ slots' = 1 /\ UNCHANGED <<phase, cur, clones, cdrops, bdrops>>

BoxDrop(ok) == /\ phase = "called" /\ ok = 1 /\ cur.kind \in {"consuming", "drop"} /\ cur.hasBox
               /\ bdrops' = bdrops + 1 /\ UNCHANGED <<phase, cur, slots, clones, cdrops>>
CtxDrop(ok) == /\ phase = "called" /\ ok = 1 /\ cur.kind \in {"consuming", "drop"} /\ cur.hasArc
               /\ cdrops' = cdrops + 1 /\ UNCHANGED <<phase, cur, slots, clones, bdrops>>

B(x) == IF x THEN 1 ELSE 0
(* the wrapper returns the entry's result; instance and context were released exactly once *)
Ret(k, val) ==
  /\ phase = "called" /\ k = cur.k /\ val = cur.expret
  /\ CASE cur.kind = "plain"     -> slots = 1 /\ clones = 0 /\ cdrops = 0 /\ bdrops = 0
       [] cur.kind = "consuming" -> slots = 1 /\ clones = B(cur.hasArc) /\ cdrops = 2 * B(cur.hasArc) /\ bdrops = B(cur.hasBox)
       [] OTHER                  -> slots = 0 /\ clones = 0 /\ cdrops = B(cur.hasArc) /\ bdrops = B(cur.hasBox)
  /\ phase' = "idle" /\ UNCHANGED <<cur, slots, clones, cdrops, bdrops>>

(* a consuming call never releases more context references than exist: the guard outlives the slot *)
GuardAlive == (phase = "called" /\ cur.kind = "consuming" /\ cur.hasArc /\ slots = 0) => cdrops = 0
=============================================================================
