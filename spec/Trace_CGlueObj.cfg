CONSTANTS
  Handle = {1, 2, 3}
  MaxInst = 16
  Ctx = {1}
  Mod = 61
  Deviations = {}
SPECIFICATION TraceSpec
CONSTRAINT Progress
INVARIANTS DropAtMostOnce NoDangling OwnedExactlyOnce CtxCountExact NoCtxLeak CtxReleasedIffUnreferenced CtxNotEarly CtxAliveInCall
POSTCONDITION TraceAccepted
CHECK_DEADLOCK FALSE
