CONSTANTS
  Slot = {1, 2}
  MaxId = 12
  Depth = 5
SPECIFICATION GenSpec
INVARIANTS Emit DropAtMostOnce ExactlyOnce
CHECK_DEADLOCK FALSE
