CONSTANTS
  MaxId = 6
SPECIFICATION Spec
VIEW View
INVARIANTS DropAtMostOnce ExactlyOnce ViewInBounds SeenIsBuffer
CHECK_DEADLOCK FALSE
