----------------------------- MODULE MC_CString -----------------------------
(* exhaustive model check of CString.tla: every reachable state over inputs with an interior / leading / trailing / missing *)
(* NUL and the empty input, three slots; the generator configurations stop at a fixed depth, this does not                 *)
EXTENDS CString, TLC
Inputs == {<<>>, <<0>>, <<97>>, <<97, 0>>, <<97, 0, 98>>, <<0, 97>>, <<97, 98>>, <<195, 169>>}
LiveS == {s \in Slot : cs[s].live}
DeadS == {s \in Slot : ~cs[s].live}
Actions ==
  {[op |-> "From", s |-> s, how |-> h, input |-> i] : s \in DeadS, h \in {"str", "string", "bytes"}, i \in Inputs}
  \cup {[op |-> "Clone", s |-> s, d |-> d] : s \in LiveS, d \in DeadS}
  \cup {[op |-> "Drop", s |-> s] : s \in LiveS}
  \cup {[op |-> "Read", s |-> s, how |-> h] : s \in LiveS, h \in {"as_ref", "deref", "display", "borrow"}}
  \cup {[op |-> "Eq", s |-> s, t |-> t] : s \in LiveS, t \in LiveS}
  \cup {[op |-> "BorrowCStr", input |-> i] : i \in {r \in Inputs : \A k \in 1..Len(r) : r[k] # 0}}
Next == \E e \in Actions : Do(e)
Spec == Init /\ [][Next]_vars
(* `freed` only grows: not state *)
View == <<cs, nalloc, obs>>
(* what is read back is the input up to its first NUL, and never contains one *)
ReadBackClean == obs.kind \in {"as_ref", "deref", "display", "borrow"} => \A k \in 1..Len(obs.text) : obs.text[k] # 0
(* equal exactly when the texts are equal *)
EqIsTextEq == \A s, t \in LiveS : (cs[s].buf = cs[t].buf) <=> (TextOf(s) = TextOf(t))
=============================================================================
