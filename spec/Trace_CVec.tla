----------------------------- MODULE Trace_CVec -----------------------------
(* Trace validation: events logged by the Rust driver (one per public call   *)
(* on a real CVec, with the projected state after the call) must be a        *)
(* behaviour of CVec.  Every parameter is bound from the log, so the search   *)
(* is linear; every CVec invariant is evaluated in every state.              *)
EXTENDS CVec, Json, IOUtils, TLC

Rec == ndJsonDeserialize(IOEnv.TRACE)

VARIABLE l

TraceInit == Init /\ l = 1

Reset ==
  /\ vec' = [v \in Slot |-> Dead]
  /\ val' = [i \in Id |-> 0]
  /\ drops' = [i \in Id |-> 0]
  /\ nextId' = 1
  /\ last' = L("init")

(* C11: "its buffer is always grown ... through the functions stored in it". *)
(* The driver counts calls of the stored reserve function (interposed through *)
(* the published C layout): whenever the capacity changed, or had to change,  *)
(* that function must have run.  Running it without need is not a violation.  *)
GrewOk(e) ==
  IF e.op \in {"Push", "Insert", "Reserve"}
    THEN LET n == IF e.op = "Reserve" THEN e.n ELSE 1 IN
         (NeedGrow(e.v, n) \/ e.cap # vec[e.v].cap) => e.grew
    ELSE TRUE

TraceNext ==
  /\ l <= Len(Rec)
  /\ l' = l + 1
  /\ LET e == Rec[l] IN
       IF e.op = "reset" THEN Reset
       ELSE IF e.op = "quiescent"
         THEN \* the driver dropped everything: the ledger must balance and every
              \* destructor must have run exactly once (checked on the real process)
              /\ e.ok
              /\ \A v \in Slot : ~vec[v].live
              /\ \A i \in 1..(nextId - 1) : drops[i] = 1
              /\ UNCHANGED vars
       ELSE /\ Do(e)
            /\ GrewOk(e)
            /\ Proj' = e.proj

TraceSpec == TraceInit /\ [][TraceNext]_<<vars, l>>

TraceAccepted ==
  LET d == TLCGet("stats").diameter IN
  IF d - 1 = Len(Rec) THEN TRUE
  ELSE Print(<<"TRACE-REJECTED line", d, Rec[d]>>, FALSE)
=============================================================================
