CONSTANTS
  Slot = {1, 2, 3, 4}
  Alloc = {1, 2}
  MaxH = 3
  Thread = {1, 2}
SPECIFICATION Spec
VIEW View
CONSTRAINT Bounded
INVARIANTS TypeOK StrongExact DroppedIffUnreferenced NoDangling HandleOnce HandleHeld HandleNoAlias
CHECK_DEADLOCK FALSE
