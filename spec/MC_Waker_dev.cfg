CONSTANTS
  FW = {1, 2, 3}
  Rec = {1, 2}
  Thread = {1}
  Orig = {1, 2}
  MaxNest = 1
  Deviations = {"release_per_handle"}
SPECIFICATION Spec
VIEW View
INVARIANTS ReleasedAtMostOnce
CHECK_DEADLOCK FALSE
