----------------------------- MODULE Trace_Boxes -----------------------------
(* impl -> spec: executions of the real CBox / CSliceBox / typed objects, driven at random by `rt boxes trace`, must be     *)
(* behaviours of Boxes.tla.  Destructor runs are observable per payload for heap-owning payloads, as a total for zero-sized *)
(* ones and not at all for plain data (whose blocks the allocator ledger accounts for: the `quiescent` events).             *)
EXTENDS Boxes, Json, IOUtils, TLC
Rec == ndJsonDeserialize(IOEnv.TRACE)
VARIABLES l,
          zids,  \* ids handed to zero-sized payloads
          pids   \* ids handed to plain-data payloads
TraceInit == Init /\ l = 1 /\ zids = {} /\ pids = {}
Reset == /\ bx' = [s \in Slot |-> Free] /\ drops' = [i \in Id |-> 0] /\ nextId' = 1 /\ kept' = {}
         /\ zids' = {} /\ pids' = {}
NewIds == nextId..(nextId' - 1)
PkOf(e) == IF e.op = "New" THEN e.pk ELSE IF e.op = "Write" THEN bx[e.s].pk ELSE "heavy"
Observed(e) ==
  /\ e.proj.slots = Proj'.slots
  /\ e.proj.kept = Proj'.kept
  /\ \A i \in 1..(nextId' - 1) : (i \notin zids' /\ i \notin pids') => e.proj.drops[i] = drops'[i]
  /\ e.proj.zdrops = Cardinality({i \in zids' : drops'[i] = 1})
TraceNext ==
  /\ l <= Len(Rec)
  /\ l' = l + 1
  /\ LET e == Rec[l] IN
       IF e.op = "reset" THEN Reset
       ELSE IF e.op = "quiescent" THEN e.ok /\ UNCHANGED <<vars, zids, pids>>
       ELSE /\ Do(e)
            /\ zids' = IF PkOf(e) = "zst" THEN zids \cup NewIds ELSE zids
            /\ pids' = IF PkOf(e) = "pod" THEN pids \cup NewIds ELSE pids
            /\ Observed(e)
TraceSpec == TraceInit /\ [][TraceNext]_<<vars, l, zids, pids>>
TraceAccepted ==
  LET d == TLCGet("stats").diameter IN
  IF d - 1 = Len(Rec) THEN TRUE ELSE Print(<<"TRACE-REJECTED line", d, Rec[d]>>, FALSE)
=============================================================================
