CONSTANTS
  Handle = {1, 2}
  MaxInst = 4
  Ctx = {1}
  Mod = 61
  Deviations = {"borrowed_child_ctx_leak"}
  Vals = {7}
  Args = {2}
  ObjTraits = {"Ob"}
  Ops = {"EnvRelease", "NewOwned", "Clone", "Consume", "ConsumeEnd", "Drop"}
  PTs = {2}
  Depth = 4
SPECIFICATION GenSpec
INVARIANTS Emit
CHECK_DEADLOCK FALSE
