---------------------------- MODULE Gen_CString ----------------------------
(* Scripted generator: TLC picks a script from Scripts (a set of action      *)
(* sequences built from the enumerated input space) and runs it through Do.  *)
EXTENDS CString, Json, TLC

CONSTANTS MaxChars,   \* inputs are all concatenations of up to MaxChars alphabet members
          Mode        \* "inputs": every input x constructor x fixed script; "ops": op sequences

(* alphabet of whole characters: NUL, 'a', e-acute (2 bytes), euro (3), U+10348 (4) *)
Alphabet == {<<0>>, <<97>>, <<195, 169>>, <<226, 130, 172>>, <<240, 144, 141, 136>>}

RECURSIVE Words(_)
Words(n) == IF n = 0 THEN {<<>>} ELSE LET W == Words(n - 1) IN W \cup {w \o a : w \in W, a \in Alphabet}
Inputs == Words(MaxChars)

VARIABLES script, hist

ScriptFor(inp, how) ==
  << [op |-> "From", s |-> 1, how |-> how, input |-> inp],
     [op |-> "Read", s |-> 1, how |-> "as_ref"],
     [op |-> "Read", s |-> 1, how |-> "deref"],
     [op |-> "Read", s |-> 1, how |-> "display"],
     [op |-> "Read", s |-> 1, how |-> "borrow"],
     [op |-> "Clone", s |-> 1, d |-> 2],
     [op |-> "Eq", s |-> 1, t |-> 2],
     [op |-> "Read", s |-> 2, how |-> "as_ref"],
     [op |-> "Drop", s |-> 1],
     [op |-> "Read", s |-> 2, how |-> "as_ref"],
     [op |-> "Drop", s |-> 2] >>

Hows == {"str", "string", "bytes"}

(* representative inputs for the operation-sequence mode *)
Rep == {<<>>, <<97>>, <<97, 0, 97>>, <<195, 169, 226, 130, 172>>, <<0>>, <<97, 97>>}

LiveS == {s \in Slot : cs[s].live}
DeadS == {s \in Slot : ~cs[s].live}
OpActions ==
  {[op |-> "From", s |-> s, how |-> h, input |-> i] : s \in DeadS, h \in Hows, i \in Rep}
  \cup {[op |-> "Clone", s |-> s, d |-> d] : s \in LiveS, d \in DeadS}
  \cup {[op |-> "Drop", s |-> s] : s \in LiveS}
  \cup {[op |-> "Read", s |-> s, how |-> "as_ref"] : s \in LiveS}
  \cup {[op |-> "Eq", s |-> s, t |-> t] : s \in LiveS, t \in LiveS}
  \cup {[op |-> "BorrowCStr", input |-> i] : i \in {r \in Rep : \A k \in 1..Len(r) : r[k] # 0}}

CONSTANT Depth

GenInit ==
  /\ Init /\ hist = <<>>
  /\ IF Mode = "inputs" THEN script \in {ScriptFor(i, h) : i \in Inputs, h \in Hows} ELSE script = <<>>

GenNext ==
  IF Mode = "inputs"
    THEN /\ script # <<>>
         /\ Do(Head(script))
         /\ hist' = Append(hist, [a |-> Head(script), exp |-> Proj'])
         /\ script' = Tail(script)
    ELSE /\ Len(hist) < Depth
         /\ \E e \in OpActions : Do(e) /\ hist' = Append(hist, [a |-> e, exp |-> Proj'])
         /\ UNCHANGED script

GenSpec == GenInit /\ [][GenNext]_<<vars, script, hist>>

Done == IF Mode = "inputs" THEN script = <<>> /\ hist # <<>> ELSE Len(hist) = Depth
Emit == Done => PrintT(<<"REPLAY", ToJson(hist)>>)
=============================================================================
