CONSTANTS
  MaxId = 120
  Lens = {0, 1, 2, 3, 5}
  Stops = {0, 1, 2, 3, 4, 5, 7}
  Depth = 40
SPECIFICATION GenSpec
INVARIANTS Emit
CHECK_DEADLOCK FALSE
