------------------------------ MODULE Gen_Boxes ------------------------------
EXTENDS Boxes, Json, TLC
CONSTANT Depth
VARIABLE hist
Used == {s \in Slot : bx[s].kind # "free"}
FreeS == {s \in Slot : bx[s].kind = "free"}
Actions ==
  {[op |-> "New", s |-> s, kind |-> "cbox", pk |-> pk, n |-> 1, via |-> v] : s \in FreeS, pk \in {"heavy", "zst", "pod"}, v \in {"from_t", "from_box", "from_tuple"}}
  \cup {[op |-> "New", s |-> s, kind |-> "cbox", pk |-> pk, n |-> 1, via |-> v] : s \in FreeS, pk \in {"heavy", "pod"}, v \in {"foreign", "loan"}}
  \cup {[op |-> "EnvRelease"] : x \in {1}}
  \cup {[op |-> "New", s |-> s, kind |-> "sbox", pk |-> pk, n |-> n, via |-> "from_box"] : s \in FreeS, pk \in {"heavy", "zst", "pod"}, n \in {0, 1, 3}}
  \cup {[op |-> "New", s |-> s, kind |-> "obj", pk |-> pk, n |-> 1, via |-> "from_t"] : s \in FreeS, pk \in {"heavy", "zst", "pod"}}
  \cup {[op |-> "IntoOpaque", s |-> s] : s \in Used}
  \cup {[op |-> "IntoInner", s |-> s] : s \in Used}
  \cup UNION {{[op |-> "Write", s |-> s, k |-> k] : k \in 1..Len(bx[s].ids)} : s \in Used}
  \cup {[op |-> "Drop", s |-> s] : s \in Used}
GenInit == Init /\ hist = <<>>
GenNext == /\ Len(hist) < Depth
           /\ \E e \in Actions : Do(e) /\ hist' = Append(hist, [a |-> e, exp |-> Proj'])
GenSpec == GenInit /\ [][GenNext]_<<vars, hist>>
Emit == Len(hist) = Depth => PrintT(<<"REPLAY", ToJson(hist)>>)
=============================================================================
