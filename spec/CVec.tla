------------------------------- MODULE CVec -------------------------------
(***************************************************************************)
(* cglue::vec::CVec<T> as an abstract machine (property C11, and the        *)
(* vector part of C05/C16).                                                 *)
(*                                                                          *)
(* The specification *is* the Vec semantics: a vector is a sequence of      *)
(* element identities.  Every element has an identity (so that double       *)
(* drops, leaks and aliasing are visible), a value (so that clones can be   *)
(* told from moves) and a drop counter.  Capacities are an implementation   *)
(* choice: the spec only states when the stored reserve function must run   *)
(* and what the new capacity must at least be.                              *)
(*                                                                          *)
(* One action per public operation of vec.rs (each is one critical section  *)
(* of a sequential library: the linearization point is the call's return,   *)
(* including the panicking return of an out-of-range insert/remove).        *)
(* Actions are dispatched from *action records* (Do(a)), so that the        *)
(* exhaustive model, the behaviour generator and the trace validator all    *)
(* execute literally the same transition relation.                          *)
(***************************************************************************)
EXTENDS Naturals, Sequences, FiniteSets

CONSTANTS Slot,     \* vector slots (a finite set of small naturals, e.g. 1..2)
          MaxId     \* element identities are 1..MaxId

Id == 1..MaxId

VARIABLES vec,      \* [Slot -> [live : BOOLEAN, elems : Seq(Id), cap : Nat]]
          val,      \* [Id -> Nat]      value carried by an element (0 = not created)
          drops,    \* [Id -> Nat]      how many times the element's destructor ran
          nextId,   \* next fresh identity
          last      \* outcome of the last action [kind: ok|panic|none|ret|init, id]

vars == <<vec, val, drops, nextId, last>>

L(k) == [kind |-> k, id |-> 0]
Dead == [live |-> FALSE, elems |-> <<>>, cap |-> 0]

LenOf(v) == Len(vec[v].elems)
FreshSeq(n) == [k \in 1..n |-> nextId + k - 1]
Bump(f, S) == [i \in DOMAIN f |-> IF i \in S THEN f[i] + 1 ELSE f[i]]
Range(s) == {s[k] : k \in DOMAIN s}

InsertAt(s, k, e) == SubSeq(s, 1, k) \o <<e>> \o SubSeq(s, k + 1, Len(s))   \* k in 0..Len(s)
RemoveAt(s, k)    == SubSeq(s, 1, k) \o SubSeq(s, k + 2, Len(s))            \* k in 0..Len(s)-1 (0-based)

(* What C11 states about capacity: after asking for n more elements the      *)
(* capacity is at least len + n.  *When* the implementation decides to grow   *)
(* (vec.rs:123-127: iff the spare capacity is too small) and by how much is   *)
(* its own business; MC_CVec models that policy, this module does not demand  *)
(* it.  NeedGrow is the situation in which growing is unavoidable.            *)
NeedGrow(v, n) == vec[v].cap - LenOf(v) < n
CapOk(v, n, newcap) == newcap >= LenOf(v) + n

Init ==
  /\ vec = [v \in Slot |-> Dead]
  /\ val = [i \in Id |-> 0]
  /\ drops = [i \in Id |-> 0]
  /\ nextId = 1
  /\ last = L("init")

(* From<Vec<T>> (vec.rs:17-31): takes over buffer, length and capacity.      *)
FromVec(v, n, cap0) ==
  /\ ~vec[v].live
  /\ nextId + n - 1 <= MaxId
  /\ cap0 >= n
  /\ vec' = [vec EXCEPT ![v] = [live |-> TRUE, elems |-> FreshSeq(n), cap |-> cap0]]
  /\ val' = [i \in Id |-> IF i \in nextId..(nextId + n - 1) THEN i ELSE val[i]]
  /\ nextId' = nextId + n
  /\ UNCHANGED drops
  /\ last' = L("ok")

(* push (vec.rs:96-100) = reserve(1); write at len; len += 1                 *)
Push(v, newcap) ==
  /\ vec[v].live
  /\ nextId <= MaxId
  /\ CapOk(v, 1, newcap)
  /\ vec' = [vec EXCEPT ![v].elems = Append(@, nextId), ![v].cap = newcap]
  /\ val' = [val EXCEPT ![nextId] = nextId]
  /\ nextId' = nextId + 1
  /\ UNCHANGED drops
  /\ last' = L("ok")

(* pop (vec.rs:129-136): the element is moved out to the caller, who drops it *)
Pop(v) ==
  /\ vec[v].live
  /\ IF LenOf(v) = 0
       THEN /\ UNCHANGED <<vec, drops>>
            /\ last' = L("none")
       ELSE LET e == vec[v].elems[LenOf(v)] IN
            /\ vec' = [vec EXCEPT ![v].elems = SubSeq(@, 1, Len(@) - 1)]
            /\ drops' = Bump(drops, {e})
            /\ last' = [kind |-> "ret", id |-> e]
  /\ UNCHANGED <<val, nextId>>

(* insert (vec.rs:115-125); k is the 0-based index                           *)
Insert(v, k, newcap) ==
  /\ vec[v].live
  /\ nextId <= MaxId
  /\ k <= LenOf(v)
  /\ CapOk(v, 1, newcap)
  /\ vec' = [vec EXCEPT ![v].elems = InsertAt(@, k, nextId), ![v].cap = newcap]
  /\ val' = [val EXCEPT ![nextId] = nextId]
  /\ nextId' = nextId + 1
  /\ UNCHANGED drops
  /\ last' = L("ok")

(* out-of-range insert: the assert fires before anything is touched; the     *)
(* element passed by value is destroyed by the unwinding.                    *)
InsertOOB(v, k) ==
  /\ vec[v].live
  /\ nextId <= MaxId
  /\ k > LenOf(v)
  /\ val' = [val EXCEPT ![nextId] = nextId]
  /\ drops' = Bump(drops, {nextId})
  /\ nextId' = nextId + 1
  /\ UNCHANGED vec
  /\ last' = L("panic")

(* remove (vec.rs:153-163)                                                   *)
Remove(v, k) ==
  /\ vec[v].live
  /\ k < LenOf(v)
  /\ LET e == vec[v].elems[k + 1] IN
       /\ vec' = [vec EXCEPT ![v].elems = RemoveAt(@, k)]
       /\ drops' = Bump(drops, {e})
       /\ last' = [kind |-> "ret", id |-> e]
  /\ UNCHANGED <<val, nextId>>

RemoveOOB(v, k) ==
  /\ vec[v].live
  /\ k >= LenOf(v)
  /\ UNCHANGED <<vec, val, drops, nextId>>
  /\ last' = L("panic")

(* reserve (vec.rs:123-127)                                                  *)
Reserve(v, n, newcap) ==
  /\ vec[v].live
  /\ CapOk(v, n, newcap)
  /\ vec' = [vec EXCEPT ![v].cap = newcap]
  /\ UNCHANGED <<val, drops, nextId>>
  /\ last' = L("ok")

(* Clone (vec.rs:33-37): element-wise clone into a fresh Vec                  *)
CloneVec(v, w, cap0) ==
  /\ vec[v].live
  /\ ~vec[w].live
  /\ nextId + LenOf(v) - 1 <= MaxId
  /\ cap0 >= LenOf(v)
  /\ LET n == LenOf(v) IN
       /\ vec' = [vec EXCEPT ![w] = [live |-> TRUE, elems |-> FreshSeq(n), cap |-> cap0]]
       /\ val' = [i \in Id |-> IF i \in nextId..(nextId + n - 1)
                                 THEN val[vec[v].elems[i - nextId + 1]] ELSE val[i]]
       /\ nextId' = nextId + n
  /\ UNCHANGED drops
  /\ last' = L("ok")

(* in-place write through DerefMut: vec[k] = fresh; the old element dies      *)
WriteAt(v, k) ==
  /\ vec[v].live
  /\ nextId <= MaxId
  /\ k < LenOf(v)
  /\ LET e == vec[v].elems[k + 1] IN
       /\ vec' = [vec EXCEPT ![v].elems[k + 1] = nextId]
       /\ drops' = Bump(drops, {e})
  /\ val' = [val EXCEPT ![nextId] = nextId]
  /\ nextId' = nextId + 1
  /\ last' = L("ok")

(* Drop (vec.rs:45-51): the stored drop_fn destroys every element and frees   *)
(* the buffer with the recorded capacity.                                     *)
DropVec(v) ==
  /\ vec[v].live
  /\ drops' = Bump(drops, Range(vec[v].elems))
  /\ vec' = [vec EXCEPT ![v] = Dead]
  /\ UNCHANGED <<val, nextId>>
  /\ last' = L("ok")

(***************************************************************************)
(* Dispatch from action records.                                           *)
(***************************************************************************)
Do(a) ==
  \/ a.op = "FromVec"   /\ FromVec(a.v, a.n, a.cap)
  \/ a.op = "Push"      /\ Push(a.v, a.cap)
  \/ a.op = "Pop"       /\ Pop(a.v)
  \/ a.op = "Insert"    /\ Insert(a.v, a.k, a.cap)
  \/ a.op = "InsertOOB" /\ InsertOOB(a.v, a.k)
  \/ a.op = "Remove"    /\ Remove(a.v, a.k)
  \/ a.op = "RemoveOOB" /\ RemoveOOB(a.v, a.k)
  \/ a.op = "Reserve"   /\ Reserve(a.v, a.n, a.cap)
  \/ a.op = "Clone"     /\ CloneVec(a.v, a.w, a.cap)
  \/ a.op = "WriteAt"   /\ WriteAt(a.v, a.k)
  \/ a.op = "Drop"      /\ DropVec(a.v)

(***************************************************************************)
(* What an observer of the real CVec can see: contents (identity, value),   *)
(* destructor counts, outcome of the call.  No capacity *values*.           *)
(***************************************************************************)
Proj ==
  [ vecs  |-> [v \in Slot |-> IF vec[v].live
                                THEN [k \in 1..LenOf(v) |-> <<vec[v].elems[k], val[vec[v].elems[k]]>>]
                                ELSE <<>>],
    live  |-> [v \in Slot |-> vec[v].live],
    drops |-> [i \in 1..(nextId - 1) |-> drops[i]],
    last  |-> last ]

(***************************************************************************)
(* Properties (C11)                                                        *)
(***************************************************************************)
TypeOK ==
  /\ \A v \in Slot : /\ vec[v].live \in BOOLEAN
                     /\ vec[v].cap \in Nat
                     /\ \A k \in 1..LenOf(v) : vec[v].elems[k] \in 1..(nextId - 1)
  /\ nextId \in 1..(MaxId + 1)

CapGeLen == \A v \in Slot : vec[v].live => vec[v].cap >= LenOf(v)

DropAtMostOnce == \A i \in Id : drops[i] <= 1

Owned == UNION {Range(vec[v].elems) : v \in {s \in Slot : vec[s].live}}

(* no element is owned twice (neither inside one vector nor across vectors)   *)
NoAlias ==
  /\ \A v \in Slot : vec[v].live =>
        \A j, k \in 1..LenOf(v) : j # k => vec[v].elems[j] # vec[v].elems[k]
  /\ \A v, w \in Slot : v # w /\ vec[v].live /\ vec[w].live =>
        Range(vec[v].elems) \cap Range(vec[w].elems) = {}

(* every element ever created is either still owned (never destroyed) or was  *)
(* destroyed exactly once: nothing leaks, nothing dangles                     *)
ExactlyOnce ==
  \A i \in 1..(nextId - 1) : IF i \in Owned THEN drops[i] = 0 ELSE drops[i] = 1

DeadIsEmpty == \A v \in Slot : ~vec[v].live => vec[v] = Dead

(* a panicking call leaves every vector untouched                            *)
PanicIsNoOp == [][last'.kind = "panic" => vec' = vec]_vars
=============================================================================
