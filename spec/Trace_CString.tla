---------------------------- MODULE Trace_CString ----------------------------
EXTENDS CString, Json, IOUtils, TLC
Rec == ndJsonDeserialize(IOEnv.TRACE)
VARIABLE l
TraceInit == Init /\ l = 1
Reset == cs' = [s \in Slot |-> Dead] /\ nalloc' = 0 /\ freed' = 0 /\ obs' = NoObs
TraceNext ==
  /\ l <= Len(Rec)
  /\ l' = l + 1
  /\ LET e == Rec[l] IN
       IF e.op = "reset" THEN Reset
       ELSE IF e.op = "quiescent" THEN e.ok /\ nalloc = 0 /\ UNCHANGED vars
       ELSE Do(e) /\ e.ok /\ Proj' = e.proj
TraceSpec == TraceInit /\ [][TraceNext]_<<vars, l>>
TraceAccepted ==
  LET d == TLCGet("stats").diameter IN
  IF d - 1 = Len(Rec) THEN TRUE ELSE Print(<<"TRACE-REJECTED line", d, Rec[d]>>, FALSE)
=============================================================================
