------------------------------ MODULE CString ------------------------------
(***************************************************************************)
(* cglue::repr_cstring::{ReprCString, ReprCStr} (property C14).             *)
(*                                                                          *)
(* A ReprCString owns exactly one heap buffer holding the input up to its   *)
(* first NUL byte followed by exactly one NUL.  `buf` is that buffer,       *)
(* `asize` the size it was allocated with (and must be freed with).         *)
(* Inputs are byte sequences (strings are their UTF-8 bytes).               *)
(***************************************************************************)
EXTENDS Naturals, Sequences, FiniteSets

CONSTANTS Slot

VARIABLES cs,      \* [Slot -> [live : BOOLEAN, buf : Seq(Byte), asize : Nat]]
          nalloc,  \* live heap blocks owned by ReprCStrings
          freed,   \* number of buffers freed so far
          obs      \* observation of the last read-only operation

vars == <<cs, nalloc, freed, obs>>

Dead == [live |-> FALSE, buf |-> <<>>, asize |-> 0]
NoObs == [kind |-> "none", text |-> <<>>, flag |-> FALSE]

(* bytes of `b` before its first NUL (all of b if it has none)               *)
RECURSIVE Prefix(_)
Prefix(b) == IF b = <<>> \/ Head(b) = 0 THEN <<>> ELSE <<Head(b)>> \o Prefix(Tail(b))

TextOf(s) == SubSeq(cs[s].buf, 1, Len(cs[s].buf) - 1)

Init ==
  /\ cs = [s \in Slot |-> Dead]
  /\ nalloc = 0
  /\ freed = 0
  /\ obs = NoObs

(* From<&str>, From<String>, From<&[u8]> (repr_cstring.rs:38-62): all three  *)
(* must build prefix ++ <<0>> in one block of exactly that size               *)
From(s, how, input) ==
  /\ ~cs[s].live
  /\ how \in {"str", "string", "bytes"}
  /\ LET b == Prefix(input) \o <<0>> IN
       cs' = [cs EXCEPT ![s] = [live |-> TRUE, buf |-> b, asize |-> Len(b)]]
  /\ nalloc' = nalloc + 1
  /\ UNCHANGED freed
  /\ obs' = NoObs

(* Clone (repr_cstring.rs:104-108): by content, into a fresh buffer           *)
CloneStr(s, d) ==
  /\ cs[s].live /\ ~cs[d].live
  /\ cs' = [cs EXCEPT ![d] = cs[s]]
  /\ nalloc' = nalloc + 1
  /\ UNCHANGED freed
  /\ obs' = NoObs

(* Drop (repr_cstring.rs:93-102): frees the one buffer with its allocation size *)
DropStr(s) ==
  /\ cs[s].live
  /\ cs' = [cs EXCEPT ![s] = Dead]
  /\ nalloc' = nalloc - 1
  /\ freed' = freed + 1
  /\ obs' = NoObs

(* AsRef<str> / Deref / Display / Borrow<ReprCStr>: read back the text        *)
Read(s, how) ==
  /\ cs[s].live
  /\ how \in {"as_ref", "deref", "display", "borrow"}
  /\ obs' = [kind |-> how, text |-> TextOf(s), flag |-> FALSE]
  /\ UNCHANGED <<cs, nalloc, freed>>

(* PartialEq: by content                                                       *)
Eq(s, t) ==
  /\ cs[s].live /\ cs[t].live
  /\ obs' = [kind |-> "eq", text |-> <<>>, flag |-> (cs[s].buf = cs[t].buf)]
  /\ UNCHANGED <<cs, nalloc, freed>>

(* ReprCStr::from(&CStr) reads back the same text; the borrowed view owns nothing *)
BorrowCStr(input) ==
  /\ \A k \in 1..Len(input) : input[k] # 0
  /\ obs' = [kind |-> "cstr", text |-> input, flag |-> FALSE]
  /\ UNCHANGED <<cs, nalloc, freed>>

Do(e) ==
  \/ e.op = "From"       /\ From(e.s, e.how, e.input)
  \/ e.op = "Clone"      /\ CloneStr(e.s, e.d)
  \/ e.op = "Drop"       /\ DropStr(e.s)
  \/ e.op = "Read"       /\ Read(e.s, e.how)
  \/ e.op = "Eq"         /\ Eq(e.s, e.t)
  \/ e.op = "BorrowCStr" /\ BorrowCStr(e.input)

Proj ==
  [ text   |-> [s \in Slot |-> IF cs[s].live THEN TextOf(s) ELSE <<>>],
    asize  |-> [s \in Slot |-> cs[s].asize],
    live   |-> [s \in Slot |-> cs[s].live],
    nalloc |-> nalloc,
    obs    |-> obs ]

(***************************************************************************)
(* Properties (C14)                                                        *)
(***************************************************************************)
WellFormed ==
  \A s \in Slot : cs[s].live =>
     /\ Len(cs[s].buf) >= 1
     /\ cs[s].buf[Len(cs[s].buf)] = 0                                   \* terminated
     /\ \A k \in 1..(Len(cs[s].buf) - 1) : cs[s].buf[k] # 0             \* exactly one NUL
     /\ cs[s].asize = Len(cs[s].buf)                                    \* freed with the size allocated
OneBufferEach == nalloc = Cardinality({s \in Slot : cs[s].live})
=============================================================================
