------------------------------- MODULE IntRes -------------------------------
(***************************************************************************)
(* cglue::result — integer result codes (property C13, library level).      *)
(*                                                                          *)
(* into_int_out_result / into_int_result encode a Result into an i32 code   *)
(* plus an output slot owned by the caller; from_int_result /               *)
(* from_int_result_empty decode.  The slot is modelled explicitly: whether  *)
(* it was written, how often, and whether decoding read it.                 *)
(* Error flavours shipped with the library: io::Error with an OS code,      *)
(* io::Error without one (ErrorKind only), (), fmt::Error.                  *)
(***************************************************************************)
EXTENDS Integers, Sequences, FiniteSets

CONSTANTS Codes,   \* representative i32 OS error codes
          MaxId

VARIABLES slot,     \* [written : Nat, val : 0..MaxId]   caller's MaybeUninit<T> (val 0 = sentinel pattern intact)
          code,     \* last code returned by an encoder
          decoded,  \* result handed back by the decoder
          reads,    \* how often a decoder read the slot
          pdrops,   \* [1..MaxId -> Nat] destructor count of success payloads
          phase     \* "idle" | "encoded" | "decoded"

vars == <<slot, code, decoded, reads, pdrops, phase>>

Flavours == {"os", "kind", "unit", "fmt"}

(* result.rs:125-137: an OS code of 0 (and an error without OS code) becomes 0xffff *)
IoEnc(n) == IF n = 0 THEN 65535 ELSE n
ErrCode(f, n) == CASE f = "os" -> IoEnc(n) [] f = "kind" -> 65535 [] OTHER -> 1
(* what the decoder rebuilds from a non-zero code *)
ErrBack(f, c) == IF f \in {"os", "kind"} THEN [f |-> "os", n |-> c] ELSE [f |-> f, n |-> 0]

NoRes == [ok |-> FALSE, id |-> 0, err |-> [f |-> "none", n |-> 0]]

Init ==
  /\ slot = [written |-> 0, val |-> 0]
  /\ code = 0 /\ decoded = NoRes /\ reads = 0
  /\ pdrops = [i \in 1..MaxId |-> 0]
  /\ phase = "idle"

(* into_int_out_result (result.rs:184-192): Ok moves the value into the slot and returns 0; *)
(* Err leaves the slot alone and returns the error's non-zero code                           *)
EncOk(id) ==
  /\ phase = "idle" /\ id \in 1..MaxId
  /\ slot' = [written |-> slot.written + 1, val |-> id]
  /\ code' = 0
  /\ phase' = "encoded"
  /\ UNCHANGED <<decoded, reads, pdrops>>

EncErr(f, n) ==
  /\ phase = "idle" /\ f \in Flavours
  /\ code' = ErrCode(f, n)
  /\ phase' = "encoded"
  /\ UNCHANGED <<slot, decoded, reads, pdrops>>

(* into_int_result (result.rs:169-174): no slot; a success value is dropped on the spot      *)
EncEmptyOk(id) ==
  /\ phase = "idle" /\ id \in 1..MaxId
  /\ code' = 0
  /\ pdrops' = [pdrops EXCEPT ![id] = @ + 1]
  /\ phase' = "encoded"
  /\ UNCHANGED <<slot, decoded, reads>>

(* from_int_result (result.rs:205-210): reads the slot only when the code is 0               *)
Dec(f) ==
  /\ phase = "encoded" /\ f \in Flavours
  /\ IF code = 0
       THEN /\ decoded' = [ok |-> TRUE, id |-> slot.val, err |-> [f |-> "none", n |-> 0]]
            /\ reads' = reads + 1
       ELSE /\ decoded' = [ok |-> FALSE, id |-> 0, err |-> ErrBack(f, code)]
            /\ UNCHANGED reads
  /\ phase' = "decoded"
  /\ UNCHANGED <<slot, code, pdrops>>

(* from_int_result_empty (result.rs:217-222)                                                 *)
DecEmpty(f) ==
  /\ phase = "encoded" /\ f \in Flavours
  /\ decoded' = IF code = 0 THEN [ok |-> TRUE, id |-> 0, err |-> [f |-> "none", n |-> 0]]
                ELSE [ok |-> FALSE, id |-> 0, err |-> ErrBack(f, code)]
  /\ phase' = "decoded"
  /\ UNCHANGED <<slot, code, reads, pdrops>>

(* the caller drops what it got back *)
Finish ==
  /\ phase = "decoded"
  /\ pdrops' = IF decoded.ok /\ decoded.id # 0 THEN [pdrops EXCEPT ![decoded.id] = @ + 1] ELSE pdrops
  /\ phase' = "idle"
  /\ slot' = [written |-> 0, val |-> 0]
  /\ decoded' = NoRes
  /\ UNCHANGED <<code, reads>>

Do(e) ==
  \/ e.op = "EncOk"      /\ EncOk(e.id)
  \/ e.op = "EncErr"     /\ EncErr(e.f, e.n)
  \/ e.op = "EncEmptyOk" /\ EncEmptyOk(e.id)
  \/ e.op = "Dec"        /\ Dec(e.f)
  \/ e.op = "DecEmpty"   /\ DecEmpty(e.f)
  \/ e.op = "Finish"     /\ Finish

Proj == [code |-> code, written |-> slot.written, val |-> slot.val, decoded |-> decoded,
         pdrops |-> pdrops, phase |-> phase]

(***************************************************************************)
(* Properties (C13)                                                        *)
(***************************************************************************)
(* zero means success: after an encoder ran, code = 0 exactly when it was given Ok            *)
ZeroIffOk == [][\A id \in 1..MaxId, f \in Flavours, n \in Codes :
                  /\ (EncOk(id) \/ EncEmptyOk(id)) => code' = 0
                  /\ EncErr(f, n) => code' # 0]_vars
(* the slot is written exactly once on success and not at all on failure                      *)
SlotDiscipline == [][\A id \in 1..MaxId, f \in Flavours, n \in Codes :
                       /\ EncOk(id) => slot'.written = slot.written + 1 /\ slot'.val = id
                       /\ EncErr(f, n) => slot' = slot]_vars
(* decoding touches the slot only when the code is 0                                          *)
ReadOnlyOnZero == [][reads' # reads => code = 0]_vars
(* a non-zero OS code survives the round trip                                                 *)
OsRoundTrip == \A n \in Codes : n # 0 => ErrBack("os", ErrCode("os", n)) = [f |-> "os", n |-> n]
NoErrorEncodesToZero == \A f \in Flavours, n \in Codes : ErrCode(f, n) # 0
DropAtMostOnce == \A i \in 1..MaxId : pdrops[i] <= 1
=============================================================================
