CONSTANTS
  Handle = {1, 2}
  MaxInst = 4
  Ctx = {1}
  Mod = 61
  Deviations = {"borrowed_child_ctx_leak"}
  Vals = {7}
  Args = {2}
  ObjTraits = {"Ra", "Rb", "Ma", "Ob", "Kid", "Clone"}
  Ops = {"EnvNew", "EnvDrop", "EnvRelease", "NewOwned", "NewBorrowed", "Call", "CastBorrow", "CastMove", "Upcast", "Clone", "KidOwned", "KidBorrowed", "KidView", "Consume", "ConsumeEnd", "Drop"}
  PTs = {0, 1, 2, 3, 4, 5}
  Depth = 2
SPECIFICATION GenSpec
INVARIANTS Emit
CHECK_DEADLOCK FALSE
