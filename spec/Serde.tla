------------------------------- MODULE Serde -------------------------------
(***************************************************************************)
(* The optional serde support of the wrapper types (cglue feature `serde`:  *)
(* COption, CVec, CTupN, ReprCString).  Not one of the listed properties;   *)
(* the specification is part of the description of the system.              *)
(*                                                                          *)
(* A wrapper has the JSON image of the std type it stands for, and reading  *)
(* that image back gives the same value - with one documented exception:    *)
(* a ReprCString keeps the text up to the first NUL (property C14), so its  *)
(* image is the truncated text.                                             *)
(*                                                                          *)
(* Values are written as their std JSON image, every node a record (TLC     *)
(* cannot put numbers and strings into one set): [n |-> number],            *)
(* [null |-> TRUE], [l |-> <<elements>>] for arrays (vectors and tuples),   *)
(* [s |-> <<character codes>>] for strings.                                 *)
(***************************************************************************)
EXTENDS Naturals, Sequences, FiniteSets, TLC, Json

U64 == [k |-> "u64"]
Str == [k |-> "str"]
Opt(t) == [k |-> "opt", t |-> t]
Vec(t) == [k |-> "vec", t |-> t]
Tup(a, b) == [k |-> "tup", a |-> a, b |-> b]

(* the types exercised: name of the Rust instantiation -> structure *)
Types == [ opt_u64 |-> Opt(U64), vec_u64 |-> Vec(U64), tup_u64_u64 |-> Tup(U64, U64),
           opt_vec_u64 |-> Opt(Vec(U64)), vec_opt_u64 |-> Vec(Opt(U64)),
           str |-> Str, vec_str |-> Vec(Str), opt_str |-> Opt(Str),
           tup_opt_vec |-> Tup(Opt(U64), Vec(U64)) ]

Nums == {0, 7}
Texts == {<<>>, <<97, 98>>, <<97, 0, 98>>, <<0>>, <<233, 8364>>}
SeqsUpTo2(S) == {<<>>} \cup {<<x>> : x \in S} \cup {<<x, y>> : x \in S, y \in S}

RECURSIVE Vals(_)
Null == [null |-> TRUE]
Vals(t) == CASE t.k = "u64" -> {[n |-> x] : x \in Nums}
             [] t.k = "str" -> {[s |-> x] : x \in Texts}
             [] t.k = "opt" -> {Null} \cup Vals(t.t)
             [] t.k = "vec" -> {[l |-> q] : q \in SeqsUpTo2(Vals(t.t))}
             [] OTHER       -> {[l |-> <<x, y>>] : x \in Vals(t.a), y \in Vals(t.b)}

(* text up to the first NUL *)
RECURSIVE Cut(_)
Cut(cs) == IF cs = <<>> \/ Head(cs) = 0 THEN <<>> ELSE <<Head(cs)>> \o Cut(Tail(cs))

(* image of the wrapper built from the std value v of type t (= what reading v's image into the wrapper gives back) *)
RECURSIVE Img(_, _)
Img(t, v) == CASE t.k = "u64" -> v
               [] t.k = "str" -> [s |-> Cut(v.s)]
               [] t.k = "opt" -> IF v = Null THEN v ELSE Img(t.t, v)
               [] t.k = "vec" -> [l |-> [i \in DOMAIN v.l |-> Img(t.t, v.l[i])]]
               [] OTHER       -> [l |-> <<Img(t.a, v.l[1]), Img(t.b, v.l[2])>>]

(* the image is a fixed point: reading it back and writing it again changes nothing *)
ASSUME \A n \in DOMAIN Types : \A v \in Vals(Types[n]) : Img(Types[n], Img(Types[n], v)) = Img(Types[n], v)
(* without strings the wrapper's image is the std image itself *)
ASSUME \A n \in {"opt_u64", "vec_u64", "tup_u64_u64", "opt_vec_u64", "vec_opt_u64", "tup_opt_vec"} : \A v \in Vals(Types[n]) : Img(Types[n], v) = v

VARIABLE done
Init == done = FALSE
Next == UNCHANGED done
Emit == PrintT(<<"REPLAY", ToJson([cases |-> UNION {{[ty |-> n, std |-> v, img |-> Img(Types[n], v)] : v \in Vals(Types[n])} : n \in DOMAIN Types}])>>)
=============================================================================
