------------------------------ MODULE MC_CVec ------------------------------
(* Bounded action alphabet for CVec: used by the exhaustive model check and  *)
(* (through Gen_CVec) by the behaviour generator.                            *)
EXTENDS CVec, TLC

CONSTANTS MaxLen,   \* vectors longer than this are not grown further
          Slack,    \* reserve may over-allocate by 0..Slack
          InitLens, \* lengths of vectors converted from a Vec
          Spares,   \* spare capacities of vectors converted from a Vec
          ResN      \* arguments of reserve()

LiveSlots == {v \in Slot : vec[v].live}
DeadSlots == {v \in Slot : ~vec[v].live}
Caps(v, n) == IF NeedGrow(v, n) THEN (LenOf(v) + n)..(LenOf(v) + n + Slack) ELSE {vec[v].cap}
Growable == {v \in LiveSlots : LenOf(v) < MaxLen}

Actions ==
  {[op |-> "FromVec", v |-> v, n |-> n, cap |-> n + s] : v \in DeadSlots, n \in InitLens, s \in Spares}
  \cup UNION {{[op |-> "Push", v |-> v, cap |-> c] : c \in Caps(v, 1)} : v \in Growable}
  \cup {[op |-> "Pop", v |-> v] : v \in LiveSlots}
  \cup UNION {UNION {{[op |-> "Insert", v |-> v, k |-> k, cap |-> c] : c \in Caps(v, 1)} : k \in 0..LenOf(v)} : v \in Growable}
  \cup UNION {{[op |-> "InsertOOB", v |-> v, k |-> k] : k \in {LenOf(v) + 1, LenOf(v) + 3}} : v \in LiveSlots}
  \cup UNION {{[op |-> "Remove", v |-> v, k |-> k] : k \in 0..(LenOf(v) - 1)} : v \in LiveSlots}
  \cup UNION {{[op |-> "RemoveOOB", v |-> v, k |-> k] : k \in {LenOf(v), LenOf(v) + 2}} : v \in LiveSlots}
  \cup UNION {UNION {{[op |-> "Reserve", v |-> v, n |-> n, cap |-> c] : c \in Caps(v, n)} : n \in ResN} : v \in LiveSlots}
  \cup {[op |-> "Clone", v |-> v, w |-> w, cap |-> LenOf(v)] : v \in LiveSlots, w \in DeadSlots}
  \cup UNION {{[op |-> "WriteAt", v |-> v, k |-> k] : k \in 0..(LenOf(v) - 1)} : v \in LiveSlots}
  \cup {[op |-> "Drop", v |-> v] : v \in LiveSlots}

Next == \E a \in Actions : Do(a)
Spec == Init /\ [][Next]_vars

(* hide nothing: every variable is behaviour-relevant here *)
=============================================================================
