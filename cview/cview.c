/*
 * C16: a foreign caller that knows only the C declarations published for cglue's runtime types.
 * Every structure below is written from the documented layout, not from the Rust sources:
 *   box      {instance, drop function}
 *   arc      {instance, clone function, drop function}
 *   slice    {data, length}
 *   vector   {data, length, capacity, drop function, reserve function}
 *   callback {context, function}
 *   iterator {state, next function returning 0 for an item}
 *   option   tag None=0 / Some=1, result tag Ok=0 / Err=1
 * All element access is by byte size so that one implementation serves every element type.
 */
#include <stddef.h>
#include <stdint.h>
#include <string.h>
#include <stdlib.h>

typedef struct { void *instance; void (*drop_fn)(void *); } c_box;
typedef struct { const void *instance; const void *(*clone_fn)(const void *); void (*drop_fn)(const void *); } c_arc;
typedef struct { const void *data; size_t len; } c_slice_ref;
typedef struct { void *data; size_t len; } c_slice_mut;
typedef struct c_vec { void *data; size_t len; size_t capacity; void (*drop_fn)(void *, size_t, size_t); size_t (*reserve_fn)(struct c_vec *, size_t); } c_vec;
typedef struct { void *context; uint8_t (*func)(void *, uint64_t); } c_callback_u64;
typedef struct { void *iter; int32_t (*func)(void *, uint64_t *); } c_iter_u64;
typedef struct { uint32_t tag; uint64_t value; } c_option_u64;          /* repr(C) enum: tag then payload */
typedef struct { uint32_t tag; union { uint64_t ok; uint32_t err; } v; } c_result_u64_u32;

/* ---- box ---- */
void cv_box_release(c_box *b) { if (b->drop_fn) { b->drop_fn(b->instance); b->drop_fn = 0; } }
const void *cv_box_instance(const c_box *b) { return b->instance; }

/* ---- arc ---- */
c_arc cv_arc_clone(const c_arc *a) {
    c_arc r; r.instance = 0; r.clone_fn = 0; r.drop_fn = 0;
    if (a->instance) { r.instance = a->clone_fn(a->instance); r.clone_fn = a->clone_fn; r.drop_fn = a->drop_fn; }
    return r;
}
void cv_arc_release(c_arc *a) { if (a->instance && a->drop_fn) a->drop_fn(a->instance); a->instance = 0; a->clone_fn = 0; a->drop_fn = 0; }
const void *cv_arc_instance(const c_arc *a) { return a->instance; }

/* ---- slices ---- */
uint64_t cv_slice_sum(const c_slice_ref *s, size_t elem) {
    uint64_t sum = 0; const unsigned char *p = (const unsigned char *)s->data;
    for (size_t i = 0; i < s->len * elem; i++) sum = sum * 31 + p[i];
    return sum + s->len;
}
void cv_slice_fill(c_slice_mut *s, size_t elem, unsigned char v) {
    unsigned char *p = (unsigned char *)s->data;
    for (size_t i = 0; i < s->len * elem; i++) p[i] = (unsigned char)(v + i);
}

/* ---- vector ---- */
size_t cv_vec_len(const c_vec *v) { return v->len; }
size_t cv_vec_cap(const c_vec *v) { return v->capacity; }
static void cv_grow(c_vec *v, size_t n) { if (v->capacity - v->len < n) v->reserve_fn(v, n); }
void cv_vec_reserve(c_vec *v, size_t n) { cv_grow(v, n); }
void cv_vec_push(c_vec *v, const void *e, size_t sz) {
    cv_grow(v, 1); memcpy((char *)v->data + v->len * sz, e, sz); v->len += 1;
}
int cv_vec_pop(c_vec *v, void *out, size_t sz) {
    if (v->len == 0) return 0;
    v->len -= 1; memcpy(out, (char *)v->data + v->len * sz, sz); return 1;
}
void cv_vec_insert(c_vec *v, size_t k, const void *e, size_t sz) {
    cv_grow(v, 1);
    char *p = (char *)v->data + k * sz;
    memmove(p + sz, p, (v->len - k) * sz); memcpy(p, e, sz); v->len += 1;
}
void cv_vec_remove(c_vec *v, size_t k, void *out, size_t sz) {
    char *p = (char *)v->data + k * sz;
    memcpy(out, p, sz); memmove(p, p + sz, (v->len - k - 1) * sz); v->len -= 1;
}
void cv_vec_write(c_vec *v, size_t k, const void *e, size_t sz) { memcpy((char *)v->data + k * sz, e, sz); }
void cv_vec_read(const c_vec *v, size_t k, void *out, size_t sz) { memcpy(out, (const char *)v->data + k * sz, sz); }
void cv_vec_release(c_vec *v) { if (v->drop_fn) { v->drop_fn(v->data, v->len, v->capacity); v->drop_fn = 0; } }

/* ---- a box MADE here (caller-provided storage): the other side must hand exactly this pointer to exactly this function,
 * once; a box without a drop function is a loan and must never be released ---- */
static size_t cv_box_freed_n; static void *cv_box_freed_last;
static void cv_box_free(void *p) { cv_box_freed_n++; cv_box_freed_last = p; *(uint64_t *)p = 0xDEADDEADDEADDEADull; }
void cv_box_make(c_box *out, uint64_t *storage, uint64_t v, int owned) { *storage = v; out->instance = storage; out->drop_fn = owned ? cv_box_free : 0; }
size_t cv_box_freed(void) { return cv_box_freed_n; }
const void *cv_box_freed_ptr(void) { return cv_box_freed_last; }

/* ---- a vector MADE here over malloc/realloc/free: growing and releasing it are this side's business, through the two
 * functions stored in the vector ---- */
typedef struct { size_t reserves; size_t drops; size_t dropped_len; size_t dropped_cap; const void *dropped_data; size_t live_blocks; } cv_vecstat;
static cv_vecstat CVS;
static size_t cv_made_reserve(c_vec *v, size_t add) {
    CVS.reserves++;
    if (v->capacity - v->len >= add) return v->capacity;
    size_t nc = v->capacity * 2; if (nc < v->len + add) nc = v->len + add; if (nc < 4) nc = 4;
    v->data = realloc(v->data, nc * sizeof(uint64_t)); v->capacity = nc;
    return nc;
}
static void cv_made_drop(void *d, size_t len, size_t cap) { CVS.drops++; CVS.dropped_len = len; CVS.dropped_cap = cap; CVS.dropped_data = d; CVS.live_blocks--; free(d); }
void cv_vec_make(c_vec *v) { memset(&CVS, 0, sizeof CVS); v->data = malloc(sizeof(uint64_t)); v->len = 0; v->capacity = 1; v->drop_fn = cv_made_drop; v->reserve_fn = cv_made_reserve; CVS.live_blocks = 1; }
void cv_vec_stat(cv_vecstat *out) { *out = CVS; }

/* ---- a callback MADE here: collects what it is given, asks to stop from its stop-th invocation on ---- */
typedef struct { uint64_t got[32]; size_t n; size_t stop; size_t calls; } cv_cb_state;
static uint8_t cv_cb_fn(void *c, uint64_t v) { cv_cb_state *s = (cv_cb_state *)c; s->calls++; if (s->n < 32) s->got[s->n++] = v; return !(s->stop && s->calls >= s->stop); }
void cv_cb_make(c_callback_u64 *cb, cv_cb_state *st) { cb->context = st; cb->func = cv_cb_fn; }

/* ---- callback: the feed loop as a C caller writes it ---- */
size_t cv_feed(c_callback_u64 *cb, const uint64_t *items, size_t n) {
    size_t cnt = 0;
    for (size_t i = 0; i < n; i++) { cnt++; if (!cb->func(cb->context, items[i])) break; }
    return cnt;
}

/* ---- iterator: advance until the function reports the end ---- */
size_t cv_iter_drain(c_iter_u64 *it, uint64_t *out, size_t max) {
    size_t n = 0; uint64_t v;
    while (n < max && it->func(it->iter, &v) == 0) out[n++] = v;
    return n;
}
int32_t cv_iter_next(c_iter_u64 *it, uint64_t *out) { return it->func(it->iter, out); }

/* ---- an iterator MADE here, from the published layout, consumed by the other side: 0 = an item was written to *out, any
 * other status = no item (this producer reports the end with a status chosen by the caller and counts how often it is
 * asked again after that) ---- */
typedef struct { const uint64_t *items; size_t n; size_t pos; int32_t end_status; size_t calls_after_end; } cv_arr_state;
static int32_t cv_arr_next(void *s, uint64_t *out) {
    cv_arr_state *st = (cv_arr_state *)s;
    if (st->pos < st->n) { *out = st->items[st->pos++]; return 0; }
    st->calls_after_end++;
    return st->end_status;
}
void cv_arr_iter(c_iter_u64 *it, cv_arr_state *st) { it->iter = st; it->func = cv_arr_next; }

/* ---- option / result tags ---- */
uint32_t cv_opt_tag(const c_option_u64 *o) { return o->tag; }
uint64_t cv_opt_value(const c_option_u64 *o) { return o->value; }
uint32_t cv_res_tag(const c_result_u64_u32 *r) { return r->tag; }
uint64_t cv_res_ok(const c_result_u64_u32 *r) { return r->v.ok; }
uint32_t cv_res_err(const c_result_u64_u32 *r) { return r->v.err; }
c_option_u64 cv_opt_make(uint32_t tag, uint64_t v) { c_option_u64 o; o.tag = tag; o.value = v; return o; }

/* ---- option / result with payloads narrower than the tag: sizes and offsets as the C declaration has them ---- */
typedef struct { uint32_t tag; uint8_t value; } c_option_u8;
typedef struct { uint32_t tag; uint16_t value; } c_option_u16;
typedef struct { uint32_t tag; union { uint8_t ok; uint16_t err; } v; } c_result_u8_u16;
size_t cv_sizeof(int which) {
    switch (which) {
    case 0: return sizeof(c_option_u8);
    case 1: return sizeof(c_option_u16);
    case 2: return sizeof(c_option_u64);
    case 3: return sizeof(c_result_u8_u16);
    default: return sizeof(c_result_u64_u32);
    }
}
uint32_t cv_opt8_tag(const c_option_u8 *o) { return o->tag; }
uint8_t cv_opt8_value(const c_option_u8 *o) { return o->value; }
uint32_t cv_opt16_tag(const c_option_u16 *o) { return o->tag; }
uint16_t cv_opt16_value(const c_option_u16 *o) { return o->value; }
void cv_opt8_fill(c_option_u8 *o, uint32_t tag, uint8_t v) { memset(o, 0x5A, sizeof(*o)); o->tag = tag; o->value = v; }
void cv_opt16_fill(c_option_u16 *o, uint32_t tag, uint16_t v) { memset(o, 0x5A, sizeof(*o)); o->tag = tag; o->value = v; }
uint32_t cv_res816_tag(const c_result_u8_u16 *r) { return r->tag; }
uint8_t cv_res816_ok(const c_result_u8_u16 *r) { return r->v.ok; }
uint16_t cv_res816_err(const c_result_u8_u16 *r) { return r->v.err; }
